struct S { long a; int x:5; };
struct T { char c; int x:5; };
struct U { long a; char b; int x:3; };
