#!/bin/sh
# usage: run.sh <bindgen binary>   exit 0 if --explicit-padding bindings of structs ending in a bit-field compile (their own size assertions hold)
d=$(dirname "$0"); t=$(mktemp -d)
"$1" "$d/ep.h" --explicit-padding -o "$t/ep.rs" 2>/dev/null || { rm -rf "$t"; exit 2; }
n=$(grep -c "__bindgen_padding_1" "$t/ep.rs")
rustc --edition 2021 --crate-type lib -A warnings "$t/ep.rs" -o "$t/ep.rlib" 2> "$t/err"; rc=$?
[ $rc -eq 0 ] || { grep -m2 -E "error|overflow|out of range" "$t/err"; echo "F14: tail padding emitted twice ($n second padding fields)"; }
rm -rf "$t"; exit $rc
