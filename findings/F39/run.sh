#!/bin/sh
# usage: run.sh <bindgen binary>   exit 0 if every NON-const global of globals.h is bound as a mutable static (no `pub const`)
d=$(dirname "$0")
out=$("$1" "$d/globals.h" --no-layout-tests 2>/dev/null) || exit 2
rc=0
for v in counter wide ratio banner; do
  echo "$out" | grep -aEq "pub const $v:" && { echo "$out" | grep -aE "pub const $v:"; rc=1; }
  echo "$out" | grep -aEq "pub static mut $v:" || { echo "no 'pub static mut $v'"; rc=1; }
done
[ $rc -eq 0 ] || echo "F39: non-const globals with a constant initialiser are bound as Rust constants"
exit $rc
