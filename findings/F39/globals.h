int counter = 5;
unsigned long long wide = 18446744073709551615UL;
double ratio = 0.5;
const char *banner = "hello";
