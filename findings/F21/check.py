#!/usr/bin/env python3
"""F21: every function type nested in a declaration has the arity the header declares.
Reads bindgen output on stdin; the expected parameter counts are those of fnptr_ret.h (written by hand from the C text)."""
import re, sys
src = sys.stdin.read()

def arities(decl):
    """parameter counts of the `fn(...)` types in `decl`, outermost first"""
    out = []
    i = 0
    while True:
        m = re.search(r"\bfn\s*(\w*)\s*\(", decl[i:])
        if not m:
            return out
        j = i + m.end()
        depth, k, n, has = 1, j, 0, False
        while depth:
            c = decl[k]
            if c in "(<[":
                depth += 1
            elif c in ")>]":
                depth -= 1
            elif c == "," and depth == 1:
                n += 1
            elif depth == 1 and not c.isspace():
                has = True
            if c == "-" and decl[k + 1] == ">":
                k += 1          # skip the '>' of '->'
            k += 1
        body = decl[j:k - 1].strip()
        cnt = 0 if not body else len([p for p in re.split(r",(?![^()<>]*[)>])", body) if p.strip()])
        # robust count: top-level commas
        d, cnt, seg = 0, 0, False
        idx = 0
        while idx < len(body):
            c = body[idx]
            if body[idx:idx + 2] == "->":
                idx += 2
                continue
            if c in "(<[":
                d += 1
            elif c in ")>]":
                d -= 1
            elif c == "," and d == 0:
                if seg:
                    cnt += 1
                seg = False
                idx += 1
                continue
            if not c.isspace():
                seg = True
            idx += 1
        if seg:
            cnt += 1
        out.append(cnt)
        i = j

want = {
    "pick3": [3, 1], "pick_cb": [1, 1, 1, 2], "func": [0, 2], "pick3_td": [3],
    "fpvar": [1, 1], "member": [2, 1], "td_t": [1, 2], "takes": [1, 1, 1], "arr_ret": [2],
}
bad = 0
for name, exp in want.items():
    m = re.search(r"(?:pub fn|pub static mut|pub type|pub)\s+%s\b(.*?)(?:;|\n\})" % name, src, re.S)
    if not m:
        print("F21: %s not found" % name); bad += 1; continue
    text = ("fn" if re.search(r"pub fn\s+%s\b" % name, src) else "") + m.group(1)
    got = arities(text)
    if got != exp:
        print("F21: %s: parameter counts %s, the header declares %s" % (name, got, exp)); bad += 1
sys.exit(1 if bad else 0)
