#!/bin/sh
# usage: run.sh <bindgen binary>   exit 0 if every function type nested in the declarations of fnptr_ret.h has the declared arity
d=$(dirname "$0"); t=$(mktemp -d)
"$1" "$d/fnptr_ret.h" --no-layout-tests -o "$t/b.rs" 2>/dev/null || { rm -rf "$t"; exit 2; }
python3 "$d/check.py" < "$t/b.rs"; rc=$?
rm -rf "$t"; exit $rc
