struct Big { double d; long x; };
struct H { struct Big b; int x; };
