#!/bin/sh
# usage: run.sh <bindgen binary>   exit 0 if --with-derive-partialord bindings of a struct holding an 8-aligned opaque type compile
d=$(dirname "$0"); t=$(mktemp -d)
"$1" "$d/opaque_partialord.h" --opaque-type Big --with-derive-partialord --with-derive-partialeq --no-layout-tests -o "$t/b.rs" 2>/dev/null || { rm -rf "$t"; exit 2; }
rustc --edition 2021 --crate-type lib -A warnings "$t/b.rs" -o "$t/b.rlib" 2> "$t/err"; rc=$?
[ $rc -eq 0 ] || { grep -m2 -E "^error" "$t/err"; echo "F33: PartialOrd derived on a type holding an opaque array wrapper that does not implement it"; }
rm -rf "$t"; exit $rc
