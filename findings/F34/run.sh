#!/bin/sh
# usage: run.sh <bindgen binary>   exit 0 if a forward-declared struct does not derive Debug under --no-derive-debug / --no-debug
d=$(dirname "$0"); rc=0
"$1" "$d/forward.h" --no-derive-debug 2>/dev/null | grep -B2 "pub struct Fwd" | grep -q "Debug" && { echo "F34: forward-declared struct derives Debug under --no-derive-debug"; rc=1; }
"$1" "$d/forward.h" --no-debug Fwd 2>/dev/null | grep -B2 "pub struct Fwd" | grep -q "Debug" && { echo "F34: forward-declared struct derives Debug under --no-debug Fwd"; rc=1; }
"$1" "$d/forward.h" 2>/dev/null | grep -B2 "pub struct Fwd" | grep -q "Debug" || { echo "F34: Debug lost by default"; rc=1; }
exit $rc
