struct Fwd;
struct Use { struct Fwd *p; };
