#!/bin/sh
# usage: run.sh <bindgen binary>  exit 0 if no target older than 1.64 gets ::core::ffi::CStr
d=$(dirname "$0"); bad=0
for t in 1.59 1.60 1.61 1.62 1.63; do
  if "$1" "$d/s.h" --use-core --generate-cstr --rust-target $t 2>/dev/null | grep -q "core::ffi::CStr"; then echo "target $t: ::core::ffi::CStr emitted (stable since 1.64)"; bad=1; fi
done
exit $bad
