#define GREETING "hello"
