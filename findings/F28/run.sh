#!/bin/sh
# usage: run.sh <bindgen binary>   exit 0 if a blocklisted base class with storage is a named `_base` field of the derived struct
# (and an empty blocklisted base takes no room), and the bindings compile with user-supplied definitions
d=$(dirname "$0"); t=$(mktemp -d); rc=0
"$1" "$d/blocklisted_base.hpp" --blocklist-type Bl --blocklist-type Tag --blocklist-type V --raw-line "#[repr(C)] pub struct Bl { pub a: i32, pub b: i32 } #[repr(C)] pub struct Tag { _a: u8 } #[repr(C)] pub struct V { vt: *const u8 }" -o "$t/b.rs" -- -x c++ 2>/dev/null || { rm -rf "$t"; exit 2; }
grep -A2 "pub struct D " "$t/b.rs" | grep -q "_base: Bl" || { echo "F28: struct D : Bl does not name its blocklisted base"; rc=1; }
grep -A2 "pub struct DV " "$t/b.rs" | grep -q "_base: V" || { echo "F28: struct DV : V does not name its blocklisted base"; rc=1; }
rustc --edition 2021 --crate-type lib -A warnings "$t/b.rs" -o "$t/b.rlib" 2> "$t/err" || { grep -m2 -E "^error" "$t/err"; rc=1; }
rm -rf "$t"; exit $rc
