struct Bl { int a; int b; };
struct D : Bl { int x; };
struct Tag {};
struct DT : Tag { int x; };
struct V { virtual void f(); };
struct DV : V { int x; };
