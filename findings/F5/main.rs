#![allow(non_snake_case, non_camel_case_types, dead_code, non_upper_case_globals)]
include!("bindings.rs");
use std::io::BufRead;
fn fill<T>(bytes: &[u8]) -> T { assert_eq!(bytes.len(), std::mem::size_of::<T>(), "size"); unsafe { std::ptr::read_unaligned(bytes.as_ptr() as *const T) } }
fn main() {
    let f = std::fs::File::open("bytes.txt").unwrap();
    let mut bad = 0;
    for l in std::io::BufReader::new(f).lines() { let l = l.unwrap(); let (h, rest) = l.split_once(':').unwrap();
        let name = h.split(' ').next().unwrap(); let bytes: Vec<u8> = rest.split_whitespace().map(|x| x.parse().unwrap()).collect();
        match name {
            "A" => { let v: A = fill(&bytes); if v.x() != 0x1234567 || v.y() != 9 { println!("A mismatch x={:#x} y={}", v.x(), v.y()); bad += 1; } }
            "B" => { let v: B = fill(&bytes); if v.b() != 0x123456789abcdef || v.t != 7 { println!("B mismatch b={:#x} t={}", v.b(), v.t); bad += 1; } }
            "C" => { let v: C = fill(&bytes); if v.x() != 3 { println!("C mismatch x={}", v.x()); bad += 1; } }
            "D" => { let v: D = fill(&bytes); if v.x() != 0x2345678 || v.y() != 2 || v.z != 5 { println!("D mismatch x={:#x} y={} z={}", v.x(), v.y(), v.z); bad += 1; } }
            "E" => { let v: E = fill(&bytes); if v.m() != 0xabc || v.n() != 0x1234567 { println!("E mismatch m={:#x} n={:#x}", v.m(), v.n()); bad += 1; } }
            _ => {} } }
    println!("mismatches: {}", bad); std::process::exit(if bad > 0 {1} else {0});
}
