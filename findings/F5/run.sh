#!/bin/sh
# usage: run.sh <bindgen binary>   exit 0 if C and the bindings agree on every bit-field
set -e
d=$(mktemp -d); cp "$(dirname "$0")"/b.h "$(dirname "$0")"/dump.c "$(dirname "$0")"/main.rs "$d"; cd "$d"
clang dump.c -o dump && ./dump > bytes.txt
"$1" b.h -o bindings.rs 2>/dev/null
rustc --edition 2021 -A warnings main.rs -o main
./main; rc=$?; rm -rf "$d"; exit $rc
