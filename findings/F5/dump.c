#include <stdio.h>
#include <string.h>
#include "b.h"
#define DUMP(T, init) { struct T v; memset(&v,0,sizeof v); init; unsigned char*p=(unsigned char*)&v; printf(#T " %zu:", sizeof v); for(size_t i=0;i<sizeof v;i++) printf(" %u",p[i]); printf("\n"); }
int main(){
 DUMP(A, v.x=0x1234567; v.y=9);
 DUMP(B, v.b=0x123456789abcdefLL; v.t=7);
 DUMP(C, v.x=3);
 DUMP(D, v.x=0x2345678; v.y=2; v.z=5);
 DUMP(E, v.m=0xabc; v.n=0x1234567);
}
