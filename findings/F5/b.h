struct A { char c; int x:30; int y:5; };
struct B { short s; long long b:60; char t; };
struct C { char c; int :0; int x:3; };
struct D { int a; char c; unsigned x:30; unsigned y:2; char z; };
struct E { char c; unsigned short m:12; unsigned n:25; };
