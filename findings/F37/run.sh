#!/bin/sh
# usage: run.sh <bindgen binary>   exit 0 if the bindings compile when a union is marked opaque and held by value (directly and through a typedef)
d=$(dirname "$0"); t=$(mktemp -d)
"$1" "$d/opaque_union.h" --opaque-type U --no-layout-tests -o "$t/b.rs" 2>/dev/null || { rm -rf "$t"; exit 2; }
rustc --edition 2021 --crate-type lib -A warnings "$t/b.rs" -o "$t/b.rlib" 2> "$t/err"; rc=$?
[ $rc -eq 0 ] || { grep -m2 -E "^error" "$t/err"; echo "F37: a struct holding an opaque union derives a trait the union does not implement"; }
rm -rf "$t"; exit $rc
