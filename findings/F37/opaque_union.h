union U { int a; float b; };
typedef union U UT;
struct H { union U u; int x; };
struct H2 { UT u; };
