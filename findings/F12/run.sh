#!/bin/sh
# usage: run.sh <bindgen binary>   exit 0 if bindgen survives `_Complex int` (GNU extension, accepted by clang)
d=$(dirname "$0")
clang -fsyntax-only "$d/ci.h" || exit 2
out=$("$1" "$d/ci.h" 2>&1); e=$?
if echo "$out" | grep -q "panicked"; then echo "F12 bindgen panicked: $(echo "$out" | grep -m1 -A1 panicked | tail -1 | cut -c1-80)"; exit 1; fi
[ $e -eq 0 ] || exit 1
echo "$out" | grep -q "pub fn g" || { echo "g missing"; exit 1; }
exit 0
