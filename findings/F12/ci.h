_Complex int ci;
struct S { _Complex int c; int x; };
_Complex int f(_Complex int a);
int g(int);
