#!/bin/sh
# usage: run.sh <bindgen binary>   exit 0 if no member function of S is declared without its receiver
d=$(dirname "$0"); t=$(mktemp -d)
"$1" "$d/typedef_virtual.hpp" --no-layout-tests -o "$t/b.rs" -- -x c++ 2> "$t/err" || { rm -rf "$t"; exit 2; }
rc=0
# S::foo takes (this, int): a declaration bound to _ZN1S3fooEi must start with the receiver
if grep -A1 "_ZN1S3fooEi" "$t/b.rs" | grep -q "pub fn"; then
  grep -A1 "_ZN1S3fooEi" "$t/b.rs" | grep "pub fn" | grep -q "this: \*mut" || { grep -A1 "_ZN1S3fooEi" "$t/b.rs"; echo "F41: S::foo is declared without its receiver"; rc=1; }
fi
grep -A1 "_ZN1T2okEi" "$t/b.rs" | grep -q "this: \*mut" || { echo "F41: the ordinary method T::ok lost its declaration"; rc=1; }
rm -rf "$t"; exit $rc
