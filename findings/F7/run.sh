#!/bin/sh
# usage: run.sh <bindgen binary>   exit 0 if the accessor of the wide union bit-field works
set -e
d=$(mktemp -d); cp "$(dirname "$0")"/u.h "$(dirname "$0")"/um.rs "$d"; cd "$d"
"$1" u.h -o ub.rs 2>/dev/null
grep -E "_bitfield_1:" ub.rs
rustc --edition 2021 -A warnings um.rs -o um
./um; rc=$?; rm -rf "$d"; exit $rc
