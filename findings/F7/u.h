union U { unsigned a:20; unsigned b:3; };
