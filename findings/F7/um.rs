#![allow(non_snake_case, non_camel_case_types, dead_code)]
include!("ub.rs");
fn main(){ let mut s: U = unsafe{std::mem::zeroed()}; unsafe { s.set_a(0x12345); println!("a={:#x}", s.a()); } }
