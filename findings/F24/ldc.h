/* F24: long double _Complex is 32 bytes (x86-64); bindgen emits __BindgenComplex<f64> (16 bytes) */
struct LC { long double _Complex z; char c; };
