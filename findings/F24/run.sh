#!/bin/sh
# usage: run.sh <bindgen binary>   exit 0 if the bindings of a struct holding a `long double _Complex` compile
# (their own size/offset assertions, copied from libclang, hold for the emitted member type)
d=$(dirname "$0"); t=$(mktemp -d)
"$1" "$d/ldc.h" -o "$t/b.rs" 2>/dev/null || { rm -rf "$t"; exit 2; }
rustc --edition 2021 --crate-type lib -A warnings "$t/b.rs" -o "$t/b.rlib" 2> "$t/err"; rc=$?
[ $rc -eq 0 ] || { grep -m2 -E "^error" "$t/err"; grep -m1 "__BindgenComplex<" "$t/b.rs"; echo "F24: long double _Complex emitted with a 16-byte representation (C: 32 bytes)"; }
rm -rf "$t"; exit $rc
