struct Foo{int x;};
/** <div rustbindgen replaces="Foo"></div> */
int get(int a);
struct U { struct Foo f; };
