#!/bin/sh
# usage: run.sh <bindgen binary>   exit 0 if a replaces= annotation on a FUNCTION leaves the named struct alone (no crash, layout intact)
d=$(dirname "$0"); t=$(mktemp -d); rc=0
"$1" "$d/replaces_on_function.h" -o "$t/a.rs" 2> "$t/err"; e=$?
[ $e -eq 0 ] || { echo "F44: bindgen dies (exit $e) on replaces= on a function whose signature mentions the replaced type"; rc=1; }
"$1" "$d/replaces_on_function2.h" -o "$t/b.rs" 2> "$t/err" || { rm -rf "$t"; exit 2; }
grep -A3 "pub struct U" "$t/b.rs" | grep -q "pub f: Foo" || { grep -A4 "pub struct U" "$t/b.rs"; echo "F44: the member of type struct Foo became something else"; rc=1; }
rustc --edition 2021 --crate-type lib -A warnings "$t/b.rs" -o "$t/b.rlib" 2> "$t/err" || { grep -m2 -E "^error" "$t/err"; rc=1; }
rm -rf "$t"; exit $rc
