struct Foo{int x;};
/** <div rustbindgen replaces="Foo"></div> */
int get(struct Foo *foo);
