union U { int a:3; int b:5; float f; };
