#!/bin/sh
# usage: run.sh <bindgen binary>   exit 0 if the bit-field accessors of a wrapper-style union compile
d=$(dirname "$0"); t=$(mktemp -d)
"$1" "$d/ub.h" --disable-untagged-union -o "$t/ub.rs" 2>/dev/null || { rm -rf "$t"; exit 2; }
rustc --edition 2021 --crate-type lib -A warnings "$t/ub.rs" -o "$t/ub.rlib" 2> "$t/err"; rc=$?
[ $rc -eq 0 ] || { grep -m1 -E "^error" "$t/err"; echo "F17: wrapper-union bit-field accessors do not compile"; }
rm -rf "$t"; exit $rc
