struct Bl { int a; };
struct Mid : Bl {};
struct Leaf : Mid { int x; };
