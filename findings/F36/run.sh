#!/bin/sh
# usage: run.sh <bindgen binary>   exit 0 if a class without own fields deriving from a blocklisted class, and a class deriving from it, compile with their layout assertions
d=$(dirname "$0"); t=$(mktemp -d)
"$1" "$d/blocklisted_base_chain.hpp" --blocklist-type Bl --raw-line "#[repr(C)] pub struct Bl { pub a: i32 }" -o "$t/b.rs" -- -x c++ 2>/dev/null || { rm -rf "$t"; exit 2; }
rc=0
grep -A3 "pub struct Leaf" "$t/b.rs" | grep -q "_base: Mid" || { echo "F36: Leaf does not name its base Mid"; rc=1; }
rustc --edition 2021 --crate-type lib -A warnings "$t/b.rs" -o "$t/b.rlib" 2> "$t/err" || { grep -m2 -E "^error" "$t/err"; rc=1; }
rm -rf "$t"; exit $rc
