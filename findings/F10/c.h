#define A '\x1234'
#define B '\xff'
int x;
