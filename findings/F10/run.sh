#!/bin/sh
# usage: run.sh <bindgen binary>   exit 0 if bindgen survives a char-literal macro whose escape does not fit a byte
# (clang accepts the header: the macro is never expanded) and keeps the representable one
d=$(dirname "$0")
clang -fsyntax-only "$d/c.h" || exit 2
out=$("$1" "$d/c.h" 2>&1); rc=$?
echo "$out" | tail -4
if echo "$out" | grep -q "panicked"; then echo "F10: bindgen panicked"; exit 1; fi
[ $rc -eq 0 ] || exit 1
echo "$out" | grep -q "pub const B: u8 = 255u8;" || { echo "B missing/wrong"; exit 1; }
echo "$out" | grep -q "pub const A" && { echo "A emitted although it has no faithful value"; exit 1; }
exit 0
