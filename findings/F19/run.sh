#!/bin/sh
# usage: run.sh <bindgen binary>   exit 0 if a hand-written Debug impl does not go through an array of a blocklisted type
d=$(dirname "$0"); t=$(mktemp -d)
"$1" "$d/bd.h" --blocklist-type Blocked --impl-debug --raw-line '#[repr(C)] #[derive(Copy, Clone)] pub struct Blocked { pub x: i32 }' -o "$t/bd.rs" 2>/dev/null || { rm -rf "$t"; exit 2; }
rustc --edition 2021 --crate-type lib -A warnings "$t/bd.rs" -o "$t/bd.rlib" 2> "$t/err"; rc=$?
[ $rc -eq 0 ] || { grep -m1 -E "^error" "$t/err"; echo "F19: impl Debug requires the blocklisted type to implement Debug"; }
rm -rf "$t"; exit $rc
