struct Blocked { int x; };
struct H { struct Blocked arr[40]; struct Blocked one; int y; };
