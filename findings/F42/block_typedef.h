typedef void fn_t(int);
typedef fn_t ^blk_t;
struct S { blk_t b; };
typedef void (^plain_t)(int);
