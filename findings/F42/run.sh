#!/bin/sh
# usage: run.sh <bindgen binary>   exit 0 if --generate-block returns bindings for a block pointer whose pointee is a function typedef
d=$(dirname "$0"); t=$(mktemp -d)
clang -fsyntax-only -fblocks "$d/block_typedef.h" 2>/dev/null || { rm -rf "$t"; exit 2; }
"$1" "$d/block_typedef.h" --generate-block -o "$t/b.rs" -- -fblocks 2> "$t/err"; rc=$?
[ $rc -eq 0 ] || { grep -m1 -A1 "panicked" "$t/err" | cut -c1-200; echo "F42: bindgen aborts (exit $rc) on a block pointer to a function typedef"; rm -rf "$t"; exit 1; }
grep -q "pub type blk_t" "$t/b.rs" || { echo "F42: blk_t missing"; rm -rf "$t"; exit 1; }
rm -rf "$t"; exit 0
