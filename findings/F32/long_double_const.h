const long double ld = 1.5L;
const double d = 2.5;
const float f = 0.5f;
const __float128 q = 1.0;
