#!/bin/sh
# usage: run.sh <bindgen binary>   exit 0 if the bindings of const long double / __float128 / double / float variables compile
d=$(dirname "$0"); t=$(mktemp -d)
"$1" "$d/long_double_const.h" -o "$t/b.rs" 2>/dev/null || { rm -rf "$t"; exit 2; }
rustc --edition 2021 --crate-type lib -A warnings "$t/b.rs" -o "$t/b.rlib" 2> "$t/err"; rc=$?
[ $rc -eq 0 ] || { grep -m2 -E "^error" "$t/err"; grep -m1 "pub const ld" "$t/b.rs"; echo "F32: a long double constant is emitted with a floating-point literal for an integer type"; }
grep -q "pub const d: f64 = 2.5;" "$t/b.rs" || { echo "F32: the double constant is missing"; rc=1; }
rm -rf "$t"; exit $rc
