struct A { virtual void f(); int a; };
struct B { virtual void g(); int b; };
struct C : A, B { void g() override; void f() override; virtual ~C(); };
