#!/bin/sh
# usage: run.sh <bindgen binary>   exit 0 if no method is bound to a thunk symbol (Itanium _ZTh / _ZTv / _ZTc)
d=$(dirname "$0")
out=$("$1" "$d/thunk.hpp" --no-layout-tests -- -x c++ 2>/dev/null) || exit 2
if echo "$out" | grep -E 'link_name = "(\\u\{1\})?_+ZT[hvc]' ; then echo "F23: a method is bound to a thunk"; exit 1; fi
echo "$out" | grep -q '_ZN1C1gEv' || { echo "F23: C::g not bound to _ZN1C1gEv"; exit 1; }
exit 0
