struct __attribute__((packed)) P { char c; int x; };
struct O { struct P p; int y; };
