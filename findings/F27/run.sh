#!/bin/sh
# usage: run.sh <bindgen binary>   exit 0 if the bindings of a struct holding a packed struct that gets no derives compile
d=$(dirname "$0"); t=$(mktemp -d); rc=0
"$1" "$d/packed_member.h" --no-layout-tests --no-derive-copy -o "$t/a.rs" 2>/dev/null || { rm -rf "$t"; exit 2; }
"$1" "$d/packed_flexarray_member.h" --no-layout-tests -o "$t/b.rs" 2>/dev/null || { rm -rf "$t"; exit 2; }
for f in a b; do
  rustc --edition 2021 --crate-type lib -A warnings "$t/$f.rs" -o "$t/$f.rlib" 2> "$t/err" || { grep -m2 -E "^error" "$t/err"; rc=1; }
done
[ $rc -eq 0 ] || echo "F27: a struct derives a trait its packed, derive-less member does not implement"
rm -rf "$t"; exit $rc
