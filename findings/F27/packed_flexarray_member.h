struct __attribute__((packed)) PF { char tag; int data[]; };
struct Outer { struct PF pf; };
struct __attribute__((packed)) PF0 { char tag; int data[0]; };
struct Outer0 { int a; struct PF0 pf; };
