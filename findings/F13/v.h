extern int counter;
int f(int);
