#!/bin/sh
# usage: run.sh <bindgen binary>   exit 0 if a global variable honours --prefix-link-name like a function does
d=$(dirname "$0")
out=$("$1" "$d/v.h" --prefix-link-name foo_ 2>/dev/null) || exit 2
echo "$out" | grep -q 'link_name = "\\u{1}foo_f"' || { echo "function lost its link name"; exit 1; }
echo "$out" | grep -q 'link_name = "\\u{1}foo_counter"' || { echo "F13: the global binds \`counter\`, not \`foo_counter\`"; exit 1; }
exit 0
