struct __attribute__((packed)) P { char c; int :0; int x:5; char d; };
