#!/bin/sh
# usage: run.sh <bindgen binary>   exit 0 if the bindings of a packed struct with a `:0` separator compile (offset assertions hold)
d=$(dirname "$0"); t=$(mktemp -d)
"$1" "$d/pk.h" -o "$t/pk.rs" 2>/dev/null || { rm -rf "$t"; exit 2; }
rustc --edition 2021 --crate-type lib -A warnings "$t/pk.rs" -o "$t/pk.rlib" 2> "$t/err"; rc=$?
[ $rc -eq 0 ] || { grep -m2 -E "error" "$t/err"; echo "F15: bit-field unit misplaced in a packed struct"; }
rm -rf "$t"; exit $rc
