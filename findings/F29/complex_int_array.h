_Complex int a[3];
struct S { int before; _Complex int m[2]; int after; };
int ok[4];
void f(_Complex int p[3]);
