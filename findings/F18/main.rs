#![allow(non_snake_case, non_camel_case_types, dead_code)]
include!("b.rs");
fn main() {
    let mut s: S = unsafe { std::mem::zeroed() };
    s.set_a(-1); s.set_b(-3); s.set_c(9);
    println!("a={} b={} c={}", s.a(), s.b(), s.c());
    // C: struct S s; s.a = -1; s.b = -3; s.c = 9;  reads back -1, -3, 9
    if s.a() != -1 || s.b() != -3 || s.c() != 9 { println!("F18: signed bit-fields are not sign-extended by the getter"); std::process::exit(1); }
}
