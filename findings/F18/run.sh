#!/bin/sh
# usage: run.sh <bindgen binary>   exit 0 if signed bit-field getters return what C reads
d=$(dirname "$0"); t=$(mktemp -d); cp "$d/s.h" "$d/main.rs" "$t"; cd "$t" || exit 2
"$1" s.h -o b.rs 2>/dev/null || exit 2
rustc --edition 2021 -A warnings main.rs -o m 2>/dev/null || exit 2
./m; rc=$?; rm -rf "$t"; exit $rc
