struct S { int a:3; int b:5; unsigned c:4; };
