#!/bin/sh
# usage: run.sh <bindgen binary>   exit 0 if --impl-debug bindings compile when a template argument is a blocklisted type
# that the user defines WITHOUT a Debug impl
d=$(dirname "$0"); t=$(mktemp -d)
"$1" "$d/inst_blocklisted_arg.hpp" --blocklist-type Bl --impl-debug --no-layout-tests --raw-line "#[repr(C)] pub struct Bl { pub x: i32 }" -o "$t/b.rs" -- -x c++ 2>/dev/null || { rm -rf "$t"; exit 2; }
rustc --edition 2021 --crate-type lib -A warnings "$t/b.rs" -o "$t/b.rlib" 2> "$t/err"; rc=$?
[ $rc -eq 0 ] || { grep -m2 -E "^error" "$t/err"; echo "F26: hand-written Debug impl prints a member whose template argument is blocklisted"; }
rm -rf "$t"; exit $rc
