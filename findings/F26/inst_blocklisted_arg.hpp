struct Bl { int x; };
template <typename T> struct Tm { T t; };
struct H { Tm<Bl> m; void (*cb)(int,int,int,int,int,int,int,int,int,int,int,int,int); };
