extern const int m[2][3];
typedef const int carr[3];
extern carr y;
extern const int v[3];
extern int w[3];
