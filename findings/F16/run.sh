#!/bin/sh
# usage: run.sh <bindgen binary>   exit 0 if const array globals are immutable statics and non-const ones mutable
d=$(dirname "$0")
out=$("$1" "$d/cm.h" 2>/dev/null) || exit 2
rc=0
for n in m y v; do echo "$out" | grep -q "pub static $n:" || { echo "F16: const array \`$n\` is not an immutable static: $(echo "$out" | grep "static.* $n:")"; rc=1; }; done
echo "$out" | grep -q "pub static mut w:" || { echo "non-const array w lost its mut"; rc=1; }
exit $rc
