#!/bin/sh
# usage: run.sh <bindgen binary>   exit 0 if the enumerators of an enum inside a class template carry their C values (3, 7) or are omitted
d=$(dirname "$0")
out=$("$1" "$d/template_enum.hpp" --no-layout-tests -- -x c++ 2>/dev/null) || exit 2
rc=0
echo "$out" | grep -E "pub const W_E_A: W_E = " | grep -vq "= 3;" && { echo "$out" | grep "W_E_A"; rc=1; }
echo "$out" | grep -E "pub const W_E_B: W_E = " | grep -vq "= 7;" && { echo "$out" | grep "W_E_B"; rc=1; }
[ $rc -eq 0 ] || echo "F35: enumerators of an enum inside a template emitted with the value 0"
exit $rc
