template <typename T> struct W { enum E { A = 3, B = 7 }; T t; };
struct U { enum E2 { C = 5 }; int x; };
