#!/bin/sh
# usage: run.sh <bindgen binary>   exit 0 if --wrap-static-fns returns bindings and a compiling wrapper file for a static function declared through a function typedef
d=$(dirname "$0"); t=$(mktemp -d)
cp "$d/static_typedef_fn.h" "$t/h.h"
clang -fsyntax-only "$t/h.h" 2>/dev/null || { rm -rf "$t"; exit 2; }
"$1" "$t/h.h" --experimental --wrap-static-fns --wrap-static-fns-path "$t/wrap" -o "$t/b.rs" 2> "$t/err"; rc=$?
[ $rc -eq 0 ] || { grep -m1 -A1 "panicked" "$t/err" | cut -c1-200; echo "F43: bindgen aborts (exit $rc) under --wrap-static-fns on a static function declared through a function typedef"; rm -rf "$t"; exit 1; }
clang -c "$t/wrap.c" -o "$t/wrap.o" 2> "$t/err" || { head -3 "$t/err"; echo "F43: the wrapper file does not compile"; rm -rf "$t"; exit 1; }
grep -q "f__extern" "$t/b.rs" || { echo "F43: wrapper not bound"; rm -rf "$t"; exit 1; }
rm -rf "$t"; exit 0
