typedef int fn_t(int);
static inline fn_t f;
static inline int f(int x) { return x; }
static inline fn_t g;
