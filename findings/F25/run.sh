#!/bin/sh
# usage: run.sh <bindgen binary>   exit 0 if the bindings of structs with members of an over-aligned typedef compile
# (their own size/alignment/offset assertions, copied from libclang, hold for the emitted repr)
d=$(dirname "$0"); t=$(mktemp -d)
"$1" "$d/aligned_typedef.h" -o "$t/b.rs" 2>/dev/null || { rm -rf "$t"; exit 2; }
rustc --edition 2021 --crate-type lib -A warnings "$t/b.rs" -o "$t/b.rlib" 2> "$t/err"; rc=$?
[ $rc -eq 0 ] || { grep -m3 -E "^error" "$t/err"; echo "F25: struct with a member of an aligned(N) typedef is under-aligned"; }
rm -rf "$t"; exit $rc
