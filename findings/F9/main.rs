#![allow(non_upper_case_globals, non_camel_case_types, non_snake_case, dead_code)]
include!("b.rs");
fn main() {
    let r = unsafe { scale(21) };
    assert_eq!(r, 42);
    println!("ok: binding reached the C compiler's symbol");
}
