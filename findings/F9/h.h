/* the C compiler emits the symbol `_scale` for this function on every target;
   on ELF no prefix is added, so `_scale` is NOT the decoration of `scale` */
int scale(int a) __asm__("_scale");
