#!/bin/sh
# usage: run.sh <bindgen binary>   exit 0 if the binding of `scale` links to the symbol the C compiler emits
d=$(mktemp -d); cp "$(dirname "$0")"/h.h "$(dirname "$0")"/lib.c "$(dirname "$0")"/main.rs "$d"; cd "$d" || exit 2
"$1" h.h -o b.rs 2>/dev/null || exit 2
grep -n "link_name\|pub fn scale" b.rs
clang -c lib.c -o lib.o && ar rcs libf9.a lib.o || exit 2
nm lib.o | grep -i scale
rustc --edition 2021 -A warnings main.rs -L . -l static=f9 -o m 2> link.err; rc=$?
if [ $rc -ne 0 ]; then grep -m2 -E "undefined|error" link.err; echo "F9: the binding names a symbol the C compiler did not emit"; rm -rf "$d"; exit 1; fi
./m; rc=$?; rm -rf "$d"; exit $rc
