#include "h.h"
int scale(int a) { return a * 2; }
