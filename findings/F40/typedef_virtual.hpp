typedef void fn_t(int);
struct S { virtual fn_t foo; int x; };
struct T { virtual void ok(int); int y; };
