#!/bin/sh
# usage: run.sh <bindgen binary>   exit 0 if --vtable-generation returns compiling bindings for a class with a virtual method declared through a function typedef
d=$(dirname "$0"); t=$(mktemp -d)
clang++ -fsyntax-only -x c++ "$d/typedef_virtual.hpp" 2>/dev/null || { rm -rf "$t"; exit 2; }
"$1" "$d/typedef_virtual.hpp" --vtable-generation -o "$t/b.rs" -- -x c++ 2> "$t/err"; rc=$?
[ $rc -eq 0 ] || { grep -m1 -A1 "panicked" "$t/err"; echo "F40: bindgen aborts (exit $rc) under --vtable-generation on a virtual method declared through a function typedef"; rm -rf "$t"; exit 1; }
grep -q "pub T_ok" "$t/b.rs" || { echo "F40: the vtable of the ordinary class T lost its slot"; rm -rf "$t"; exit 1; }
rustc --edition 2021 --crate-type lib -A warnings "$t/b.rs" -o "$t/b.rlib" 2> "$t/err" || { grep -m2 -E "^error" "$t/err"; rm -rf "$t"; exit 1; }
rm -rf "$t"; exit 0
