struct F;
typedef F FT;
struct F { float f; };
struct U { FT m; };
