class A { public: ~A(); int x; };
typedef A AT;
struct U { AT m; };
