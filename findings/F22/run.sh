#!/bin/sh
# usage: run.sh <bindgen binary>   exit 0 if struct U gets the same derives whether the opaque typedef is declared before or after the
# definition of the type it names (d_*: destructor / Copy; f_*: float / Eq)
d=$(dirname "$0"); rc=0
der() { "$1" "$2" $3 --no-layout-tests -- -x c++ 2>/dev/null | grep -B1 "pub struct U" | head -1; }
a=$(der "$1" "$d/d_a.hpp" "--opaque-type AT"); b=$(der "$1" "$d/d_b.hpp" "--opaque-type AT")
[ "$a" = "$b" ] || { echo "F22: U derives '$a' (typedef after the class) but '$b' (typedef hoisted)"; rc=1; }
a=$(der "$1" "$d/f_a.hpp" "--opaque-type FT --with-derive-eq --with-derive-partialeq"); b=$(der "$1" "$d/f_b.hpp" "--opaque-type FT --with-derive-eq --with-derive-partialeq")
[ "$a" = "$b" ] || { echo "F22: U derives '$a' (typedef after the struct) but '$b' (typedef hoisted)"; rc=1; }
exit $rc
