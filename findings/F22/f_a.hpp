struct F { float f; };
typedef F FT;
struct U { FT m; };
