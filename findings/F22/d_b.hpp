class A;
typedef A AT;
class A { public: ~A(); int x; };
struct U { AT m; };
