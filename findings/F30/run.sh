#!/bin/sh
# usage: run.sh <bindgen binary>   exit 0 if bindgen returns compiling bindings for a member function declared through a typedef
d=$(dirname "$0"); t=$(mktemp -d)
clang++ -fsyntax-only -x c++ "$d/typedef_member_fn.hpp" 2>/dev/null || { rm -rf "$t"; exit 2; }
"$1" "$d/typedef_member_fn.hpp" -o "$t/b.rs" -- -x c++ 2> "$t/err"; rc=$?
[ $rc -eq 0 ] || { grep -m1 -A1 "panicked" "$t/err"; echo "F30: bindgen aborts (exit $rc) on a member function declared through a function typedef"; rm -rf "$t"; exit 1; }
rustc --edition 2021 --crate-type lib -A warnings "$t/b.rs" -o "$t/b.rlib" 2> "$t/err" || { grep -m2 -E "^error" "$t/err"; rm -rf "$t"; exit 1; }
rm -rf "$t"; exit 0
