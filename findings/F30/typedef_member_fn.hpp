typedef void fn_t(int);
struct S { fn_t foo; };
