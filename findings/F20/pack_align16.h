/* F20: `#pragma pack(N)` / packed+aligned(N) struct with a member aligned to 16 or more */
#pragma pack(2)
struct P2 { long double ld; char tag; };
#pragma pack()
#pragma pack(4)
struct P4 { __int128 v; char tag; };
#pragma pack()
struct __attribute__((packed, aligned(2))) PA2 { long double ld; char tag; };
struct __attribute__((packed, aligned(32))) PA32 { long double ld; char tag; };
struct __attribute__((packed)) PA1 { long double ld; char tag; };
#pragma pack(8)
struct P8 { char c; long double ld; int x; };
#pragma pack()
struct Outer { char a; struct P2 p; struct P8 q; };
