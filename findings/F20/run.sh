#!/bin/sh
# usage: run.sh <bindgen binary>   exit 0 if the bindings of packed structs with a 16-byte-aligned member compile
# (their own size/alignment/offset assertions, copied from libclang, hold for the emitted repr)
d=$(dirname "$0"); t=$(mktemp -d)
"$1" "$d/pack_align16.h" -o "$t/b.rs" 2>/dev/null || { rm -rf "$t"; exit 2; }
rustc --edition 2021 --crate-type lib -A warnings "$t/b.rs" -o "$t/b.rlib" 2> "$t/err"; rc=$?
[ $rc -eq 0 ] || { grep -m3 -E "^error" "$t/err"; echo "F20: packed struct with a member aligned to >= 16 loses packed(N) (or gets packed + align)"; }
rm -rf "$t"; exit $rc
