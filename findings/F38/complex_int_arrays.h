extern _Complex int a[];
struct F { int n; _Complex int tail[]; };
void g(int n, _Complex int v[n]);
