#!/bin/sh
# usage: run.sh <bindgen binary>   exit 0 if bindgen returns compiling bindings for arrays of `_Complex int` (clang accepts the header)
d=$(dirname "$0"); t=$(mktemp -d)
clang -fsyntax-only "$d/complex_int_arrays.h" 2>/dev/null || { rm -rf "$t"; exit 2; }
"$1" "$d/complex_int_arrays.h" -o "$t/b.rs" 2> "$t/err"; rc=$?
[ $rc -eq 0 ] || { grep -m1 "panicked" "$t/err"; echo "F38: bindgen aborts (exit $rc) on an array of an inexpressible element type"; rm -rf "$t"; exit 1; }
rustc --edition 2021 --crate-type lib -A warnings "$t/b.rs" -o "$t/b.rlib" 2> "$t/err" || { grep -m2 -E "^error" "$t/err"; rm -rf "$t"; exit 1; }
rm -rf "$t"; exit 0
