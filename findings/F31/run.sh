#!/bin/sh
# usage: run.sh <bindgen binary>   exit 0 if no function-like macro of fnlike.h is emitted as a constant
d=$(dirname "$0")
out=$("$1" "$d/fnlike.h" 2>/dev/null) || exit 2
bad=$(echo "$out" | grep -E "pub const (NEG|TWICE|ADD)\b")
[ -z "$bad" ] || { echo "$bad"; echo "F31: a function-like macro is emitted as a constant"; exit 1; }
echo "$out" | grep -q "pub const A: u32 = 5;" || { echo "F31: object-like macro A missing"; exit 1; }
exit 0
