#define A 5
#define NEG(A) -1
#define TWICE(x) ((x)*2)
#define B 7
#define ADD(B) B+1
