typedef int (__attribute__((regcall)) *fp_t)(int);
struct S { fp_t cb; };
