#!/bin/sh
# usage: run.sh <bindgen binary>   exit 0 if bindgen survives declarations with a calling convention it does not know
d=$(dirname "$0"); rc=0
for h in r.h r2.h; do
  clang -fsyntax-only "$d/$h" || exit 2
  out=$("$1" "$d/$h" 2>&1); e=$?
  if echo "$out" | grep -q "panicked"; then echo "$h: F11 bindgen panicked: $(echo "$out" | grep -m1 -A1 panicked | tail -1)"; rc=1; continue; fi
  [ $e -eq 0 ] || { echo "$h: exit $e"; rc=1; }
done
"$1" "$d/r.h" 2>/dev/null | grep -q "pub fn g" || { echo "g missing"; rc=1; }
exit $rc
