int __attribute__((regcall)) f(int a);
int g(int);
