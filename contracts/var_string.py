"""Unit `var_string` (C14): the arm of <Var as CodeGenerator>::codegen that emits string constants
(the code-generation site for the const_cstr / literal_cstr / core::ffi gates)."""
import os
ENV = os.path.join(os.path.dirname(os.path.dirname(os.path.abspath(__file__))), "env")
CG = "bindgen/codegen/mod.rs"

UNIT = {
    "name": "var_string",
    "env": [os.path.join(ENV, "var_string_env.rs")],
    "declared_trusted": {r"external_body": 15},
    "items": [
        {"kind": "fn", "file": "bindgen/ir/context.rs", "name": "trait_prefix", "impl": r"^impl BindgenContext$", "impl_nth": 0,
         "impl_header": "impl BindgenContext", "impl_name": "BindgenContext", "ret": "r",
         "ensures": ["ident_name(r) == (if self.spec_options().use_core { \"core\"@ } else { \"std\"@ })"]},
        {"kind": "raw", "label": "strlit", "text": """
pub proof fn lemma_std_is_not_core()
    ensures "std"@ != "core"@,
{
    reveal_strlit("std");
    reveal_strlit("core");
    assert("std"@.len() == 3 && "core"@.len() == 4);
}
"""},
        {"kind": "fn", "file": CG, "name": "var_string_arm", "impl": r"^impl CodeGenerator for Var$", "ret": "r",
         "closure": {"enclosing": "codegen", "anchor": "VarType::String(ref bytes) => {", "nth": 0,
                     "signature": "fn var_string_arm(ctx: &BindgenContext, bytes: &Vec<u8>, attrs: &Vec<Tok>, canonical_ident: &Tok, result: &mut CodegenResult) -> (r: Option<Tok>)"},
         "subst": [
             ("proc_macro2::Literal::usize_unsuffixed( cstr_bytes.len(), )", "lit_usize(cstr_bytes.len())", 1, "R4"),
             ("CStr::from_bytes_with_nul(&cstr_bytes).ok()", "cstr_from_bytes_with_nul(&cstr_bytes)", 1, "R4"),
             ("quote! { ::#prefix::ffi::CStr }", "q_cstr_ty(&prefix)", 1, "R4"),
             ("proc_macro2::Literal::c_string(cstr)", "lit_c_string(cstr)", 1, "R4"),
             ("quote! { #(#attrs)* pub const #canonical_ident: &#cstr_ty = #cstr; }", "q_const_cstr_literal(attrs, canonical_ident, &cstr_ty, &cstr)", 1, "R4"),
             ("proc_macro2::Literal::byte_string(&cstr_bytes)", "lit_byte_string(&cstr_bytes)", 2, "R4"),
             ("quote! { #(#attrs)* #[allow(unsafe_code)] pub const #canonical_ident: &#cstr_ty = unsafe { #cstr_ty::from_bytes_with_nul_unchecked(#bytes) }; }",
              "q_const_cstr_unchecked(attrs, canonical_ident, &cstr_ty, &bytes)", 1, "R4"),
             ("quote! { [u8; #len] }", "q_u8_array(&len)", 1, "R4"),
             ("let lifetime = if true { None } else { Some(quote! { 'static }) } .into_iter();", "", 1, "R4"),
             ("quote! { #(#attrs)* pub const #canonical_ident: &#(#lifetime )*#array_ty = #bytes ; }", "q_const_bytes(attrs, canonical_ident, &array_ty, &bytes)", 1, "R4"),
         ],
         "requires": ["bytes@.len() < 0x1000_0000"],
         "proof_start": "lemma_std_is_not_core();",
         "ensures": [
             # property C14: the emitted text uses no feature newer than the selected Rust target
             "final(result).items@.len() == old(result).items@.len() + 1 && final(result).items@.subrange(0, old(result).items@.len() as int) == old(result).items@",
             "allowed(final(result).items@.last(), ctx.spec_options().rust_features)",
         ]},
    ],
}
