"""Unit `resolver` (C12): ItemResolver::resolve terminates on every IR, cyclic or not."""
import os
ENV = os.path.join(os.path.dirname(os.path.dirname(os.path.abspath(__file__))), "env")
CX = "bindgen/ir/context.rs"

SPEC = """
// IR invariant: the item table is finite and every reference stored in a type points into it
pub open spec fn ir_closed(ctx: &BindgenContext) -> bool {
    &&& ctx.s_universe().finite()
    &&& forall|id: ItemId| ctx.s_universe().contains(id) ==> match ctx.s_item(id).s_as_type() {
            Some(t) => match t.s_kind() { TypeKind::ResolvedTypeRef(n) => ctx.s_universe().contains(n.0), TypeKind::Alias(n) => ctx.s_universe().contains(n.0), _ => true },
            None => true }
}
// one resolution step: where the resolver goes next from `id`, if anywhere
pub open spec fn step(r: &ItemResolver, ctx: &BindgenContext, id: ItemId) -> Option<ItemId> {
    match ctx.s_item(id).s_as_type() {
        Some(t) => match t.s_kind() {
            TypeKind::ResolvedTypeRef(n) => if r.through_type_refs { Some(n.0) } else { None },
            TypeKind::Alias(n) => if r.through_type_aliases { Some(n.0) } else { None },
            _ => None },
        None => None }
}
"""

UNIT = {
    "name": "resolver",
    "env": [os.path.join(ENV, "resolver_env.rs")],
    "declared_trusted": {r"external_body": 17},
    "items": [
        {"kind": "enum", "file": "bindgen/ir/ty.rs", "name": "TypeKind"},
        {"kind": "struct", "file": CX, "name": "ItemResolver"},
        {"kind": "raw", "label": "resolver_spec", "text": SPEC},
        {"kind": "fn", "file": CX, "name": "resolve", "impl": r"^impl ItemResolver$", "impl_header": "impl ItemResolver", "impl_name": "ItemResolver", "ret": "r",
         "assert_to_requires": True,
         "r2_spec_form": [("ctx.collected_typerefs()", "ctx.s_collected_typerefs()")],
         "subst": [
             ("item.as_type().map(|t| t.kind())", "(match item.as_type() { Some(t) => Some(t.kind()), None => None })", 1, "R7"),
             ("next_id.into()", "next_id.item()", 2, "R12"),
             # R24: `&P` over a reference -> `P` (default binding modes; the binding becomes a reference, auto-deref'd at its use)
             ("Some(&TypeKind::ResolvedTypeRef(next_id))", "Some(TypeKind::ResolvedTypeRef(next_id))", 1, "R24"),
             ("Some(&TypeKind::Alias(next_id))", "Some(TypeKind::Alias(next_id))", 1, "R24"),
         ],
         "requires": ["ir_closed(ctx)", "ctx.s_universe().contains(self.id)"],
         "loops": {0: {"invariant": ["ir_closed(ctx)", "ctx.s_universe().contains(id)", "seen_ids.view().subset_of(ctx.s_universe())"],
                       "decreases": "ctx.s_universe().len() - seen_ids.view().len()",
                       "proof": "vstd::set_lib::lemma_len_subset(seen_ids.view(), ctx.s_universe()); if !seen_ids.view().contains(id) { vstd::set_lib::lemma_len_subset(seen_ids.view().insert(id), ctx.s_universe()); }"}},
         "ensures": [
             # the result is an item of the table at which resolution stops: no further step, or a cycle was closed
             "exists|id: ItemId| ctx.s_universe().contains(id) && *r == ctx.s_item(id)",
         ]},
    ],
}
