"""Unit `rust_mangle` (C12): no name reaches proc_macro2::Ident::new with a character an identifier cannot contain."""
import os
ENV = os.path.join(os.path.dirname(os.path.dirname(os.path.abspath(__file__))), "env")
CX = "bindgen/ir/context.rs"

SPEC = """
// what rust_mangle owes its callers (rust_ident -> Ident::new, which panics on anything that is not an identifier):
// clang accepts `$` in identifiers, MSVC-decorated and Objective-C names carry `@` and `?`; each becomes `_`
pub open spec fn sanitized(s: Seq<char>) -> Seq<char> { Seq::new(s.len(), |i: int| if is_special(s[i]) { '_' } else { s[i] }) }
"""

UNIT = {
    "name": "rust_mangle",
    "env": [os.path.join(ENV, "rust_mangle_env.rs")],
    "declared_trusted": {r"external_body": 13},
    "items": [
        {"kind": "raw", "label": "spec", "text": SPEC},
        {"kind": "fn", "file": CX, "name": "rust_mangle", "impl": r"^impl BindgenContext$", "impl_header": "impl BindgenContext", "impl_name": "BindgenContext", "ret": "r",
         "subst": [
             ("name: &'a str", "name: &'a Name", 1, "R32 &str -> Name (character sequence)"),
             ("Cow<'a, str>", "Cow<'a>", 1, "R32 Cow<str> -> env Cow over Name / NameBuf"),
             (r're:(?s)matches!\(\s*name\s*,(?:\s*"[^"]*"\s*\|?)+\s*\)', "is_reserved_word(name)", 1, "R32 the keyword list is one uninterpreted predicate of the name"),
         ],
         "proof_start": 'reveal_strlit("_"); assert("_"@.len() == 1 && "_"@[0] == \'_\');',
         "ensures": [
             # C12: whatever the header's identifiers contain, the string handed to Ident::new has none of the characters an
             # identifier cannot contain (every one of them, at every position)
             "forall|i: int| 0 <= i < cow_chars(r).len() ==> !is_special(#[trigger] cow_chars(r)[i])",
             # a name that needs no mangling is kept (C04: it is the symbol name)
             "!(exists|i: int| 0 <= i < name.s_chars().len() && is_special(#[trigger] name.s_chars()[i])) && !s_reserved(name.s_chars()) ==> cow_chars(r) == name.s_chars()",
             # otherwise: the same name with each special character replaced, and a trailing `_` (so a reserved word stops being one)
             "((exists|i: int| 0 <= i < name.s_chars().len() && is_special(#[trigger] name.s_chars()[i])) || s_reserved(name.s_chars())) ==> cow_chars(r) =~= sanitized(name.s_chars()).push('_')",
         ]},
    ],
}
