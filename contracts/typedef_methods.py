"""Unit `typedef_methods` (C04, C12): member functions declared through a typedef of a function type (F30, F40-F43)."""
import os
ENV = os.path.join(os.path.dirname(os.path.dirname(os.path.abspath(__file__))), "env")
CG = "bindgen/codegen/mod.rs"
PANIC = (r're:panic!\(\s*"[^"]*"\s*\)', "vstd::pervasive::unreached()", 0, "R15 panic! (if present)")

UNIT = {
    "name": "typedef_methods",
    "env": [os.path.join(ENV, "typedef_methods_env.rs")],
    "declared_trusted": {r"external_body": 26},
    "items": [
        {"kind": "enum", "file": "bindgen/ir/comp.rs", "name": "MethodKind", "prefix": "#[derive(Copy, Clone, PartialEq, Eq, Structural)]"},
        {"kind": "enum", "file": "bindgen/ir/function.rs", "name": "FunctionKind", "prefix": "#[derive(Copy, Clone, PartialEq, Eq, Structural)]"},
        # C04 ("C++ methods ... reach their mangled symbols with the correct receiver"): <Function as CodeGenerator>::codegen, from
        # the lookup of the signature to the first use of it (statements R18, `until`): a non-static member function whose
        # signature item is not itself a function type - it was declared through a typedef, whose function type has no
        # `this` - is not declared at all (found and repaired F41: it was declared without receiver)
        {"kind": "fn", "file": CG, "name": "fn_decl_signature", "impl": r"^impl CodeGenerator for Function$", "ret": "r",
         "closure": {"enclosing": "codegen", "anchor": "let signature_item = ctx.resolve_item(self.signature());", "nth": 0, "stmt": "until", "until": "if is_internal {",
                     "signature": "fn fn_decl_signature(self_: &Function, ctx: &BindgenContext) -> (r: Option<u32>)",
                     "prefix": "{", "suffix": "Some(0) }"},
         "subst": [PANIC, (r"re:(?<![\w.])self(?![\w(:])", "self_", 0, "R18 captured self")],
         # IR invariant (the function's own panic!): behind aliases, the signature of a function is a function type
         "requires": ["sig_type(self_, ctx).s_canonical(ctx).s_kind() is Function"],
         "ensures": [
             "(match self_.s_kind() { FunctionKind::Method(k) => !(k is Static), FunctionKind::Function => false }) && !(sig_type(self_, ctx).s_kind() is Function) ==> r.is_none()",
         ]},
        # C12: <Vtable as CodeGenerator>::codegen under --vtable-generation.  The guard closure of the `if` (which classes get a
        # generated vtable) ...
        {"kind": "fn", "file": CG, "name": "virtual_method_has_own_signature", "impl": r"^impl CodeGenerator for Vtable<'_>$", "ret": "r",
         "closure": {"enclosing": "codegen", "anchor_re": r"\.all\(\|m\|\s*\{", "nth": 0,
                     "signature": "fn virtual_method_has_own_signature(m: &Method, ctx: &BindgenContext) -> (r: bool)"},
         "ensures": ["r == (!m.s_virtual() || method_sig_type(m, ctx).s_kind() is Function)"]},
        # ... and the statements of the slot generator that look the signature up (R18, `until`): for every method the guard let
        # through they find a function type - no panic (found and repaired F40).  That `iter().all(guard)` holds for every
        # element `filter_map` then visits is the std meaning of the two adapters (not under contract).
        {"kind": "fn", "file": CG, "name": "vtable_slot_signature", "impl": r"^impl CodeGenerator for Vtable<'_>$", "ret": "r",
         "closure": {"enclosing": "codegen", "anchor": "let function_item = ctx.resolve_item(m.signature());", "nth": 0, "stmt": "until", "until": "let function_name = function_item.canonical_name(ctx);",
                     "signature": "fn vtable_slot_signature<'a>(m: &Method, ctx: &'a BindgenContext) -> (r: Option<&'a FunctionSig>)",
                     "prefix": "{", "suffix": "Some(signature) }"},
         "subst": [PANIC],
         "requires": ["m.s_virtual()", "!m.s_virtual() || method_sig_type(m, ctx).s_kind() is Function"],
         "ensures": ["r.is_some()"]},
        # C12: the block-pointer arm of <Type as CodeGenerator>::codegen under --generate-block (statements R18, `until`): the pointee
        # is looked up behind references AND typedefs, where (IR invariant, the arm's own panic!) it is a function type - so
        # `typedef fn_t ^blk_t;` over a function typedef does not abort generation (found and repaired F42)
        {"kind": "fn", "file": CG, "name": "block_pointee_type", "impl": r"^impl CodeGenerator for Type$", "ret": "r",
         "closure": {"enclosing": "codegen", "anchor_re": r"(?m)^\s*let inner_item\s*=", "nth": 0, "stmt": "until", "until": "let rust_name = ctx.rust_ident(name);",
                     "signature": "fn block_pointee_type(inner: TypeId, item: &Item, ctx: &BindgenContext) -> (r: Tok)",
                     "prefix": "{", "suffix": "inner_rust_type }"},
         "subst": [PANIC],
         "requires": ["ctx.s_item(s_resolved(ctx, inner.0, true, true)).s_kind().s_type().s_kind() is Function"],
         "ensures": []},
        # C12: the C serializer of --wrap-static-fns (codegen/serialize.rs, let-else statement R18): the wrapper's signature is looked
        # up behind typedefs, where (IR invariant) it is a function type - `static fn_t f;` over a function typedef does not hit
        # unreachable!() (found and repaired F43)
        {"kind": "fn", "file": "bindgen/codegen/serialize.rs", "name": "wrapper_signature", "impl": r"^impl<'a> CSerialize<'a> for Function$", "ret": "r",
         "closure": {"enclosing": "serialize", "anchor_re": r"(?m)^\s*let TypeKind::Function\(signature\)\s*=", "nth": 0, "stmt": "let",
                     "signature": "fn wrapper_signature<'a>(self_: &Function, ctx: &'a BindgenContext) -> (r: Option<&'a FunctionSig>)",
                     "prefix": "{", "suffix": "; Some(signature) }"},
         "subst": [("unreachable!()", "vstd::pervasive::unreached()", 0, "R15 unreachable! (if present)"), PANIC, (r"re:(?<![\w.])self(?![\w(:])", "self_", 0, "R18 captured self")],
         "requires": ["sig_type(self_, ctx).s_canonical(ctx).s_kind() is Function"],
         "ensures": ["r.is_some()"]},
    ],
}
