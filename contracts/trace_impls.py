"""Unit `trace_impls` (C07 ii, C09): which edges, of which kind, the Trace impls report."""
import os
ENV = os.path.join(os.path.dirname(os.path.dirname(os.path.abspath(__file__))), "env")
TP = "bindgen/ir/template.rs"
FN = "bindgen/ir/function.rs"
TV = "bindgen/ir/traversal.rs"


SPEC = """
pub open spec fn tid(t: TypeId) -> ItemId { t.0 }
pub open spec fn vid(t: VarId) -> ItemId { t.0 }
pub open spec fn fid(t: FunctionId) -> ItemId { t.0 }
pub open spec fn msig(m: Method) -> ItemId { m.signature.0 }
pub open spec fn bty(b: Base) -> ItemId { b.ty.0 }
pub open spec fn argty(a: (Option<String>, TypeId)) -> ItemId { a.1.0 }
// what a function signature reports: its return type, then every parameter type
pub open spec fn sig_edges(sig: &FunctionSig) -> Edges {
    seq![(sig.return_type.0, EdgeKind::FunctionReturn)] + edges_map(sig.argument_types@, |a: (Option<String>, TypeId)| argty(a), EdgeKind::FunctionParameter)
}
pub open spec fn inst_edges(inst: &TemplateInstantiation) -> Edges {
    seq![(inst.definition.0, EdgeKind::TemplateDeclaration)] + edges_of(inst.args@, EdgeKind::TemplateArgument)
}
pub open spec fn rty(r: RawField) -> ItemId { r.s_ty().0 }
pub open spec fn bfty(b: Bitfield) -> ItemId { b.s_ty().0 }
// a data member reports its type, a bit-field unit the type of every bit-field in it, all as EdgeKind::Field
pub open spec fn field_edges(f: Field) -> Edges {
    match f {
        Field::DataMember(d) => seq![(d.ty.0, EdgeKind::Field)],
        Field::Bitfields(u) => edges_map(u.bitfields@, |b: Bitfield| bfty(b), EdgeKind::Field),
    }
}
pub open spec fn fields_edges(fs: Seq<Field>) -> Edges decreases fs.len() {
    if fs.len() == 0 { Seq::<(ItemId, EdgeKind)>::empty() } else { fields_edges(fs.drop_last()) + field_edges(fs.last()) }
}
pub proof fn lemma_fields_step(fs: Seq<Field>, n: int)
    requires 0 <= n < fs.len(),
    ensures fields_edges(fs.subrange(0, n + 1)) == fields_edges(fs.subrange(0, n)) + field_edges(fs[n]),
            fields_edges(fs.subrange(0, 0)) =~= Seq::<(ItemId, EdgeKind)>::empty(),
            fs.subrange(0, fs.len() as int) =~= fs,
{ assert(fs.subrange(0, n + 1).drop_last() =~= fs.subrange(0, n)); }
pub open spec fn compfields_edges(cf: CompFields) -> Edges {
    match cf {
        CompFields::Error => Seq::<(ItemId, EdgeKind)>::empty(),
        CompFields::Before(raw) => edges_map(raw@, |r: RawField| rty(r), EdgeKind::Field),
        CompFields::After { fields, .. } => fields_edges(fields@),
    }
}
// what a struct/union/class reports (comp.rs module docs): template parameters, inner types and vars, methods, destructor,
// constructors; and, unless opaque, its bases (BaseMember) and the types of its fields and bit-fields (Field)
pub open spec fn comp_edges(ci: &CompInfo, ctx: &BindgenContext, item: &Item) -> Edges {
    edges_map(item.s_all_tparams(ctx), |t: TypeId| tid(t), EdgeKind::TemplateParameterDefinition)
    + edges_map(ci.s_inner_types(), |t: TypeId| tid(t), EdgeKind::InnerType)
    + edges_map(ci.s_inner_vars(), |t: VarId| vid(t), EdgeKind::InnerVar)
    + edges_map(ci.s_methods(), |m: Method| msig(m), EdgeKind::Method)
    + (match ci.s_destructor() { Some((_, s)) => seq![(s.0, EdgeKind::Destructor)], None => Seq::<(ItemId, EdgeKind)>::empty() })
    + edges_map(ci.s_constructors(), |t: FunctionId| fid(t), EdgeKind::Constructor)
    + (if item.s_opaque(ctx) { Seq::<(ItemId, EdgeKind)>::empty() } else { edges_map(ci.s_bases(), |b: Base| bty(b), EdgeKind::BaseMember) + compfields_edges(ci.fields) })
}

// what a type reports (ty.rs): the documented table the analyses' subscriptions are checked against (unit edges)
pub open spec fn type_edges(t: &Type, ctx: &BindgenContext, item: &Item) -> Edges {
    if s_named_stdint(t, ctx) { Seq::<(ItemId, EdgeKind)>::empty() } else {
        match t.kind {
            TypeKind::Pointer(i) | TypeKind::Reference(i) | TypeKind::Array(i, _) | TypeKind::Vector(i, _) | TypeKind::BlockPointer(i)
            | TypeKind::Alias(i) | TypeKind::ResolvedTypeRef(i) => seq![(i.0, EdgeKind::TypeReference)],
            TypeKind::TemplateAlias(i, ps) => seq![(i.0, EdgeKind::TypeReference)] + edges_of(ps@, EdgeKind::TemplateParameterDefinition),
            TypeKind::TemplateInstantiation(inst) => inst_edges(&inst),
            TypeKind::Comp(ci) => comp_edges(&ci, ctx, item),
            TypeKind::Function(sig) => sig_edges(&sig),
            TypeKind::Enum(en) => match en.s_repr() { Some(r) => seq![(r.0, EdgeKind::Generic)], None => Seq::<(ItemId, EdgeKind)>::empty() },
            TypeKind::UnresolvedTypeRef(_, _, Some(id)) => seq![(id, EdgeKind::Generic)],
            TypeKind::ObjCInterface(oi) => oi.s_edges(ctx),
            _ => Seq::<(ItemId, EdgeKind)>::empty(),
        }
    }
}

// what an item reports (item.rs): a type its type's edges (unless opaque and not one of the kinds traced unconditionally),
// a function its signature, a variable its type; modules report nothing (their children are not "references")
pub open spec fn traced_unconditionally(t: &Type) -> bool {
    t.kind is Comp || t.kind is Function || t.kind is Pointer || t.kind is Array || t.kind is Reference || t.kind is TemplateInstantiation || t.kind is ResolvedTypeRef
}
pub open spec fn item_edges(it: &Item, ctx: &BindgenContext) -> Edges {
    match it.s_kind() {
        ItemKind::Type(ty) => if traced_unconditionally(&ty) || !it.s_opaque(ctx) { type_edges(&ty, ctx, it) } else { Seq::<(ItemId, EdgeKind)>::empty() },
        ItemKind::Function(f) => seq![(f.s_signature().0, EdgeKind::Generic)],
        ItemKind::Var(v) => seq![(v.s_ty().0, EdgeKind::VarType)],
        ItemKind::Module(_) => Seq::<(ItemId, EdgeKind)>::empty(),
    }
}
"""

MI = {"impl": r"^impl Method$", "impl_header": "impl Method", "impl_name": "Method"}
GEN = [("<T>(", "<T: Tracer>(", 1, "where clause inlined"), ("where T: Tracer,", "", 1, "where clause inlined")]

DEPS_ENV = """
// ---- generate_dependencies: what is traced for one allowlisted item
impl BindgenContext {
    pub uninterp spec fn s_item(&self, id: ItemId) -> Item;
    #[verifier::external_body] pub fn resolve_item<I: IntoItemId>(&self, id: I) -> (r: &Item) ensures *r == self.s_item(id.iid()) { unimplemented!() }
}
pub trait IntoItemId { spec fn iid(&self) -> ItemId; }
impl IntoItemId for ItemId { open spec fn iid(&self) -> ItemId { *self } }
impl IntoItemId for TypeId { open spec fn iid(&self) -> ItemId { self.0 } }
impl IntoItemId for FunctionId { open spec fn iid(&self) -> ItemId { self.0 } }
impl IntoItemId for VarId { open spec fn iid(&self) -> ItemId { self.0 } }
impl Item {
    #[verifier::external_body] pub fn as_type(&self) -> (r: Option<&Type>)
        ensures match self.s_kind() { ItemKind::Type(ty) => r.is_some() && *r.unwrap() == ty, _ => r.is_none() } { unimplemented!() }
}
impl ItemId {
    // <T: Copy + Into<ItemId> as Trace>::trace: `ctx.resolve_item((*self).into()).trace(ctx, tracer, extra)` (Item::trace is verified above)
    #[verifier::external_body] pub fn trace<T: Tracer>(&self, ctx: &BindgenContext, tracer: &mut T, extra: &())
        ensures final(tracer).log() == old(tracer).log() + item_edges(&ctx.s_item(*self), ctx) { unimplemented!() }
}
"""

UNIT = {
    "name": "trace_impls",
    "env": [os.path.join(ENV, "trace_impls_env.rs")],
    "declared_trusted": {r"external_body": 48},
    "items": [
        {"kind": "enum", "file": TV, "name": "EdgeKind", "prefix": "#[derive(Copy, Clone, PartialEq, Eq, Structural)]"},
        {"kind": "enum", "file": FN, "name": "Abi", "prefix": "#[derive(Copy, Clone, PartialEq, Eq, Structural)]"},
        {"kind": "enum", "file": FN, "name": "ClangAbi", "prefix": "#[derive(Copy, Clone, PartialEq, Eq, Structural)]"},
        {"kind": "raw", "label": "cxcc", "text": "pub type CXCallingConv = u32;"},
        {"kind": "struct", "file": TP, "name": "TemplateInstantiation"},
        {"kind": "struct", "file": FN, "name": "FunctionSig"},
        {"kind": "enum", "file": "bindgen/ir/ty.rs", "name": "TypeKind"},
        {"kind": "struct", "file": "bindgen/ir/ty.rs", "name": "Type"},
        {"kind": "enum", "file": "bindgen/ir/item_kind.rs", "name": "ItemKind"},
        {"kind": "fn", "file": "bindgen/ir/ty.rs", "name": "should_be_traced_unconditionally", "impl": r"^impl Type$", "impl_header": "impl Type", "impl_name": "Type", "ret": "r",
         "ensures": ["r == traced_unconditionally(self)"]},
        {"kind": "fn", "file": "bindgen/ir/ty.rs", "name": "kind", "impl": r"^impl Type$", "impl_header": "impl Type", "impl_name": "Type", "ret": "r", "ensures": ["*r == self.kind"]},
        {"kind": "fn", "file": TP, "name": "template_arguments", "impl": r"^impl TemplateInstantiation$", "impl_header": "impl TemplateInstantiation", "impl_name": "TemplateInstantiation", "ret": "r",
         "subst": [("&self.args[..]", "self.args.as_slice()", 1, "R21 full-range slice")],
         "ensures": ["r@ == self.args@"]},
        {"kind": "fn", "file": FN, "name": "return_type", "impl": r"^impl FunctionSig$", "impl_header": "impl FunctionSig", "impl_name": "FunctionSig", "ret": "r", "ensures": ["r == self.return_type"]},
        {"kind": "fn", "file": FN, "name": "argument_types", "impl": r"^impl FunctionSig$", "impl_header": "impl FunctionSig", "impl_name": "FunctionSig", "ret": "r",
         "subst": [("&self.argument_types", "self.argument_types.as_slice()", 1, "R21 deref to slice")],
         "ensures": ["r@ == self.argument_types@"]},
        {"kind": "enum", "file": "bindgen/ir/comp.rs", "name": "Field"},
        {"kind": "enum", "file": "bindgen/ir/comp.rs", "name": "CompFields", "prefix": "pub"},  # R9: private enum made visible
        {"kind": "enum", "file": "bindgen/ir/comp.rs", "name": "MethodKind", "prefix": "#[derive(Copy, Clone, PartialEq, Eq, Structural)]"},
        {"kind": "struct", "file": "bindgen/ir/comp.rs", "name": "Method"},
        {"kind": "fn", "file": "bindgen/ir/comp.rs", "name": "kind", **MI, "ret": "r", "ensures": ["r == self.kind"]},
        {"kind": "fn", "file": "bindgen/ir/comp.rs", "name": "is_constructor", **MI, "ret": "r", "ensures": ["r == (self.kind == MethodKind::Constructor)"]},
        {"kind": "fn", "file": "bindgen/ir/comp.rs", "name": "is_virtual", **MI, "ret": "r", "ensures": ["r == (self.kind is Virtual || self.kind is VirtualDestructor)"]},
        {"kind": "fn", "file": "bindgen/ir/comp.rs", "name": "is_static", **MI, "ret": "r", "ensures": ["r == (self.kind == MethodKind::Static)"]},
        {"kind": "fn", "file": "bindgen/ir/comp.rs", "name": "signature", **MI, "ret": "r", "ensures": ["r == self.signature"]},
        {"kind": "fn", "file": "bindgen/ir/comp.rs", "name": "is_const", **MI, "ret": "r", "ensures": ["r == self.is_const"]},
        {"kind": "raw", "label": "trace_spec", "text": SPEC},
        # an instantiation reports its definition (TemplateDeclaration) and every argument (TemplateArgument):
        # the edges HasVtable/Sizedness/HasFloat/.. subscribe to for `template_definition` / `template_arguments` reads
        {"kind": "fn", "file": TP, "name": "trace", "impl": r"^impl Trace for TemplateInstantiation$", "impl_header": "impl TemplateInstantiation", "impl_name": "TemplateInstantiation",
         "subst": GEN + [("self.definition.into()", "self.definition.item()", 1, "R12"), ("arg.into()", "arg.item()", 1, "R12"),
                         ("for arg in self.template_arguments()", "let mut it = SliceCursor::new(self.template_arguments()); while it.has_next()", 1, "R13")],
         "ghost_start": "let ghost log0 = tracer.log();",
         "loops": {0: {"body_start": "let arg = it.next_item();", "decreases": "it.all().len() - it.pos()",
                       "invariant": ["it.all() == self.args@ && 0 <= it.pos() <= it.all().len()",
                                     "tracer.log() == log0.push((self.definition.0, EdgeKind::TemplateDeclaration)) + edges_of(self.args@.subrange(0, it.pos()), EdgeKind::TemplateArgument)"],
                       "proof": "assert(edges_of(self.args@.subrange(0, it.pos()), EdgeKind::TemplateArgument) =~= edges_of(self.args@.subrange(0, it.pos() - 1), EdgeKind::TemplateArgument).push((self.args@[it.pos() - 1].0, EdgeKind::TemplateArgument)));"}},
         "proof_before": [("tracer .visit_kind(self.definition.into(), EdgeKind::TemplateDeclaration);", "assert(edges_of(self.args@.subrange(0, 0), EdgeKind::TemplateArgument) =~= Seq::<(ItemId, EdgeKind)>::empty());")],
         "ensures": ["final(tracer).log() == old(tracer).log().push((self.definition.0, EdgeKind::TemplateDeclaration)) + edges_of(self.args@, EdgeKind::TemplateArgument)"],
         },
        {"kind": "fn", "file": FN, "name": "trace", "impl": r"^impl Trace for FunctionSig$", "impl_header": "impl FunctionSig", "impl_name": "FunctionSig",
         "subst": GEN + [("self.return_type().into()", "self.return_type().item()", 1, "R12"), ("ty.into()", "ty.item()", 1, "R12"),
                         (r"re:for\s+&?\(\s*\w+\s*,\s*\w+\s*\)\s+in\s+self\.argument_types\(\)", "let mut it = SliceCursor::new(self.argument_types()); while it.has_next()", 1, "R13 (whatever the two pattern names)")],
         "ghost_start": "let ghost log0 = tracer.log(); let ghost f = |a: (Option<String>, TypeId)| argty(a);",
         "loops": {0: {"header_re": r"for\s+&?\(\s*(\w+)\s*,\s*(\w+)\s*\)\s+in", "body_start": r"let item_ = it.next_item(); let \1 = &item_.0; let \2 = item_.1;", "decreases": "it.all().len() - it.pos()",
                       "invariant": ["it.all() == self.argument_types@ && 0 <= it.pos() <= it.all().len()",
                                     "f == (|a: (Option<String>, TypeId)| argty(a))",
                                     "tracer.log() == log0.push((self.return_type.0, EdgeKind::FunctionReturn)) + edges_map(self.argument_types@.subrange(0, it.pos()), f, EdgeKind::FunctionParameter)"],
                       "proof": "lemma_loop_step(log0.push((self.return_type.0, EdgeKind::FunctionReturn)), self.argument_types@, it.pos() - 1, f, EdgeKind::FunctionParameter);"}},
         "proof_before": [("tracer.visit_kind(self.return_type().into(), EdgeKind::FunctionReturn);", "lemma_edges_full(self.argument_types@, f, EdgeKind::FunctionParameter);")],
         "ensures": ["final(tracer).log() == old(tracer).log() + sig_edges(self)"]},
        {"kind": "fn", "file": "bindgen/ir/comp.rs", "name": "trace", "impl": r"^impl Trace for Field$", "impl_header": "impl Field", "impl_name": "Field",
         "subst": GEN + [("data.ty.into()", "data.ty.item()", 0, "R12"), ("bf.ty().into()", "bf.ty().item()", 0, "R12"),
                         ("for bf in bitfields", "let mut it = SliceCursor::new(bitfields.as_slice()); while it.has_next()", 1, "R13")],
         "ghost_start": "let ghost log0 = tracer.log(); let ghost f = |b: Bitfield| bfty(b);",
         "loops": {0: {"body_start": "let bf = it.next_item();", "decreases": "it.all().len() - it.pos()",
                       "invariant": ["it.all() == bitfields@ && 0 <= it.pos() <= it.all().len()", "f == (|b: Bitfield| bfty(b))",
                                     "*self matches Field::Bitfields(u0) && u0.bitfields@ == bitfields@",
                                     "tracer.log() == log0 + edges_map(bitfields@.subrange(0, it.pos()), f, EdgeKind::Field)"],
                       "proof": "lemma_loop_step(log0, bitfields@, it.pos() - 1, f, EdgeKind::Field);"}},
         "proof_before": [("match *self {", "match self { Field::Bitfields(u) => { lemma_edges_full(u.bitfields@, f, EdgeKind::Field); } _ => {} }")],
         "ensures": ["final(tracer).log() == old(tracer).log() + field_edges(*self)"]},
        {"kind": "fn", "file": "bindgen/ir/comp.rs", "name": "trace", "impl": r"^impl Trace for CompFields$", "impl_header": "impl CompFields", "impl_name": "CompFields",
         "subst": GEN + [("f.ty().into()", "f.ty().item()", 1, "R12"),
                         ("for f in fields", "let mut it = SliceCursor::new(fields.as_slice()); while it.has_next()", 2, "R13")],
         "ghost_start": "let ghost log0 = tracer.log(); let ghost g = |r: RawField| rty(r);",
         "loops": {0: {"body_start": "let f = it.next_item();", "decreases": "it.all().len() - it.pos()",
                       "invariant": ["it.all() == fields@ && 0 <= it.pos() <= it.all().len()", "g == (|r: RawField| rty(r))",
                                     "*self matches CompFields::Before(r0) && r0@ == fields@",
                                     "tracer.log() == log0 + edges_map(fields@.subrange(0, it.pos()), g, EdgeKind::Field)"],
                       "proof": "lemma_loop_step(log0, fields@, it.pos() - 1, g, EdgeKind::Field);"},
                   1: {"body_start": "let f = it.next_item();", "decreases": "it.all().len() - it.pos()",
                       "invariant": ["it.all() == fields@ && 0 <= it.pos() <= it.all().len()",
                                     "*self matches CompFields::After { fields: f0, .. } && f0@ == fields@",
                                     "tracer.log() == log0 + fields_edges(fields@.subrange(0, it.pos()))"],
                       "proof": "lemma_fields_step(fields@, it.pos() - 1);"}},
         "proof_before": [("match *self {", "match self { CompFields::Before(r) => { lemma_edges_full(r@, g, EdgeKind::Field); } CompFields::After { fields, .. } => { if fields@.len() > 0 { lemma_fields_step(fields@, 0); } assert(fields@.subrange(0, fields@.len() as int) =~= fields@); assert(fields_edges(fields@.subrange(0, 0)) =~= Seq::<(ItemId, EdgeKind)>::empty()); } _ => {} }")],
         "ensures": ["final(tracer).log() == old(tracer).log() + compfields_edges(*self)"]},
        {"kind": "fn", "file": "bindgen/ir/comp.rs", "name": "trace", "impl": r"^impl Trace for CompInfo$", "impl_header": "impl CompInfo", "impl_name": "CompInfo",
         "subst": GEN + [
             ("base.ty.into()", "base.ty.item()", 1, "R12"),
             ("for p in item.all_template_params(context)", "let mut it0 = VecCursor::new(item.all_template_params(context)); while it0.has_next()", 1, "R13"),
             ("p.into()", "p.item()", 1, "R12"),
             ("for ty in self.inner_types()", "let mut it1 = SliceCursor::new(self.inner_types()); while it1.has_next()", 1, "R13"),
             ("ty.into()", "ty.item()", 1, "R12"),
             ("for &var in self.inner_vars()", "let mut it2 = SliceCursor::new(self.inner_vars()); while it2.has_next()", 1, "R13"),
             ("var.into()", "var.item()", 1, "R12"),
             ("for method in self.methods()", "let mut it3 = SliceCursor::new(self.methods()); while it3.has_next()", 1, "R13"),
             ("method.signature.into()", "method.signature.item()", 1, "R12"),
             ("signature.into()", "signature.item()", 1, "R12"),
             ("for ctor in self.constructors()", "let mut it4 = SliceCursor::new(self.constructors()); while it4.has_next()", 1, "R13"),
             ("ctor.into()", "ctor.item()", 1, "R12"),
             # R13; a `.iter().filter(|b| P)` on the iterated slice is swallowed here and becomes `if !P { continue; }` at the start of
             # the loop body (definition of Iterator::filter; P is the source text, see loop 5 below)
             (r"re:for base in self\.base_members\(\)(?:\s*\.iter\(\)\s*\.filter\(\|\w+\|[^{]*?\))?(?=\s*\{)", "let mut it5 = SliceCursor::new(self.base_members()); while it5.has_next()", 1, "R13"),
         ],
         "ghost_start": "let ghost log0 = tracer.log(); let ghost tps = item.s_all_tparams(context); let ghost f_t = |t: TypeId| tid(t); let ghost f_v = |t: VarId| vid(t); let ghost f_m = |m: Method| msig(m); let ghost f_f = |t: FunctionId| fid(t); let ghost f_b = |b: Base| bty(b); "
                        "let ghost e0 = edges_map(tps, f_t, EdgeKind::TemplateParameterDefinition); let ghost e1 = edges_map(self.s_inner_types(), f_t, EdgeKind::InnerType); let ghost e2 = edges_map(self.s_inner_vars(), f_v, EdgeKind::InnerVar); "
                        "let ghost e3 = edges_map(self.s_methods(), f_m, EdgeKind::Method); let ghost e4 = (match self.s_destructor() { Some((_, s)) => seq![(s.0, EdgeKind::Destructor)], None => Seq::<(ItemId, EdgeKind)>::empty() }); "
                        "let ghost e5 = edges_map(self.s_constructors(), f_f, EdgeKind::Constructor); "
                        "proof { lemma_edges_full(tps, f_t, EdgeKind::TemplateParameterDefinition); lemma_edges_full(self.s_inner_types(), f_t, EdgeKind::InnerType); lemma_edges_full(self.s_inner_vars(), f_v, EdgeKind::InnerVar); "
                        "lemma_edges_full(self.s_methods(), f_m, EdgeKind::Method); lemma_edges_full(self.s_constructors(), f_f, EdgeKind::Constructor); lemma_edges_full(self.s_bases(), f_b, EdgeKind::BaseMember); }",
         "loops": {
             0: {"body_start": "let p = it0.next_item();", "decreases": "it0.all().len() - it0.pos()",
                 "invariant": ["it0.all() == tps && 0 <= it0.pos() <= tps.len()", "f_t == (|t: TypeId| tid(t))", "tracer.log() == log0 + edges_map(tps.subrange(0, it0.pos()), f_t, EdgeKind::TemplateParameterDefinition)"],
                 "proof": "lemma_loop_step(log0, tps, it0.pos() - 1, f_t, EdgeKind::TemplateParameterDefinition);"},
             1: {"body_start": "let ty = it1.next_item();", "decreases": "it1.all().len() - it1.pos()",
                 "invariant": ["it1.all() == self.s_inner_types() && 0 <= it1.pos() <= it1.all().len()", "f_t == (|t: TypeId| tid(t))", "tracer.log() == log0 + e0 + edges_map(self.s_inner_types().subrange(0, it1.pos()), f_t, EdgeKind::InnerType)"],
                 "proof": "lemma_loop_step(log0 + e0, self.s_inner_types(), it1.pos() - 1, f_t, EdgeKind::InnerType);"},
             2: {"body_start": "let var = *it2.next_item();", "decreases": "it2.all().len() - it2.pos()",
                 "invariant": ["it2.all() == self.s_inner_vars() && 0 <= it2.pos() <= it2.all().len()", "f_v == (|t: VarId| vid(t))", "tracer.log() == log0 + e0 + e1 + edges_map(self.s_inner_vars().subrange(0, it2.pos()), f_v, EdgeKind::InnerVar)"],
                 "proof": "lemma_loop_step(log0 + e0 + e1, self.s_inner_vars(), it2.pos() - 1, f_v, EdgeKind::InnerVar);"},
             3: {"body_start": "let method = it3.next_item();", "decreases": "it3.all().len() - it3.pos()",
                 "invariant": ["it3.all() == self.s_methods() && 0 <= it3.pos() <= it3.all().len()", "f_m == (|m: Method| msig(m))", "tracer.log() == log0 + e0 + e1 + e2 + edges_map(self.s_methods().subrange(0, it3.pos()), f_m, EdgeKind::Method)"],
                 "proof": "lemma_loop_step(log0 + e0 + e1 + e2, self.s_methods(), it3.pos() - 1, f_m, EdgeKind::Method);"},
             4: {"body_start": "let ctor = it4.next_item();", "decreases": "it4.all().len() - it4.pos()",
                 "invariant": ["it4.all() == self.s_constructors() && 0 <= it4.pos() <= it4.all().len()", "f_f == (|t: FunctionId| fid(t))", "tracer.log() == log0 + e0 + e1 + e2 + e3 + e4 + edges_map(self.s_constructors().subrange(0, it4.pos()), f_f, EdgeKind::Constructor)"],
                 "proof": "lemma_loop_step(log0 + e0 + e1 + e2 + e3 + e4, self.s_constructors(), it4.pos() - 1, f_f, EdgeKind::Constructor);"},
             5: {"header_re": r"(?s)for base in self\.base_members\(\)(?:\s*\.iter\(\)\s*\.filter\(\|(\w+)\|\s*(.*?)\))?\s*$",
                 "body_start": (lambda m: "let base = it5.next_item();" + ((" let %s = &base; if !(%s) { continue; }" % (m.group(1), m.group(2))) if m.group(1) else "")), "decreases": "it5.all().len() - it5.pos()",
                 "invariant": ["it5.all() == self.s_bases() && 0 <= it5.pos() <= it5.all().len()", "f_b == (|b: Base| bty(b))", "!item.s_opaque(context)", "tracer.log() == log0 + e0 + e1 + e2 + e3 + e4 + e5 + edges_map(self.s_bases().subrange(0, it5.pos()), f_b, EdgeKind::BaseMember)"],
                 "proof": "lemma_loop_step(log0 + e0 + e1 + e2 + e3 + e4 + e5, self.s_bases(), it5.pos() - 1, f_b, EdgeKind::BaseMember);"},
         },
         "ensures": ["final(tracer).log() == old(tracer).log() + comp_edges(self, context, item)"]},
        {"kind": "fn", "file": "bindgen/ir/ty.rs", "name": "trace", "impl": r"^impl Trace for Type$", "impl_header": "impl Type", "impl_name": "Type",
         "subst": GEN + [
             ("self.name().is_some_and(|name| context.is_stdint_type(name))", "named_stdint(self, context)", 1, "R5"),
             ("inner.into()", "inner.item()", 2, "R12"), ("param.into()", "param.item()", 1, "R12"), ("repr.into()", "repr.item()", 0, "R12"),
             ("for param in template_params", "let mut it = SliceCursor::new(template_params.as_slice()); while it.has_next()", 1, "R13"),
         ],
         "ghost_start": "let ghost log0 = tracer.log();",
         "loops": {0: {"body_start": "let param = it.next_item();", "decreases": "it.all().len() - it.pos()",
                       "invariant": ["it.all() == template_params@ && 0 <= it.pos() <= it.all().len()",
                                     "self.kind matches TypeKind::TemplateAlias(i0, ps0) && i0 == inner && ps0@ == template_params@",
                                     "tracer.log() == log0.push((inner.0, EdgeKind::TypeReference)) + edges_of(template_params@.subrange(0, it.pos()), EdgeKind::TemplateParameterDefinition)"],
                       "proof": "assert(edges_of(template_params@.subrange(0, it.pos()), EdgeKind::TemplateParameterDefinition) =~= edges_of(template_params@.subrange(0, it.pos() - 1), EdgeKind::TemplateParameterDefinition).push((template_params@[it.pos() - 1].0, EdgeKind::TemplateParameterDefinition)));"}},
         "ensures": ["final(tracer).log() == old(tracer).log() + type_edges(self, context, item)"]},
        {"kind": "fn", "file": "bindgen/ir/item.rs", "name": "trace", "impl": r"^impl Trace for Item$", "impl_header": "impl Item", "impl_name": "Item",
         "subst": GEN + [("fun.signature().into()", "fun.signature().item()", 1, "R12"), ("var.ty().into()", "var.ty().item()", 1, "R12")],
         "ensures": ["final(tracer).log() == old(tracer).log() + item_edges(self, ctx)"]},
        # generate_dependencies (analysis/mod.rs): the statements that trace one allowlisted item for the dependency map.
        # READ-SET COVERAGE (C07): the analyses' constrain functions look INSIDE opaque types (an opaque alias has the
        # destructor / floats of what it names), so the edges of a type item must be recorded whether it is opaque or not
        {"kind": "raw", "label": "deps_env", "text": DEPS_ENV},
        {"kind": "fn", "file": "bindgen/ir/analysis/mod.rs", "name": "trace_item_for_dependencies", "ret": "r_unit",
         "closure": {"enclosing": "generate_dependencies", "anchor": "item.trace(ctx, record, &());", "nth": 0, "stmt": "rest",
                     "signature": "fn trace_item_for_dependencies<T: Tracer>(ctx: &BindgenContext, item: ItemId, record: &mut T)",
                     "prefix": "{", "suffix": "}"},
         "ensures": [
             "final(record).log() == old(record).log() + (match ctx.s_item(item).s_kind() { ItemKind::Type(ty) => type_edges(&ty, ctx, &ctx.s_item(item)), _ => item_edges(&ctx.s_item(item), ctx) })",
         ]},
    ],
}
