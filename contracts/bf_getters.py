"""Unit `bf_getters` (C03): Bitfield's getters hand code generation the stored numbers unchanged."""
import os
ENV = os.path.join(os.path.dirname(os.path.dirname(os.path.abspath(__file__))), "env")
CP = "bindgen/ir/comp.rs"
FM = {"impl": r"^impl FieldMethods for Bitfield$", "impl_header": "impl Bitfield", "impl_name": "Bitfield"}
BI = {"impl": r"^impl Bitfield$", "impl_header": "impl Bitfield", "impl_name": "Bitfield"}

UNIT = {
    "name": "bf_getters",
    "env": [os.path.join(ENV, "bf_getters_env.rs")],
    "declared_trusted": {r"external_body": 9},
    "items": [
        {"kind": "struct", "file": CP, "name": "Bitfield"},
        # where the unit starts is computed from the clang offset of its FIRST bit-field, zero-width separators included
        # (the unit-start closure, unit bf_unit_start; the placement theorem of unit layout)
        {"kind": "fn", "file": CP, "name": "offset", **FM, "ret": "r", "ensures": ["r == self.data.s_offset()"]},
        {"kind": "fn", "file": CP, "name": "bitfield_width", **FM, "ret": "r", "ensures": ["r == self.data.s_width()"]},
        {"kind": "fn", "file": CP, "name": "is_public", **FM, "ret": "r", "ensures": ["r == self.data.s_public()"]},
        {"kind": "fn", "file": CP, "name": "offset_into_unit", **BI, "ret": "r", "ensures": ["r == self.offset_into_unit"]},
        {"kind": "fn", "file": CP, "name": "width", **BI, "ret": "r",
         "requires": ["self.data.s_width().is_some()"],        # Bitfield::new asserts it
         "ensures": ["r == self.data.s_width().unwrap()"]},
        # the allocation of bit-field units follows the packing of the record, whatever its alignment (a packed record aligned to
        # 2 or more still places bit-fields without regard to their type's boundaries)
        {"kind": "fn", "file": CP, "name": "compute_bitfield_units", "impl": r"^impl CompInfo$", "impl_nth": 0, "impl_header": "impl CompInfo", "impl_name": "CompInfo", "ret": "r_unit",
         "ensures": ["final(self).fields.s_allocated_as_packed() == old(self).s_is_packed(ctx, layout)"]},
    ],
}
