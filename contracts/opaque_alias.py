"""Unit `opaque_alias` (C10): an opaque typedef is a blob of the typedef's OWN size and alignment."""
import os
ENV = os.path.join(os.path.dirname(os.path.dirname(os.path.abspath(__file__))), "env")
CG = "bindgen/codegen/mod.rs"

UNIT = {
    "name": "opaque_alias",
    "env": [os.path.join(ENV, "opaque_alias_env.rs")],
    "declared_trusted": {r"external_body": 13},
    "items": [
        # `let inner_rust_type = if is_opaque { .. } else { .. };` of the TemplateAlias | Alias arm of <Type as CodeGenerator>::codegen
        {"kind": "fn", "file": CG, "name": "alias_inner_rust_type", "impl": r"^impl CodeGenerator for Type$", "ret": "r",
         "closure": {"enclosing": "codegen", "anchor_re": r"(?m)^\s*let inner_rust_type\s*=\s*if\b", "nth": 0, "stmt": "let",
                     "signature": "fn alias_inner_rust_type(self_: &Type, ctx: &BindgenContext, item: &Item, inner_item: &Item, is_opaque: bool, outer_params: &mut Vec<TypeId>) -> (r: Tok)",
                     "prefix": "{", "suffix": "; inner_rust_type }"},
         "subst": [
             (r"re:(?<![\w.])outer_params(?![\w(:])", "(*outer_params)", 0, "R18 by-mut-ref capture"),
             (r"re:inner_item\s*\.try_to_rust_ty_or_opaque\(ctx, &\(\)\)\s*\.unwrap_or_else\(\|_\|", "(match inner_item.try_to_rust_ty_or_opaque(ctx, &()) { Ok(t_) => t_, Err(_) =>", 0, "R7 Result::unwrap_or_else (open; the fallback expression stays in place)"),
             (r"re:\)(?=\s*\.with_implicit_template_params)", " })", 0, "R7 Result::unwrap_or_else (close)"),
             (r"re:(?<![\w.])self(?![\w(:])", "self_", 0, "R18 captured self"),
         ],
         "ensures": [
             # C10: "a type marked opaque is emitted as a member-less blob with exactly the C size and alignment" - of the typedef
             # itself (an `aligned` attribute on the typedef changes both), and with no template parameters
             "is_opaque ==> r == blob_ty(ctx, self_.s_opaque_layout(ctx)) && final(outer_params)@.len() == 0",
             # not opaque: the aliased type's Rust type; where that cannot be expressed, again a blob of the typedef's own layout
             "!is_opaque ==> r == with_params(match inner_item.s_rust_ty(ctx) { Ok(t) => t, Err(_) => blob_ty(ctx, self_.s_opaque_layout(ctx)) }, ctx, inner_item) && final(outer_params)@ == old(outer_params)@",
         ]},
    ],
}
