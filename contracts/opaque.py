"""Unit `opaque` (C10): which items/types are treated as opaque."""
import os
ENV = os.path.join(os.path.dirname(os.path.dirname(os.path.abspath(__file__))), "env")

SPEC = """
pub open spec fn type_opaque(t: &Type, ctx: &BindgenContext, item: &Item) -> bool {
    match t.kind {
        TypeKind::Opaque => true,
        TypeKind::TemplateInstantiation(inst) => inst.s_opaque(ctx, item),
        TypeKind::Comp(comp) => comp.s_opaque(ctx, t.layout),
        TypeKind::ResolvedTypeRef(to) => to.s_opaque(ctx),
        _ => false,
    }
}
"""

UNIT = {
    "name": "opaque",
    "env": [os.path.join(ENV, "opaque_env.rs")],
    "declared_trusted": {r"external_body": 17},
    "items": [
        {"kind": "enum", "file": "bindgen/ir/ty.rs", "name": "TypeKind"},
        {"kind": "struct", "file": "bindgen/ir/ty.rs", "name": "Type"},
        {"kind": "raw", "label": "opaque_spec", "text": SPEC},
        {"kind": "fn", "file": "bindgen/ir/ty.rs", "name": "is_opaque", "impl": r"^impl IsOpaque for Type$", "impl_header": "impl Type", "impl_name": "Type", "ret": "r",
         "ensures": ["r == type_opaque(self, ctx, item)"]},
        {"kind": "fn", "file": "bindgen/ir/item.rs", "name": "is_opaque", "impl": r"^impl IsOpaque for Item$", "impl_header": "impl Item", "impl_name": "Item", "ret": "r",
         "r2_spec_form": [("ctx.in_codegen_phase()", "ctx.s_in_codegen()")],
         "subst": [("self.as_type().is_some_and(|ty| ty.is_opaque(ctx, self))", "(match self.as_type() { Some(ty) => ty.is_opaque(ctx, self), None => false })", 1, "R7")],
         "ensures": [
             # C10: "A type marked opaque (by option or annotation)" is opaque -- and nothing else is, except what its type says
             "self.annotations.s_opaque() ==> r",
             "ctx.s_opaque_by_name(self.s_path(ctx)) ==> r",
             "r == (self.annotations.s_opaque() || (self.ty.is_some() && type_opaque(&self.ty.unwrap(), ctx, self)) || ctx.s_opaque_by_name(self.s_path(ctx)))",
         ]},
    ],
}
