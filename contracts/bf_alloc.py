"""Unit `bf_alloc` (C03): bit-fields -> allocation units when libclang gives no
field offsets (class templates): the layout bindgen computes itself."""
import os
ENV = os.path.join(os.path.dirname(os.path.dirname(os.path.abspath(__file__))), "env")
CP = "bindgen/ir/comp.rs"
SL = "bindgen/codegen/struct_layout.rs"
LY = "bindgen/ir/layout.rs"

SPEC = """
pub const BIG: usize = 0x1000_0000_0000_0000;
pub open spec fn lay(ctx: &BindgenContext, rf: RawField) -> Option<Layout> { ctx.s_type(rf.ty).spec_layout(ctx) }
// what the function may assume of each raw bit-field (C11 6.7.2.1: the width does not
// exceed the width of the declared type; base types are integer/enum/_Bool: alignment <= 16)
pub open spec fn valid_raw(ctx: &BindgenContext, rf: RawField) -> bool {
    &&& rf.width.is_some() && rf.offset.is_none()
    &&& (lay(ctx, rf).is_some() ==> {
            let l = lay(ctx, rf).unwrap();
            &&& (l.align == 1 || l.align == 2 || l.align == 4 || l.align == 8 || l.align == 16)
            &&& l.size <= 16 && rf.width.unwrap() <= 8 * l.size })
}
// Itanium C++ ABI 2.4 / SysV psABI bit-field rule, from the ABI text (not from comp.rs):
// a zero-width field starts at a boundary of its type's alignment unit; any other
// field must not cross a boundary of its declared type's storage unit.
pub open spec fn placed_ok(off: int, w: int, l: Layout) -> bool {
    if w == 0 { off % (8 * l.align) == 0 } else { off % (8 * l.align) + w <= 8 * l.size }
}
// the mode in which libclang reports every field offset (plain C structs AND unions)
pub open spec fn valid_raw_clang(ctx: &BindgenContext, rf: RawField, first: RawField, packed: bool) -> bool {
    &&& rf.width.is_some() && rf.offset.is_some() && first.offset.is_some()
    &&& rf.offset.unwrap() >= first.offset.unwrap() && rf.offset.unwrap() < BIG
    &&& (lay(ctx, rf).is_some() ==> {
            let l = lay(ctx, rf).unwrap();
            &&& (l.align == 1 || l.align == 2 || l.align == 4 || l.align == 8 || l.align == 16)
            &&& l.size <= 16 && rf.width.unwrap() <= 8 * l.size
            // clang's own offsets obey the ABI rule
            &&& (!packed && rf.offset.unwrap() != 0 ==> placed_ok(rf.offset.unwrap() as int, rf.width.unwrap() as int, l)) })
}
// what every generated accessor needs (bitfield_unit.rs debug_assert!s): the field lies inside the unit,
// at the position clang gave it relative to the unit's first field -- in ANY order of offsets (unions!)
pub open spec fn unit_ok_clang(u: BitfieldUnit, raws: Seq<RawField>) -> bool {
    &&& u.layout.align == 1 && !u.layout.packed
    &&& u.bitfields@.len() == raws.len()
    &&& forall|j: int| 0 <= j < raws.len() ==> {
            let b = #[trigger] u.bitfields@[j];
            &&& b.raw == raws[j]
            &&& b.offset_into_unit + raws[j].width.unwrap() <= 8 * u.layout.size
        }
}
pub open spec fn offsets_nondecreasing(raws: Seq<RawField>) -> bool {
    forall|i: int, j: int| 0 <= i <= j < raws.len() ==> (#[trigger] raws[i]).offset.unwrap() <= (#[trigger] raws[j]).offset.unwrap()
}
pub open spec fn ends_nondecreasing(raws: Seq<RawField>) -> bool {
    forall|i: int, j: int| 0 <= i <= j < raws.len() ==>
        (#[trigger] raws[i]).offset.unwrap() + raws[i].width.unwrap() <= (#[trigger] raws[j]).offset.unwrap() + raws[j].width.unwrap()
}
pub open spec fn unit_ok(ctx: &BindgenContext, u: BitfieldUnit, raws: Seq<RawField>, packed: bool) -> bool {
    &&& u.layout.align == 1 && !u.layout.packed
    &&& u.bitfields@.len() == raws.len()
    &&& forall|j: int| 0 <= j < raws.len() ==> {
            let b = #[trigger] u.bitfields@[j];
            &&& b.raw == raws[j]
            // the precondition of every generated accessor (bitfield_unit.rs debug_assert!s)
            &&& b.offset_into_unit + raws[j].width.unwrap() <= 8 * u.layout.size
            // ABI placement
            &&& (!packed && b.offset_into_unit != 0 ==> placed_ok(b.offset_into_unit as int, raws[j].width.unwrap() as int, lay(ctx, raws[j]).unwrap()))
            // fields do not overlap and keep their order
            &&& (j > 0 ==> b.offset_into_unit >= u.bitfields@[j - 1].offset_into_unit + raws[j - 1].width.unwrap())
            // packed: bit-fields are laid out back to back
            &&& (packed && j > 0 ==> b.offset_into_unit == u.bitfields@[j - 1].offset_into_unit + raws[j - 1].width.unwrap())
        }
}
"""

UNIT = {
    "name": "bf_alloc",
    "env": [os.path.join(ENV, "bf_alloc_env.rs")],
    "declared_trusted": {r"external_body": 10},
    "items": [
        {"kind": "struct", "file": LY, "name": "Layout", "prefix": "#[derive(Clone, Copy, PartialEq, Eq)]"},
        {"kind": "raw", "label": "bf_alloc_spec", "text": SPEC},
        {"kind": "fn", "file": SL, "name": "align_to", "ret": "r",
         "requires": ["size + align <= usize::MAX"],
         "ensures": ["r == (if align == 0 { size as int } else { align_up(size as int, align as int) })"],
         "proof_start": "if align > 0 { lemma_align_up(size as int, align as int); }"},
        {"kind": "fn", "file": LY, "name": "new", "impl": r"^impl Layout$", "impl_header": "impl Layout", "impl_name": "Layout", "ret": "r",
         "ensures": ["r.size == size && r.align == align && !r.packed"]},
        {"kind": "fn", "file": CP, "name": "bitfields_to_allocation_units", "ret": "r",
         "assert_to_requires": True,
         "r2_spec_form": [("ctx.collected_typerefs()", "ctx.s_collected()")],
         "subst": [
             ("<E, I>", "", 1, "R12"),
             ("fields: &mut E,", "fields: &mut FieldSink,", 2, "R12"),
             ("raw_bitfields: I,", "raw_bitfields: Vec<RawField>,", 1, "R12"),
             ("where E: Extend<Field>,", "", 2, "R12"),
             ("I: IntoIterator<Item = RawField>,", "", 1, "R12"),
             ("flush_allocation_unit<E>(", "flush_allocation_unit(", 1, "R12"),
             ("let mut bitfields_in_unit = vec![];", "let mut bitfields_in_unit: Vec<Bitfield> = vec![];", 1, "R14 type annotation"),
             ("for bitfield in raw_bitfields", "let mut it = VecCursor::new(raw_bitfields); while it.has_next()", 1, "R13"),
         ],
         "requires": [
             "*old(bitfield_unit_count) < BIG",
             "raw_bitfields@.len() < 0x1_0000_0000",
             "forall|i: int| 0 <= i < raw_bitfields@.len() ==> valid_raw(ctx, #[trigger] raw_bitfields@[i])",
         ],
         "ensures": [
             "r.is_ok() ==> forall|i: int| 0 <= i < raw_bitfields@.len() ==> lay(ctx, #[trigger] raw_bitfields@[i]).is_some()",
             # either nothing was emitted, or exactly one unit that satisfies the ABI rule and the accessor precondition
             "r.is_ok() ==> (final(fields).out@ == old(fields).out@ && *final(bitfield_unit_count) == *old(bitfield_unit_count)) || (final(fields).out@.len() == old(fields).out@.len() + 1 && *final(bitfield_unit_count) == *old(bitfield_unit_count) + 1 && final(fields).out@.subrange(0, old(fields).out@.len() as int) == old(fields).out@ && (match final(fields).out@.last() { Field::Bitfields(u) => u.nth == *final(bitfield_unit_count) && unit_ok(ctx, u, raw_bitfields@, packed), _ => false }))",
             # a non-empty run with at least one non-zero-width field does emit a unit
             "r.is_ok() && (exists|i: int| 0 <= i < raw_bitfields@.len() && (#[trigger] raw_bitfields@[i]).width.unwrap() > 0) ==> final(fields).out@.len() == old(fields).out@.len() + 1",
         ],
         "nested": [
             {"name": "flush_allocation_unit",
              "requires": ["*old(bitfield_unit_count) < BIG", "unit_size_in_bits < BIG"],
              "ensures": [
                  "*final(bitfield_unit_count) == *old(bitfield_unit_count) + 1",
                  "final(fields).out@ == old(fields).out@.push(Field::Bitfields(BitfieldUnit { nth: *final(bitfield_unit_count), layout: Layout { size: (align_up(unit_size_in_bits as int, 8) / 8) as usize, align: 1, packed: false }, bitfields }))",
              ]},
         ],
         "ghost_start": "let ghost raws = raw_bitfields@;",
         "loops": {0: {
             "body_start": "let bitfield = it.next_item();",
             "decreases": "it.all().len() - it.pos()",
             "invariant": [
                 "raws == it.all() && 0 <= it.pos() <= raws.len()",
                 "forall|i: int| 0 <= i < raws.len() ==> valid_raw(ctx, #[trigger] raws[i])",
                 "raws.len() < 0x1_0000_0000",
                 "start_offset_in_struct == 0",
                 "bitfields_in_unit@.len() == it.pos()",
                 "unit_size_in_bits <= it.pos() * 512",
                 "it.pos() == 0 ==> unit_size_in_bits == 0",
                 "forall|j: int| 0 <= j < it.pos() ==> lay(ctx, #[trigger] raws[j]).is_some()",
                 "forall|j: int| 0 <= j < it.pos() ==> (#[trigger] bitfields_in_unit@[j]).raw == raws[j] && bitfields_in_unit@[j].offset_into_unit + raws[j].width.unwrap() <= unit_size_in_bits",
                 "forall|j: int| 0 <= j < it.pos() ==> ((#[trigger] raws[j]).width.unwrap() > 0 ==> unit_size_in_bits > 0)",
                 "it.pos() > 0 ==> unit_size_in_bits == bitfields_in_unit@[it.pos() - 1].offset_into_unit + raws[it.pos() - 1].width.unwrap()",
                 "forall|j: int| 0 <= j < it.pos() ==> (!packed && (#[trigger] bitfields_in_unit@[j]).offset_into_unit != 0 ==> placed_ok(bitfields_in_unit@[j].offset_into_unit as int, raws[j].width.unwrap() as int, lay(ctx, raws[j]).unwrap()))",
                 "forall|j: int| 0 < j < it.pos() ==> (#[trigger] bitfields_in_unit@[j]).offset_into_unit >= bitfields_in_unit@[j - 1].offset_into_unit + raws[j - 1].width.unwrap()",
                 "forall|j: int| 0 < j < it.pos() ==> (packed ==> (#[trigger] bitfields_in_unit@[j]).offset_into_unit == bitfields_in_unit@[j - 1].offset_into_unit + raws[j - 1].width.unwrap())",
             ],
         }},
         "proof_before": [
             ("if !packed && offset_in_struct != 0 &&", "lemma_mask_is_mod(offset_in_struct, bitfield_align); lemma_align_up(offset_in_struct as int, (bitfield_align * 8) as int);"),
         ]},
    ],
}

# ---- second and third contract of the same function: the clang-offset mode ----
# (plain C structs and unions: libclang reports every field offset)
import copy as _copy
_main = [i for i in UNIT["items"] if i.get("name") == "bitfields_to_allocation_units"][0]

_REQ = [
    "*old(bitfield_unit_count) < BIG",
    "raw_bitfields@.len() < 0x1_0000_0000",
    "forall|i: int| 0 <= i < raw_bitfields@.len() ==> valid_raw_clang(ctx, #[trigger] raw_bitfields@[i], raw_bitfields@[0], packed)",
    "offsets_nondecreasing(raw_bitfields@)",
]
# property C03, accessor side: every bit-field lies inside the unit it is accessed through
_ENS = [
    "r.is_ok() ==> (final(fields).out@ == old(fields).out@) || (final(fields).out@.len() == old(fields).out@.len() + 1 && (match final(fields).out@.last() { Field::Bitfields(u) => unit_ok_clang(u, raw_bitfields@), _ => false }))",
]
_INV = [
    "raws == it.all() && 0 <= it.pos() <= raws.len() && raws.len() < 0x1_0000_0000",
    "forall|i: int| 0 <= i < raws.len() ==> valid_raw_clang(ctx, #[trigger] raws[i], raws[0], packed)",
    "offsets_nondecreasing(raws)",
    "bitfields_in_unit@.len() == it.pos()",
    "it.pos() == 0 ==> unit_size_in_bits == 0",
    "it.pos() > 0 ==> start_offset_in_struct <= raws[it.pos() - 1].offset.unwrap()",
    "it.pos() > 0 ==> unit_size_in_bits == raws[it.pos() - 1].offset.unwrap() - start_offset_in_struct + raws[it.pos() - 1].width.unwrap()",
    "forall|j: int| 0 <= j < it.pos() ==> lay(ctx, #[trigger] raws[j]).is_some()",
    "forall|j: int| 0 <= j < it.pos() ==> (#[trigger] bitfields_in_unit@[j]).raw == raws[j]",
    # the property-derived invariant: the running unit size covers every field placed so far
    "forall|j: int| 0 <= j < it.pos() ==> (#[trigger] bitfields_in_unit@[j]).offset_into_unit + raws[j].width.unwrap() <= unit_size_in_bits",
]


def _variant(tag, rename, extra_req, witness):
    v = _copy.deepcopy(_main)
    v["rename"] = rename
    v["rename_tag"] = tag
    v["requires"] = _REQ + extra_req
    v["ensures"] = list(_ENS)
    v["loops"] = {0: {"body_start": "let bitfield = it.next_item();", "decreases": "it.all().len() - it.pos()",
                      "invariant": _INV + (["ends_nondecreasing(raws)"] if not witness else [])}}
    v["nested"] = _copy.deepcopy(_main["nested"])
    v["nested"][0]["requires"] = ["*old(bitfield_unit_count) < BIG", "unit_size_in_bits < 4 * BIG"]
    if witness:
        v["witness"] = True
    return v


# region where the claim holds on the unchanged tree: every field ends at or after all earlier ones (structs)
UNIT["items"].append(_variant("@clang_offsets", "bitfields_to_allocation_units__clang", ["ends_nondecreasing(raw_bitfields@)"], False))
# F7 witness region: some field ends before an earlier one (a union whose later bit-field is narrower)
UNIT["items"].append(_variant("@clang_offsets_region_F7", "bitfields_to_allocation_units__clang_f7", ["!ends_nondecreasing(raw_bitfields@)"], True))
