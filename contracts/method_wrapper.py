"""Unit `method_wrapper` (C04): "C++ methods ... reach their mangled symbols with the correct receiver"."""
import os
ENV = os.path.join(os.path.dirname(os.path.dirname(os.path.abspath(__file__))), "env")
CG = "bindgen/codegen/mod.rs"
CP = "bindgen/ir/comp.rs"
MI = {"impl": r"^impl Method$", "impl_header": "impl Method", "impl_name": "Method"}

UNIT = {
    "name": "method_wrapper",
    "env": [os.path.join(ENV, "method_wrapper_env.rs")],
    "declared_trusted": {r"external_body": 4},
    "items": [
        {"kind": "enum", "file": CP, "name": "MethodKind", "prefix": "#[derive(Copy, Clone, PartialEq, Eq, Structural)]"},
        {"kind": "struct", "file": CP, "name": "Method"},
        {"kind": "fn", "file": CP, "name": "is_constructor", **MI, "ret": "r", "ensures": ["r == (self.kind == MethodKind::Constructor)"]},
        {"kind": "fn", "file": CP, "name": "is_static", **MI, "ret": "r", "ensures": ["r == (self.kind == MethodKind::Static)"]},
        {"kind": "fn", "file": CP, "name": "is_const", **MI, "ret": "r", "ensures": ["r == self.is_const"]},
        # the receiver: the first wrapper argument (C++ `this`) becomes `&self` for const methods and `&mut self` otherwise;
        # static methods and constructors have no receiver
        {"kind": "fn", "file": CG, "name": "receiver_stmt", "impl": r"^impl Method$", "ret": "r_unit",
         "closure": {"enclosing": "codegen_method", "anchor": "if !self.is_static() && !self.is_constructor() {", "nth": 0, "stmt": True,
                     "signature": "fn receiver_stmt(self_: &Method, args: &mut Vec<Tok>)", "prefix": "{", "suffix": "}"},
         "subst": [
             ("args[0] = if", "args.set(0, if", 1, "Vec IndexMut assignment -> Vec::set (with the next entry)"), ("};", "});", 1, "Vec::set closing"),
             ("quote! { &self }", "q_self_ref()", 1, "R4"), ("quote! { &mut self }", "q_self_mut()", 1, "R4"),
             ("self", "self_", 3, "R18 captured self"),
         ],
         # a non-static, non-constructor method has the `this` pointer as first argument (FunctionSig::from_ty inserts it)
         "requires": ["(self_.kind != MethodKind::Static && self_.kind != MethodKind::Constructor) ==> old(args)@.len() > 0"],
         "ensures": [
             "(self_.kind == MethodKind::Static || self_.kind == MethodKind::Constructor) ==> final(args)@ == old(args)@",
             "(self_.kind != MethodKind::Static && self_.kind != MethodKind::Constructor) ==> final(args)@.len() == old(args)@.len() "
             "&& recv_of(final(args)@[0]) == (if self_.is_const { Recv::SelfRef } else { Recv::SelfMut }) "
             "&& forall|i: int| 1 <= i < old(args)@.len() ==> final(args)@[i] == old(args)@[i]",
         ]},
        # a constructor takes no `this` from the caller and returns Self
        {"kind": "fn", "file": CG, "name": "constructor_stmt", "impl": r"^impl Method$", "ret": "r_unit",
         "closure": {"enclosing": "codegen_method", "anchor": "if self.is_constructor() { args.remove(0);", "nth": 0, "stmt": True,
                     "signature": "fn constructor_stmt(self_: &Method, args: &mut Vec<Tok>, ret: &mut Tok)", "prefix": "{", "suffix": "}"},
         "subst": [("quote! { -> Self }", "q_ret_self()", 1, "R4"), ("ret =", "*ret =", 1, "R18 captured by mutable reference"), ("self", "self_", 1, "R18 captured self")],
         "requires": ["self_.kind == MethodKind::Constructor ==> old(args)@.len() > 0"],
         "ensures": [
             "self_.kind != MethodKind::Constructor ==> final(args)@ == old(args)@ && *final(ret) == *old(ret)",
             "self_.kind == MethodKind::Constructor ==> final(args)@ == old(args)@.subrange(1, old(args)@.len() as int) && is_ret_self(*final(ret))",
         ]},
    ],
}
