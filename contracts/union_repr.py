"""Unit `union_repr` (C02, C08): Rust union vs. __BindgenUnionField + blob."""
import os
ENV = os.path.join(os.path.dirname(os.path.dirname(os.path.abspath(__file__))), "env")
CG = "bindgen/codegen/mod.rs"

SPEC = """
pub open spec fn union_style(ctx: &BindgenContext, name: &str) -> NonCopyUnionStyle {
    let o = ctx.spec_options();
    if o.bindgen_wrapper_union.s_matches(name) { NonCopyUnionStyle::BindgenWrapper }
    else if o.manually_drop_union.s_matches(name) { NonCopyUnionStyle::ManuallyDrop } else { o.default_non_copy_union_style }
}
"""

UNIT = {
    "name": "union_repr",
    "env": [os.path.join(ENV, "union_repr_env.rs")],
    "declared_trusted": {r"external_body": 12},
    "items": [
        {"kind": "enum", "file": CG, "name": "NonCopyUnionStyle", "prefix": "#[derive(Copy, Clone, PartialEq, Eq, Structural)]"},
        {"kind": "raw", "label": "union_spec", "text": SPEC},
        {"kind": "fn", "file": "bindgen/ir/comp.rs", "name": "is_rust_union", "impl": r"^impl CompInfo$", "impl_header": "impl CompInfo", "impl_name": "CompInfo", "ret": "r",
         "subst": [
             ("self.fields().iter().all(|f| match *f { Field::DataMember(ref field_data) => { field_data.ty().can_derive_copy(ctx) } Field::Bitfields(_) => true, })", "self.all_fields_can_copy(ctx)", 1, "R5"),
             ("layout.is_some_and(|l| l.size == 0)", "(match layout { Some(l) => l.size == 0, None => false })", 1, "R7"),
         ],
         "ensures": [
             # a Rust `union` only for real, defined unions when the user allows untagged unions ...
             "r.0 ==> self.s_is_union() && ctx.spec_options().untagged_union && !self.s_forward_decl()",
             # ... whose members can all be Copy, or may be wrapped in ManuallyDrop; a zero-sized one only in ManuallyDrop style
             "r.0 == (self.s_is_union() && ctx.spec_options().untagged_union && !self.s_forward_decl() "
             "&& !(!self.s_all_fields_copy(ctx) && union_style(ctx, name) == NonCopyUnionStyle::BindgenWrapper) "
             "&& !((match layout { Some(l) => l.size == 0, None => false }) && union_style(ctx, name) != NonCopyUnionStyle::ManuallyDrop))",
             # the second flag (no ManuallyDrop needed) is the all-Copy fact, and never set without the first
             "r.1 == (r.0 && self.s_all_fields_copy(ctx))",
         ]},
        {"kind": "fn", "file": CG, "name": "wrap_union_field_if_needed", "ret": "r",
         "subst": [("syn::Type", "Tok", 2, "R4"),
                   ("syn::parse_quote! { ::#prefix::mem::ManuallyDrop<#ty> }", "q_manually_drop(&prefix, &ty)", 1, "R4"),
                   ("syn::parse_quote! { root::__BindgenUnionField<#ty> }", "q_union_field_marker(true, &ty)", 1, "R4"),
                   ("syn::parse_quote! { __BindgenUnionField<#ty> }", "q_union_field_marker(false, &ty)", 1, "R4")],
         "ensures": [
             # C02: in a Rust union every member keeps the size and alignment of its C type (so the union has the C layout) ...
             "struct_layout.is_rust_union ==> ty_size(r) == ty_size(ty) && ty_align(r) == ty_align(ty) && final(result).saw_bindgen_union == old(result).saw_bindgen_union",
             # ... otherwise the member is a zero-sized marker (the storage is the blob appended by the tail of CompInfo::codegen)
             "!struct_layout.is_rust_union ==> ty_size(r) == 0 && ty_align(r) == 1 && final(result).saw_bindgen_union",
         ]},
    ],
}
