"""Unit `union_repr` (C02, C08): Rust union vs. __BindgenUnionField + blob."""
import os
ENV = os.path.join(os.path.dirname(os.path.dirname(os.path.abspath(__file__))), "env")
CG = "bindgen/codegen/mod.rs"

SPEC = """
pub open spec fn union_style(ctx: &BindgenContext, name: &str) -> NonCopyUnionStyle {
    let o = ctx.spec_options();
    if o.bindgen_wrapper_union.s_matches(name) { NonCopyUnionStyle::BindgenWrapper }
    else if o.manually_drop_union.s_matches(name) { NonCopyUnionStyle::ManuallyDrop } else { o.default_non_copy_union_style }
}
"""

UNIT = {
    "name": "union_repr",
    "env": [os.path.join(ENV, "union_repr_env.rs")],
    "declared_trusted": {r"external_body": 18},
    "items": [
        {"kind": "enum", "file": CG, "name": "NonCopyUnionStyle", "prefix": "#[derive(Copy, Clone, PartialEq, Eq, Structural)]"},
        {"kind": "raw", "label": "union_spec", "text": SPEC},
        # the per-member test (the closure handed to `.iter().all(..)`, brace-less closure R18): a data member counts as Copy exactly
        # when its DECLARED type can derive Copy - a blocklisted typedef of a Copy type cannot (C10: "traits are not derived
        # through a blocklisted type unless the user vouches for it"); bit-field units always can
        {"kind": "fn", "file": "bindgen/ir/comp.rs", "name": "union_field_can_copy", "impl": r"^impl CompInfo$", "ret": "r",
         "closure": {"enclosing": "is_rust_union", "anchor_re": r"\.all\(\|f\|", "nth": 0, "expr": True,
                     "signature": "fn union_field_can_copy(f: &Field, ctx: &BindgenContext) -> (r: bool)", "prefix": "{", "suffix": "}"},
         "subst": [("match *f {", "match f {", 0, "R24 match on the reference (default binding modes)"),
                   ("Field::DataMember(ref field_data)", "Field::DataMember(field_data)", 0, "R24")],
         "ensures": ["r == (match f { Field::DataMember(d) => s_can_copy(ctx, d.ty.0), Field::Bitfields(_) => true })"]},
        {"kind": "fn", "file": "bindgen/ir/comp.rs", "name": "is_rust_union", "impl": r"^impl CompInfo$", "impl_header": "impl CompInfo", "impl_name": "CompInfo", "ret": "r",
         "subst": [
             (r"re:(?s)self\.fields\(\)\.iter\(\)\.all\(\|f\|\s*match.*?\}\)(?=\s*;)", "self.all_fields_can_copy(ctx)", 1, "R5 `fields.iter().all(test)` is one accessor: the test holds for every member (the test itself is union_field_can_copy above)"),
             ("layout.is_some_and(|l| l.size == 0)", "(match layout { Some(l) => l.size == 0, None => false })", 1, "R7"),
         ],
         "ensures": [
             # a Rust `union` only for real, defined unions when the user allows untagged unions ...
             "r.0 ==> self.s_is_union() && ctx.spec_options().untagged_union && !self.s_forward_decl()",
             # ... whose members can all be Copy, or may be wrapped in ManuallyDrop; a zero-sized one only in ManuallyDrop style
             "r.0 == (self.s_is_union() && ctx.spec_options().untagged_union && !self.s_forward_decl() "
             "&& !(!self.s_all_fields_copy(ctx) && union_style(ctx, name) == NonCopyUnionStyle::BindgenWrapper) "
             "&& !((match layout { Some(l) => l.size == 0, None => false }) && union_style(ctx, name) != NonCopyUnionStyle::ManuallyDrop))",
             # the second flag (no ManuallyDrop needed) is the all-Copy fact, and never set without the first
             "r.1 == (r.0 && self.s_all_fields_copy(ctx))",
         ]},
        {"kind": "fn", "file": CG, "name": "wrap_union_field_if_needed", "ret": "r",
         "subst": [("syn::Type", "Tok", 2, "R4"),
                   ("syn::parse_quote! { ::#prefix::mem::ManuallyDrop<#ty> }", "q_manually_drop(&prefix, &ty)", 1, "R4"),
                   ("syn::parse_quote! { root::__BindgenUnionField<#ty> }", "q_union_field_marker(true, &ty)", 1, "R4"),
                   ("syn::parse_quote! { __BindgenUnionField<#ty> }", "q_union_field_marker(false, &ty)", 1, "R4")],
         "ensures": [
             # C02: in a Rust union every member keeps the size and alignment of its C type (so the union has the C layout) ...
             "struct_layout.is_rust_union ==> ty_size(r) == ty_size(ty) && ty_align(r) == ty_align(ty) && final(result).saw_bindgen_union == old(result).saw_bindgen_union",
             # ... otherwise the member is a zero-sized marker (the storage is the blob appended by the tail of CompInfo::codegen)
             "!struct_layout.is_rust_union ==> ty_size(r) == 0 && ty_align(r) == 1 && final(result).saw_bindgen_union",
         ]},
    ],
}
