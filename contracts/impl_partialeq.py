"""Unit `impl_partialeq` (C08): the hand-written PartialEq compares every named bit-field of a unit."""
import os
ENV = os.path.join(os.path.dirname(os.path.dirname(os.path.abspath(__file__))), "env")

UNIT = {
    "name": "impl_partialeq",
    "env": [os.path.join(ENV, "impl_partialeq_env.rs")],
    "declared_trusted": {r"external_body": 16},
    "items": [
        # C08 ("a hand-written impl ... compares every field"): the Bitfields arm of gen_partialeq_impl (block R18): exactly one
        # `self.g() == other.g()` term per NAMED bit-field of the unit, in order - an unnamed (padding) bit-field is skipped,
        # it does not end the comparison
        {"kind": "fn", "file": "bindgen/codegen/impl_partialeq.rs", "name": "bitfield_unit_terms",
         "closure": {"enclosing": "gen_partialeq_impl", "anchor": "Field::Bitfields(ref bu) => {", "nth": 0,
                     "signature": "fn bitfield_unit_terms(bu: &BitfieldUnit, ctx: &BindgenContext, tokens: &mut Vec<Tok>)"},
         "subst": [
             (r"re:quote!\s*\{\s*self\.#name_ident\s*\(\)\s*==\s*other\.#name_ident\s*\(\)\s*\}", "q_getters_equal(&name_ident)", 1, "R4"),
             ("for bitfield in bu.bitfields()", "let mut it = SliceCursor::new(bu.bitfields()); while it.has_next()", 1, "R13"),
         ],
         "ghost_start": "let ghost t0 = tokens@; proof { assert(t0 + Seq::<Tok>::empty() =~= t0); }",
         "loops": {0: {"body_start": "let bitfield = it.next_item();", "decreases": "it.all().len() - it.pos()",
                       "invariant": ["it.all() == bu.s_bitfields() && 0 <= it.pos() <= it.all().len()",
                                     "tokens@ == t0 + terms(bu.s_bitfields().subrange(0, it.pos()))",
                                     "it.pos() == it.all().len() ==> tokens@ == t0 + terms(bu.s_bitfields())"],
                       "proof": "assert(bu.s_bitfields().subrange(0, it.pos()).drop_last() =~= bu.s_bitfields().subrange(0, it.pos() - 1)); if it.pos() == it.all().len() { assert(bu.s_bitfields().subrange(0, it.pos()) =~= bu.s_bitfields()); }"}},
         "ensures": ["final(tokens)@ == old(tokens)@ + terms(bu.s_bitfields())"]},
    ],
}
