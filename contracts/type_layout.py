"""Unit `type_layout` (C06, C02): Type::layout - where every size/alignment number bindgen asserts or pads with comes from."""
import os, importlib.util
HERE = os.path.dirname(os.path.abspath(__file__))
ENV = os.path.join(os.path.dirname(HERE), "env")
_sp = importlib.util.spec_from_file_location("contracts_trace_impls_for_type_layout", os.path.join(HERE, "trace_impls.py"))
_ti = importlib.util.module_from_spec(_sp); _sp.loader.exec_module(_ti)
# the IR declarations (real text) the trace_impls unit extracts: EdgeKind .. ItemKind, Field .. Method
DECLS = [it for it in _ti.UNIT["items"] if it["kind"] in ("enum", "struct") or it.get("label") == "cxcc"]
TY = "bindgen/ir/ty.rs"
TI = {"impl": r"^impl Type$", "impl_header": "impl Type", "impl_name": "Type"}

SPEC = """
// The numbers Type::layout may hand out for a type clang reported no layout for.  Each arm is a derivation that is
// exact in C; every other kind - a template instantiation clang never completed in particular, whose size is NOT
// that of its definition - has no known layout (and then no assertion is emitted and no padding computed from it).
pub open spec fn derived_layout(t: &Type, ctx: &BindgenContext) -> Option<Layout> {
    match t.kind {
        TypeKind::Comp(ci) => ci.s_layout(ctx),
        // a zero-length array occupies nothing and is as aligned as its element
        TypeKind::Array(inner, len) => if len == 0 { match ctx.s_type(inner).s_layout_of(ctx) {
            Some(l) => Some(Layout { size: 0, align: l.align, packed: false }), None => None } } else { None },
        TypeKind::Pointer(_) => Some(Layout { size: ctx.s_ptr_size(), align: ctx.s_ptr_size(), packed: false }),
        // a resolved reference IS the type it refers to
        TypeKind::ResolvedTypeRef(inner) => ctx.s_type(inner).s_layout_of(ctx),
        _ => None,
    }
}
"""

UNIT = {
    "name": "type_layout",
    "env": [os.path.join(ENV, "trace_impls_env.rs"), os.path.join(ENV, "type_layout_env.rs")],
    "declared_trusted": {r"external_body": 56},
    "items": DECLS + [
        {"kind": "fn", "file": "bindgen/ir/layout.rs", "name": "new", "impl": r"^impl Layout$", "impl_header": "impl Layout", "impl_name": "Layout", "ret": "r",
         "ensures": ["r == (Layout { size: size, align: align, packed: false })"]},
        {"kind": "fn", "file": "bindgen/ir/template.rs", "name": "template_definition", "impl": r"^impl TemplateInstantiation$", "impl_header": "impl TemplateInstantiation", "impl_name": "TemplateInstantiation", "ret": "r",
         "ensures": ["r == self.definition"]},
        {"kind": "raw", "label": "type_layout_spec", "text": SPEC},
        {"kind": "fn", "file": TY, "name": "layout", **TI, "ret": "r",
         # R31: the function under contract gets its own name; its recursive calls go to the env's Type::layout (callee contract)
         "rename": "layout_of", "rename_tag": "",
         "subst": [
             # the function under contract gets its own name; its recursive calls go to the env's Type::layout (callee contract)
             ("self.layout.or_else(|| {", "match self.layout { Some(l0) => Some(l0), None => {", 1, "R7 Option::or_else"),
             (r"re:\}\)\s*\}\s*$", "}} }", 1, "R7 Option::or_else (close)"),
         ],
         "ensures": [
             # C06: what clang computed for the type is passed on unchanged ...
             "self.layout.is_some() ==> r == self.layout",
             # ... and where clang computed nothing, only the exact derivations - otherwise nothing
             "self.layout.is_none() ==> r == derived_layout(self, ctx)",
         ]},
        {"kind": "fn", "file": TY, "name": "new", **TI, "ret": "r",
         "ensures": ["r.name == name && r.layout == layout && r.kind == kind && r.is_const == is_const"]},
        # C06 ("every template instantiation with concrete arguments ... gets a size and alignment assertion [with] what the C/C++
        # compiler computes"): the item BindgenContext::instantiate_template creates for an instantiation stores the layout clang
        # computes for the instantiation's OWN type (let-statement R18) - not that of the cursor it was found at
        {"kind": "fn", "file": "bindgen/ir/context.rs", "name": "instantiation_type", "impl": r"^impl BindgenContext$", "impl_nth": 0, "ret": "r",
         "closure": {"enclosing": "instantiate_template", "anchor_re": r"(?m)^\s*let ty = Type::new\(", "nth": 0, "stmt": "let",
                     "signature": "fn instantiation_type(self_: &BindgenContext, name: Option<String>, ty: &clang::Type, location: Cursor, type_kind: TypeKind) -> (r: Type)",
                     "prefix": "{", "suffix": "; ty }"},
         "subst": [(r"re:(?<![\w.])self(?![\w(:])", "self_", 0, "R18 captured self")],
         "ensures": [
             "r.layout == (match ty.s_fallible_layout(self_) { Ok(l) => Some(l), Err(_) => None })",
             "r.kind == type_kind && r.is_const == ty.s_const() && r.name == name",
         ]},
    ],
}
