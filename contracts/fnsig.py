"""Unit `fnsig` (C04): lowering of parameter and return types."""
import os
ENV = os.path.join(os.path.dirname(os.path.dirname(os.path.abspath(__file__))), "env")
CG = "bindgen/codegen/mod.rs"

SPEC = """
// C11 6.7.6.3p7: a parameter declared "array of T" is adjusted to "qualified pointer to T";
// every other parameter keeps its type (an Objective-C interface pointer is named directly)
pub open spec fn expected_arg(ctx: &BindgenContext, ty: TypeId) -> Tok {
    let it = ctx.s_item(ty.0);
    let aty = it.s_kind().s_type();
    match aty.s_canonical(ctx).s_kind() {
        TypeKind::Array(t, _) => tok_ptr(
            if ctx.spec_options().array_pointers_in_arguments { tok_of_ty_item(ctx, &aty, &it) } else { tok_of_type(ctx, t) },
            ctx.s_type(t).s_const() || aty.s_const()),
        TypeKind::Pointer(inner) => match ctx.s_item(inner.0).s_kind().s_type().s_canonical(ctx).s_kind() {
            TypeKind::ObjCInterface(i) => tok_ident(i.s_name()),
            _ => tok_of_item(ctx, &it),
        },
        _ => tok_of_item(ctx, &it),
    }
}
// noreturn functions return `!`, void functions `()`, everything else its own type
pub open spec fn expected_ret(ctx: &BindgenContext, sig: &FunctionSig) -> Tok {
    if sig.s_divergent() { tok_never() }
    else if ctx.s_resolved_kind(sig.s_return()) is Void { tok_unit() }
    else { tok_of_type(ctx, sig.s_return()) }
}
"""

UNIT = {
    "name": "fnsig",
    "env": [os.path.join(ENV, "fnsig_env.rs")],
    "declared_trusted": {r"external_body": 33},
    "items": [
        {"kind": "enum", "file": "bindgen/ir/ty.rs", "name": "TypeKind"},
        {"kind": "raw", "label": "spec", "text": SPEC},
        {"kind": "fn", "file": CG, "name": "fnsig_argument_type", "ret": "r",
         "subst": [("syn::Type", "Tok", 1, "R4"), ("use super::ToPtr;", "", 1, "R3"),
                   ("syn::parse_quote! { #name }", "mk_ident_ty(&name)", 1, "R4")],
         "ensures": ["r == expected_arg(ctx, ty)"]},
        {"kind": "fn", "file": CG, "name": "fnsig_return_ty_internal", "ret": "r",
         "subst": [("syn::Type", "Tok", 1, "R4"), ("syn::parse_quote! { ! }", "mk_never()", 1, "R4"), ("syn::parse_quote! { () }", "mk_unit()", 1, "R4"),
                   ("sig .return_type() .into_resolver() .through_type_refs() .through_type_aliases() .resolve(ctx) .kind() .expect_type() .kind()", "ctx.resolved_kind_of(sig.return_type())", 1, "R5")],
         "ensures": ["r == expected_ret(ctx, sig)"]},
    ],
}
