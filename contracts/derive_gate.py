"""Unit `derive_gate` (C08): option gating and Eq/Ord float exclusion."""
import os
ENV = os.path.join(os.path.dirname(os.path.dirname(os.path.abspath(__file__))), "env")
CX = "bindgen/ir/context.rs"


def gate(trait, fn, opt, lookup, extra=""):
    return {"kind": "fn", "file": CX, "name": fn, "impl": r"^impl<T> %s for T where" % trait,
            "impl_header": "impl ItemId", "impl_name": trait, "ret": "r",
            # property C08: derived exactly when option enabled AND analysis says yes (AND no float for Eq/Ord):
            # "never when ..." (=>) and "never withheld" (<=)
            "ensures": ["r == (ctx.spec_options().%s && %s%s)" % (opt, lookup, extra)]}


UNIT = {
    "name": "derive_gate",
    "env": [os.path.join(ENV, "derive_gate_env.rs")],
    "declared_trusted": {r"external_body": 8},
    "items": [
        {"kind": "enum", "file": "bindgen/ir/derive.rs", "name": "CanDerive", "prefix": "#[derive(Copy, Clone, PartialEq, Eq, Structural)]"},
        gate("CanDeriveDebug", "can_derive_debug", "derive_debug", "ctx.s_debug(*self)"),
        gate("CanDeriveDefault", "can_derive_default", "derive_default", "ctx.s_default(*self)"),
        gate("CanDeriveCopy", "can_derive_copy", "derive_copy", "ctx.s_copy(*self)"),
        gate("CanDeriveHash", "can_derive_hash", "derive_hash", "ctx.s_hash(*self)"),
        gate("CanDerivePartialOrd", "can_derive_partialord", "derive_partialord", "ctx.s_peq_or_pord(*self) == CanDerive::Yes"),
        gate("CanDerivePartialEq", "can_derive_partialeq", "derive_partialeq", "ctx.s_peq_or_pord(*self) == CanDerive::Yes"),
        gate("CanDeriveEq", "can_derive_eq", "derive_eq", "ctx.s_peq_or_pord(*self) == CanDerive::Yes", " && !ctx.s_has_float(*self)"),
        gate("CanDeriveOrd", "can_derive_ord", "derive_ord", "ctx.s_peq_or_pord(*self) == CanDerive::Yes", " && !ctx.s_has_float(*self)"),
    ],
}
