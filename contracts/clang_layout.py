"""Unit `clang_layout` (C02, C06): sizes, alignments and field offsets as read back from libclang."""
import os
ENV = os.path.join(os.path.dirname(os.path.dirname(os.path.abspath(__file__))), "env")
CL = "bindgen/clang.rs"
CU = {"impl": r"^impl Cursor$", "impl_header": "impl Cursor", "impl_name": "Cursor"}
TY = {"impl": r"^impl Type$", "impl_header": "impl Type", "impl_name": "Type"}

SPEC = """
// the number libclang (= the C compiler) reports for this type, with bindgen's two documented work-arounds
pub open spec fn c_size_of(t: &Type, ctx: &BindgenContext) -> int {
    if ffi_type_kind(t.x) == CXType_RValueReference || ffi_type_kind(t.x) == CXType_LValueReference { ctx.s_ptr_size() as int }
    else if ffi_type_kind(t.x) == CXType_Auto && t.s_non_deductible_auto() { -6 } else { ffi_size_of(t.x) as int }
}
pub open spec fn c_align_of(t: &Type, ctx: &BindgenContext) -> int {
    if ffi_type_kind(t.x) == CXType_RValueReference || ffi_type_kind(t.x) == CXType_LValueReference { ctx.s_ptr_size() as int }
    else if ffi_type_kind(t.x) == CXType_Auto && t.s_non_deductible_auto() { -6 } else { ffi_align_of(t.x) as int }
}
"""

UNIT = {
    "name": "clang_layout",
    "env": [os.path.join(ENV, "clang_layout_env.rs")],
    "declared_trusted": {r"external_body": 8},
    "items": [
        {"kind": "enum", "file": CL, "name": "LayoutError", "prefix": "#[derive(Copy, Clone, PartialEq, Eq, Structural)]"},
        {"kind": "raw", "label": "clang_layout_spec", "text": SPEC},
        # C06/C02: a member's offset is clang's 64-bit bit offset, for EVERY non-negative value (no truncation)
        {"kind": "fn", "file": CL, "name": "offset_of_field", **CU, "ret": "r",
         "subst": [("unsafe {", "{", 1, "R20")],
         "ensures": ["ffi_offset_of_field(self.x) >= 0 ==> r == Ok::<usize, LayoutError>(ffi_offset_of_field(self.x) as usize)",
                     "ffi_offset_of_field(self.x) < 0 ==> r is Err"]},
        {"kind": "fn", "file": CL, "name": "clang_size_of", **TY, "ret": "r",
         "subst": [("unsafe {", "{", 1, "R20")],
         "ensures": ["r as int == c_size_of(self, ctx)"]},
        {"kind": "fn", "file": CL, "name": "clang_align_of", **TY, "ret": "r",
         "subst": [("unsafe {", "{", 1, "R20")],
         "ensures": ["r as int == c_align_of(self, ctx)"]},
        {"kind": "fn", "file": CL, "name": "size", **TY, "ret": "r",
         "ensures": ["r as int == (if c_size_of(self, ctx) < 0 { 0 } else { c_size_of(self, ctx) })"]},
        {"kind": "fn", "file": CL, "name": "fallible_size", **TY, "ret": "r",
         "ensures": ["c_size_of(self, ctx) >= 0 ==> r == Ok::<usize, LayoutError>(c_size_of(self, ctx) as usize)", "c_size_of(self, ctx) < 0 ==> r is Err"]},
        {"kind": "fn", "file": CL, "name": "align", **TY, "ret": "r",
         "ensures": ["r as int == (if c_align_of(self, ctx) < 0 { 0 } else { c_align_of(self, ctx) })"]},
        {"kind": "fn", "file": CL, "name": "fallible_align", **TY, "ret": "r",
         "ensures": ["c_align_of(self, ctx) >= 0 ==> r == Ok::<usize, LayoutError>(c_align_of(self, ctx) as usize)", "c_align_of(self, ctx) < 0 ==> r is Err"]},
        {"kind": "fn", "file": CL, "name": "fallible_layout", **TY, "ret": "r",
         "subst": [("crate::ir::layout::Layout", "crate_ir_layout::Layout", 2, "module path")],
         "ensures": ["(c_size_of(self, ctx) >= 0 && c_align_of(self, ctx) >= 0) ==> r is Ok && r->Ok_0.size == c_size_of(self, ctx) && r->Ok_0.align == c_align_of(self, ctx)",
                     "(c_size_of(self, ctx) < 0 || c_align_of(self, ctx) < 0) ==> r is Err"]},
    ],
}
