"""Unit `macro_type` (C05): integer kind chosen for a macro constant, and the
sign/size tables of IntKind."""
import os
ENV = os.path.join(os.path.dirname(os.path.dirname(os.path.abspath(__file__))), "env")
IK = {"impl": r"^impl IntKind$", "impl_header": "impl IntKind", "impl_name": "IntKind"}

SPEC = """
// Independent C-model table (from the kinds' NAMES, C11 6.2.5 / stdint.h), not from int.rs:
// bits of the fixed-width kinds, None for the platform-dependent ones
pub open spec fn kind_bits(k: IntKind) -> Option<int> {
    match k {
        IntKind::Bool | IntKind::SChar | IntKind::UChar | IntKind::Char { .. } | IntKind::I8 | IntKind::U8 => Some(8),
        IntKind::I16 | IntKind::U16 | IntKind::Char16 => Some(16),
        IntKind::I32 | IntKind::U32 => Some(32),
        IntKind::I64 | IntKind::U64 => Some(64),
        IntKind::I128 | IntKind::U128 => Some(128),
        _ => None,
    }
}
pub open spec fn kind_signed(k: IntKind) -> bool {
    match k {
        IntKind::SChar | IntKind::Short | IntKind::Int | IntKind::Long | IntKind::LongLong
        | IntKind::I8 | IntKind::I16 | IntKind::I32 | IntKind::I64 | IntKind::I128 => true,
        IntKind::Char { is_signed } => is_signed,
        IntKind::Custom { is_signed, .. } => is_signed,
        _ => false,
    }
}
pub open spec fn pow2i(n: int) -> int decreases n { if n <= 0 { 1 } else { 2 * pow2i(n - 1) } }
// can a two's-complement / unsigned integer of this kind hold v?
pub open spec fn kind_holds(k: IntKind, v: int) -> bool {
    kind_bits(k).is_some() && (if kind_signed(k) { -pow2i(kind_bits(k).unwrap() - 1) <= v < pow2i(kind_bits(k).unwrap() - 1) }
                               else { 0 <= v < pow2i(kind_bits(k).unwrap()) })
}
pub proof fn lemma_pow2i()
    ensures pow2i(7) == 128, pow2i(8) == 256, pow2i(15) == 32768, pow2i(16) == 65536,
            pow2i(31) == 2147483648, pow2i(32) == 4294967296, pow2i(63) == 9223372036854775808, pow2i(64) == 18446744073709551616,
{
    reveal_with_fuel(pow2i, 65);
}
"""

UNIT = {
    "name": "macro_type",
    "env": [os.path.join(ENV, "macro_type_env.rs")],
    "declared_trusted": {r"external_body": 2, r"assume_specification": 3},
    "items": [
        {"kind": "enum", "file": "bindgen/codegen/mod.rs", "name": "MacroTypeVariation", "prefix": "#[derive(Copy, Clone, PartialEq, Eq, Structural)]"},
        {"kind": "enum", "file": "bindgen/ir/int.rs", "name": "IntKind", "prefix": "#[derive(Copy, Clone, PartialEq, Eq)]"},
        {"kind": "raw", "label": "macro_type_spec", "text": SPEC},
        {"kind": "fn", "file": "bindgen/ir/int.rs", "name": "is_signed", **IK, "ret": "r",
         "ensures": ["r == kind_signed(*self)"]},
        {"kind": "fn", "file": "bindgen/ir/int.rs", "name": "known_size", **IK, "ret": "r",
         "ensures": [
             "r.is_some() == kind_bits(*self).is_some()",
             "r.is_some() ==> r.unwrap() * 8 == kind_bits(*self).unwrap()",
         ]},
        {"kind": "fn", "file": "bindgen/ir/var.rs", "name": "default_macro_constant_type", "ret": "r",
         "ensures": [
             # property C05: "a Rust type that can represent that value with the same sign"
             "kind_holds(r, value as int)",
             "kind_signed(r) == (value < 0 || ctx.spec_options().default_macro_constant_type == MacroTypeVariation::Signed)",
             # fit-macro-constant-types: the narrowest such kind; otherwise 32 or 64 bits
             "ctx.spec_options().fit_macro_constants ==> forall|k: IntKind| #![auto] kind_signed(k) == kind_signed(r) && kind_holds(k, value as int) ==> kind_bits(k).unwrap() >= kind_bits(r).unwrap()",
             "!ctx.spec_options().fit_macro_constants ==> (kind_bits(r) == Some(32int) || kind_bits(r) == Some(64int))",
             "!ctx.spec_options().fit_macro_constants && kind_bits(r) == Some(64int) ==> (if kind_signed(r) { !(-2147483648 <= value <= 2147483647) } else { !(0 <= value <= 4294967295) })",
         ],
         "proof_start": "lemma_pow2i();"},
        # Enum::codegen: the width the translation starts from: the SIZE clang reports for the enum (let-statement, R18)
        {"kind": "fn", "file": "bindgen/codegen/mod.rs", "name": "enum_repr_size", "impl": r"^impl CodeGenerator for Enum$", "ret": "r",
         "closure": {"enclosing": "codegen", "anchor": "let size = layout", "nth": 0, "stmt": "let",
                     "signature": "fn enum_repr_size(layout: Option<Layout>, kind: IntKind, signed: bool) -> (r: usize)", "prefix": "{", "suffix": "; size }"},
         "subst": [(r"re:layout\s*\.map\(\|l\|\s*([^)]+?)\)\s*\.or_else\(\|\|\s*([^;]+?\(\))\)\s*\.unwrap_or\((\w+)\)",
                    r"(match layout { Some(l) => \1, None => match \2 { Some(s_) => s_, None => \3 } })", 1, "R7 Option::map / or_else / unwrap_or")],
         "ensures": [
             # C05: "their enum type keeps the underlying width": the byte size of the C enum, not its alignment (they differ for
             # 64-bit enums on i686)
             "layout.is_some() ==> r == layout.unwrap().size",
         ]},
        # Enum::codegen: the Rust integer type an enum's representation is translated to (let-statement, R18)
        {"kind": "fn", "file": "bindgen/codegen/mod.rs", "name": "translated_enum_repr", "impl": r"^impl CodeGenerator for Enum$", "ret": "r",
         "closure": {"enclosing": "codegen", "anchor": "let translated = match (signed, size) {", "nth": 0, "stmt": "let",
                     "signature": "fn translated_enum_repr(signed: bool, size: usize) -> (r: IntKind)", "prefix": "{", "suffix": "; translated }"},
         "ensures": [
             # C05: "their enum type keeps the underlying width and signedness"
             "(size == 1 || size == 2 || size == 4 || size == 8) ==> kind_bits(r) == Some(8 * size as int) && kind_signed(r) == signed",
         ]},
    ],
}
