"""Unit `deps` (C07 ii): which reverse-dependency edges are recorded."""
import os
ENV = os.path.join(os.path.dirname(os.path.dirname(os.path.abspath(__file__))), "env")
AM = "bindgen/ir/analysis/mod.rs"
TP = "bindgen/ir/analysis/template_params.rs"
TV = "bindgen/ir/traversal.rs"

# `dependencies.entry(K).or_insert_with(Vec::new).push(V);` -> `map_push(dependencies, K, V);` with K and V taken from the source
PUSH = r"re:dependencies\s*\.entry\((\w+)\)\s*\.or_insert_with\(Vec::new\)\s*\.push\((\w+)\);"
PUSH_NEW = r"map_push(dependencies, \1, \2);"

UNIT = {
    "name": "deps",
    "env": [os.path.join(ENV, "deps_env.rs")],
    "declared_trusted": {r"external_body": 10},
    "items": [
        {"kind": "enum", "file": TV, "name": "EdgeKind", "prefix": "#[derive(Copy, Clone, PartialEq, Eq, Structural)]"},
        # generate_dependencies: for every allowlisted item, every edge item -> sub_item the analysis subscribes to,
        # with an allowlisted target, is recorded reversed (sub_item -> item): "who has to be re-examined when sub_item changes"
        {"kind": "fn", "file": AM, "name": "record_dependency", "ret": "r_unit",
         "closure": {"enclosing": "generate_dependencies", "anchor": "&mut |sub_item: ItemId, edge_kind| {", "nth": 0,
                     "signature": "fn record_dependency(ctx: &BindgenContext, consider_edge: &EdgeFilter, dependencies: &mut HashMap<ItemId, Vec<ItemId>>, item: ItemId, sub_item: ItemId, edge_kind: EdgeKind)"},
         "subst": [("consider_edge(edge_kind)", "consider_edge.call(edge_kind)", 1, "R12 generic Fn argument"),
                   (PUSH, PUSH_NEW, 1, "R17")],
         "ensures": [
             "(ctx.s_allowlisted().s_contains(sub_item) && consider_edge.s(edge_kind)) ==> deps_at(final(dependencies).view(), sub_item) == deps_at(old(dependencies).view(), sub_item).push(item)",
             "!(ctx.s_allowlisted().s_contains(sub_item) && consider_edge.s(edge_kind)) ==> final(dependencies).view() == old(dependencies).view()",
             "forall|j: ItemId| j != sub_item ==> deps_at(final(dependencies).view(), j) == deps_at(old(dependencies).view(), j)",
         ]},
        # UsedTemplateParameters::new: EVERY traced edge is recorded, whatever its kind: constrain_instantiation reads the
        # template definition's set through a TemplateDeclaration edge, which the analysis' consider_edge (the join
        # predicate) deliberately rejects
        {"kind": "fn", "file": TP, "name": "consider_edge", "impl": r"^impl UsedTemplateParameters<'_>$", "impl_header": "impl UsedTemplateParameters", "impl_name": "UsedTemplateParameters", "ret": "r",
         "ensures": ["kind == EdgeKind::TemplateDeclaration ==> !r"]},
        {"kind": "fn", "file": TP, "name": "record_usage_dependency", "impl": r"^impl<'ctx> MonotoneFramework for UsedTemplateParameters<'ctx>$", "impl_header": "impl UsedTemplateParameters", "impl_name": "UsedTemplateParameters", "ret": "r_unit",
         "closure": {"enclosing": "new", "anchor_re": r"&mut\s*\|sub_item:\s*ItemId,\s*\w+\|\s*\{", "nth": 0,
                     "signature": "fn record_usage_dependency(used: &mut HashMap<ItemId, Option<ItemSet>>, dependencies: &mut HashMap<ItemId, Vec<ItemId>>, item: ItemId, sub_item: ItemId, edge_kind: EdgeKind)"},
         "subst": [("used.entry(sub_item) .or_insert_with(|| Some(ItemSet::new()));", "map_ensure(used, sub_item);", 1, "R17"),
                   (PUSH, PUSH_NEW, 1, "R17")],
         "ensures": [
             "deps_at(final(dependencies).view(), sub_item) == deps_at(old(dependencies).view(), sub_item).push(item)",
             "forall|j: ItemId| j != sub_item ==> deps_at(final(dependencies).view(), j) == deps_at(old(dependencies).view(), j)",
             "final(used).view().contains_key(sub_item)",
         ]},
    ],
}
