"""Unit `vouch` (C10): "Traits are not derived through a blocklisted type unless the user vouches for it"."""
import os
ENV = os.path.join(os.path.dirname(os.path.dirname(os.path.abspath(__file__))), "env")
CX = "bindgen/ir/context.rs"

SPEC = """
// who vouches for a blocklisted type called `name`: with no callbacks registered, bindgen itself for the <stdint.h>
// names it maps to primitives (and nobody otherwise); with callbacks, the user's answer (None = no answer)
pub open spec fn s_vouch(ctx: &BindgenContext, name: &str, t: DeriveTrait) -> Option<CanDerive> {
    if ctx.options.parse_callbacks.n == 0 { Some(if ctx.s_is_stdint(name) { CanDerive::Yes } else { CanDerive::No }) }
    else { ctx.options.s_user_vouches(name, t) }
}
"""

UNIT = {
    "name": "vouch",
    "env": [os.path.join(ENV, "vouch_env.rs")],
    "declared_trusted": {r"external_body": 7},
    "items": [
        {"kind": "enum", "file": "bindgen/ir/derive.rs", "name": "CanDerive", "prefix": "#[derive(Copy, Clone, PartialEq, Eq, Structural)]"},
        {"kind": "enum", "file": "bindgen/ir/analysis/derive.rs", "name": "DeriveTrait", "prefix": "#[derive(Copy, Clone, PartialEq, Eq, Structural)]"},
        {"kind": "raw", "label": "vouch_spec", "text": SPEC},
        {"kind": "fn", "file": CX, "name": "vouch_for_name", "impl": r"^impl BindgenContext$", "ret": "r",
         "closure": {"enclosing": "blocklisted_type_implements_trait", "anchor": ".and_then(|name| {", "nth": 0,
                     "signature": "fn vouch_for_name(self_: &BindgenContext, name: &str, derive_trait: DeriveTrait) -> (r: Option<CanDerive>)"},
         "subst": [("self.options.last_callback(|cb| { cb.blocklisted_type_implements_trait( name, derive_trait, ) })", "self_.options.last_callback_vouch(name, derive_trait)", 1, "R5 callback dispatch"),
                   ("self", "self_", 2, "R18 captured self")],
         "ensures": ["r == s_vouch(self_, name, derive_trait)"]},
        {"kind": "fn", "file": CX, "name": "implements_trait_uncached", "impl": r"^impl BindgenContext$", "ret": "r",
         "closure": {"enclosing": "blocklisted_type_implements_trait", "anchor": ".or_insert_with(|| {", "nth": 0,
                     "signature": "fn implements_trait_uncached(self_: &BindgenContext, item: &Item, derive_trait: DeriveTrait) -> (r: CanDerive)"},
         "subst": [("item.expect_type()", "opt_and_then_vouch(item.expect_type()", 1, "R7 (with the next entry)"),
                   ((".and_then(|name| {", "}) .unwrap_or("), ", self_, derive_trait).unwrap_or(", 1, "R7: the closure is the function vouch_for_name above; the default value stays the source's")],
         "ensures": [
             # never derivable through a blocklisted type unless somebody vouched
             "r != CanDerive::No ==> item.s_type().s_name().is_some() && s_vouch(self_, item.s_type().s_name().unwrap(), derive_trait) == Some(r)",
             "r == (match item.s_type().s_name() { Some(n) => match s_vouch(self_, n, derive_trait) { Some(v) => v, None => CanDerive::No }, None => CanDerive::No })",
         ]},
    ],
}
