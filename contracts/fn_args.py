"""Unit `fn_args` (C04): a function type gets ITS OWN parameters -- not those of a declaration it is nested in (defect F21)."""
import os
ENV = os.path.join(os.path.dirname(os.path.dirname(os.path.abspath(__file__))), "env")
FN = "bindgen/ir/function.rs"

SPEC = """
pub open spec fn is_fn_kind(k: CXTypeKind) -> bool { k == CXType_FunctionProto || k == CXType_FunctionNoProto }
pub open spec fn is_ptr_kind(k: CXTypeKind) -> bool { k == CXType_Pointer || k == CXType_LValueReference || k == CXType_RValueReference || k == CXType_MemberPointer || k == CXType_BlockPointer }
pub open spec fn is_arr_kind(k: CXTypeKind) -> bool { k == CXType_ConstantArray || k == CXType_IncompleteArray || k == CXType_VariableArray || k == CXType_DependentSizedArray }
// the (canonical) type `t` of the declared entity ends, behind pointers / references / arrays, in a function type that is not `ty`
pub open spec fn ends_in_other_fn(t: clang::Type, ty: clang::Type) -> bool
    decreases clang::s_cdepth(t)
{
    let k = clang::s_kind(t);
    if is_fn_kind(k) { !clang::s_same(t, clang::s_canonical(ty)) }
    else if is_ptr_kind(k) { match clang::s_pointee(t) { Some(p) => if clang::s_cdepth(p) < clang::s_cdepth(t) { ends_in_other_fn_c(p, ty, clang::s_cdepth(t)) } else { false }, None => false } }
    else if is_arr_kind(k) { match clang::s_elem(t) { Some(p) => if clang::s_cdepth(p) < clang::s_cdepth(t) { ends_in_other_fn_c(p, ty, clang::s_cdepth(t)) } else { false }, None => false } }
    else { false }
}
// ... continued at the canonical form of a component (same depth measure)
pub open spec fn ends_in_other_fn_c(p: clang::Type, ty: clang::Type, bound: nat) -> bool
    decreases bound, 0nat
    when clang::s_cdepth(p) < bound
{
    if clang::s_cdepth(clang::s_canonical(p)) == clang::s_cdepth(p) { ends_in_other_fn(clang::s_canonical(p), ty) } else { false }
}
pub open spec fn len_or_0<T>(o: Option<Seq<T>>) -> int { match o { Some(s) => s.len() as int, None => 0 } }
"""

UNIT = {
    "name": "fn_args",
    "env": [os.path.join(ENV, "fn_args_env.rs")],
    "declared_trusted": {r"external_body": 19},
    "items": [
        {"kind": "raw", "label": "spec", "text": SPEC},
        {"kind": "fn", "file": FN, "name": "cursor_declares_other_function", "ret": "r",
         "subst": [("use clang_sys::*;", "", 1, "module import"),
                   ("cursor_ty != ty.canonical_type()", "clang::type_ne(&cursor_ty, &ty.canonical_type())", 1, "R21 <Type as PartialEq>::ne = clang_equalTypes")],
         "loops": {0: {"invariant": ["ends_in_other_fn(cursor_ty, *ty) == ends_in_other_fn(clang::s_canonical(clang::s_cur_type(*cursor)), *ty)"],
                       "decreases": "clang::s_cdepth(cursor_ty)"}},
         "ensures": ["r == ends_in_other_fn(clang::s_canonical(clang::s_cur_type(*cursor)), *ty)"]},
        # the argument list of a function type: names from the cursor's arguments (when they are this type's), types from the type
        {"kind": "fn", "file": FN, "name": "args_from_ty_and_cursor", "ret": "r",
         "attrs": "#[verifier::exec_allows_no_decreases_clause]",
         "subst": [
             ("Vec<(Option<String>, TypeId)>", "Vec<(ArgName, TypeId)>", 1, "R4 opaque name"),
             (("let cursor_args = if use_cursor_args { cursor.args().unwrap_or_default() } else { vec![] }", ".into_iter();"),
              "let cursor_args: Vec<clang::Cursor> = if use_cursor_args { vec_or_empty(cursor.args()) } else { Vec::new() };", 1, "R29 (the iterator is the vector it is made from); Option::unwrap_or_default"),
             ("let type_args = ty.args().unwrap_or_default().into_iter();", "let type_args: Vec<clang::Type> = vec_or_empty(ty.args());", 1, "R29 (same)"),
             (("cursor_args .map(Some) .chain(std::iter::repeat(None)) .zip(type_args.map(Some).chain(std::iter::repeat(None)))", ".take_while("),
              "let mut out_: Vec<(ArgName, TypeId)> = Vec::new(); let mut i_: usize = 0; "
              "loop invariant i_ <= cursor_args.len() || i_ <= type_args.len(), out_@.len() == i_, "
              "forall|j: int| 0 <= j < i_ && j < type_args@.len() ==> (#[trigger] out_@[j]).1 == Item::s_type_of(type_args@[j]), "
              "forall|j: int| 0 <= j < i_ && j >= type_args@.len() ==> (#[trigger] out_@[j]).1 == Item::s_type_of(clang::s_cur_type(cursor_args@[j])) "
              "ensures out_@.len() == (if cursor_args@.len() >= type_args@.len() { cursor_args@.len() } else { type_args@.len() }), "
              "forall|j: int| 0 <= j < type_args@.len() ==> (#[trigger] out_@[j]).1 == Item::s_type_of(type_args@[j]), "
              "forall|j: int| type_args@.len() <= j < out_@.len() ==> (#[trigger] out_@[j]).1 == Item::s_type_of(clang::s_cur_type(cursor_args@[j])) "
              "{ let pair_ = (if i_ < cursor_args.len() { Some(cursor_args[i_]) } else { None }, if i_ < type_args.len() { Some(type_args[i_]) } else { None }); let keep_ = (", 1,
              "R29 `a.map(Some).chain(repeat(None)).zip(b.map(Some).chain(repeat(None))).take_while(P).map(F).collect()` -> index loop over the padded pairs (head; P follows)"),
             (r"re:\|\(cur, ty\)\|\s*(.+?)\)\s*\.map\(\|\(arg_cur, arg_ty\)\|\s*\{", r"{ let (cur, ty) = &pair_; \1 }); if !keep_ { break; } i_ = i_ + 1; let (arg_cur, arg_ty) = pair_; out_.push({", 1,
              "R29 (P's body verbatim, evaluated on the pair; F's body follows verbatim)"),
             (("let name = arg_cur.map(|a| a.spelling()).and_then(|name| {", "});"), "let name = arg_name_of(arg_cur);", 1, "R4 opaque name"),
             (r"re:arg_ty\.unwrap_or_else\(\|\|\s*([^;]+?)\);", r"(match arg_ty { Some(t_) => t_, None => \1 });", 1, "R7 Option::unwrap_or_else (fallback expression verbatim)"),
             ("arg_cur.unwrap_or(*cursor)", "(match arg_cur { Some(c_) => c_, None => *cursor })", 1, "R7"),
             ("}) .collect()", "}); } out_", 1, "R29 (closing)"),
         ],
         "ensures": [
             # ARITY (C04): one entry per parameter of the function type, more only when the cursor's own arguments say so
             "r@.len() == (if len_or_0(clang::s_type_args(*ty)) >= (if use_cursor_args { len_or_0(clang::s_cursor_args(*cursor)) } else { 0 }) { len_or_0(clang::s_type_args(*ty)) } else { len_or_0(clang::s_cursor_args(*cursor)) })",
             "!use_cursor_args ==> r@.len() == len_or_0(clang::s_type_args(*ty))",
             # TYPES (C04): the i-th parameter has the i-th parameter type of the function type
             "clang::s_type_args(*ty).is_some() ==> forall|j: int| 0 <= j < clang::s_type_args(*ty).unwrap().len() ==> (#[trigger] r@[j]).1 == Item::s_type_of(clang::s_type_args(*ty).unwrap()[j])",
         ]},

        # ---- FunctionSig::from_ty: which of the two sources it uses
        {"kind": "fn", "file": FN, "name": "parm_decl_visitor", "impl": r"^impl FunctionSig$", "ret": "r",
         "closure": {"enclosing": "from_ty", "anchor": "cursor.visit(|c| {", "nth": 0,
                     "signature": "fn parm_decl_visitor(c: clang::Cursor, args: &mut Vec<(ArgName, TypeId)>, ctx: &mut BindgenContext) -> (r: CXChildVisitResult)"},
         "subst": [("name.is_empty()", "string_is_empty(&name)", 1, "R21")],
         "ensures": [
             # only the DIRECT children are this declarator's parameters: recursing would collect the parameters of its function-pointer parameters
             "r == CXChildVisit_Continue",
             "clang::s_ckind(c) == CXCursor_ParmDecl ==> final(args)@.len() == old(args)@.len() + 1 && final(args)@.subrange(0, old(args)@.len() as int) == old(args)@ && final(args)@.last().1 == Item::s_type_of(clang::s_cur_type(c))",
             "clang::s_ckind(c) != CXCursor_ParmDecl ==> final(args)@ == old(args)@",
         ]},
        {"kind": "fn", "file": FN, "name": "is_own_cursor", "impl": r"^impl FunctionSig$", "ret": "r",
         "closure": {"enclosing": "from_ty", "anchor": "let is_own_cursor =", "nth": 0, "stmt": "let",
                     "signature": "fn is_own_cursor(ty: &clang::Type, cursor: clang::Cursor, kind: CXCursorKind, ctx: &mut BindgenContext) -> (r: bool)",
                     "prefix": "{", "suffix": "; is_own_cursor }"},
         "ensures": ["r == !ends_in_other_fn(clang::s_canonical(clang::s_cur_type(cursor)), *ty)"]},
        {"kind": "fn", "file": FN, "name": "args_of_signature", "impl": r"^impl FunctionSig$", "ret": "r",
         "closure": {"enclosing": "from_ty", "anchor": "let mut args = match kind {", "nth": 0, "stmt": "let",
                     "signature": "fn args_of_signature(ty: &clang::Type, cursor: clang::Cursor, kind: CXCursorKind, is_own_cursor: bool, ctx: &mut BindgenContext) -> (r: Vec<(ArgName, TypeId)>)",
                     "prefix": "{", "suffix": "; args }"},
         "subst": [
             ("let mut args = vec![];", "let mut args: Vec<(ArgName, TypeId)> = Vec::new();", 1, "R14 type annotation on vec![]"),
             (("cursor.visit(|c| {", "});"), "visit_children(&cursor, &mut args, ctx);", 1, "R5 libclang child visitor (its callback is parm_decl_visitor above)"),
             (r"re:ty\s*\.args\(\)\s*\.map_or\(true,\s*\|type_args\|\s*([^;]+?)\);", r"(match ty.args() { Some(type_args) => \1, None => true });", 1, "R7 Option::map_or"),
         ],
         "requires": [
             # libclang: clang_Cursor_getNumArguments is -1 (here: nothing) for cursors that are not function or method declarations
             "!(kind == CXCursor_FunctionDecl || kind == CXCursor_Constructor || kind == CXCursor_CXXMethod || kind == CXCursor_ObjCInstanceMethodDecl || kind == CXCursor_ObjCClassMethodDecl) ==> len_or_0(clang::s_cursor_args(cursor)) == 0",
         ],
         "ensures": [
             # ARITY (C04, defect F21): a prototype gets exactly as many parameters as it declares -- unless the cursor is this very
             # function's declaration and lists more (Objective-C methods, whose type has no parameter list)
             "clang::s_type_args(*ty).is_some() && !(is_own_cursor && len_or_0(clang::s_cursor_args(cursor)) > clang::s_type_args(*ty).unwrap().len()) ==> r@.len() == clang::s_type_args(*ty).unwrap().len()",
             # a cursor that declares another function type contributes nothing
             "!is_own_cursor ==> r@.len() == len_or_0(clang::s_type_args(*ty)) && (clang::s_type_args(*ty).is_some() ==> forall|j: int| 0 <= j < r@.len() ==> (#[trigger] r@[j]).1 == Item::s_type_of(clang::s_type_args(*ty).unwrap()[j]))",
         ]},
    ],
}
