"""Unit `analyze` (C07 iii): the generic worklist driver reaches a fix-point of every rule."""
import os
ENV = os.path.join(os.path.dirname(os.path.dirname(os.path.abspath(__file__))), "env")
AM = "bindgen/ir/analysis/mod.rs"

INV = "forall|n: Analysis::Node| #[trigger] analysis.nodes().contains(n) ==> analysis.stable(n) || worklist@.contains(n)"

# proof script placed after the desugared `match` (ghost code only): every node is stable or queued again
PROOF = """
        let node = wl0.last();
        let wl1 = wl0.drop_last();
        assert forall|m: Analysis::Node| #[trigger] analysis.nodes().contains(m) implies analysis.stable(m) || worklist@.contains(m) by {
            assert(a0.nodes().contains(m));
            if m == node {
            } else if wl0.contains(m) {
                let i = choose|i: int| 0 <= i < wl0.len() && wl0[i] == m;
                assert(i < wl0.len() - 1);
                assert(wl1[i] == m);
                if worklist@ == wl1 { assert(worklist@[i] == m); } else { assert(worklist@ == wl1 + a0.deps(node)); assert(worklist@[i] == m); }
            } else {
                assert(a0.stable(m));
                if a0.deps(node).contains(m) && worklist@ == wl1 + a0.deps(node) {
                    let j = choose|j: int| 0 <= j < a0.deps(node).len() && a0.deps(node)[j] == m;
                    assert(worklist@[wl1.len() + j] == m);
                }
            }
        }
"""

UNIT = {
    "name": "analyze",
    "env": [os.path.join(ENV, "analyze_env.rs")],
    "declared_trusted": {},
    "items": [
        {"kind": "enum", "file": AM, "name": "ConstrainResult", "prefix": "#[derive(Copy, Clone, PartialEq, Eq, Structural)]"},
        {"kind": "fn", "file": AM, "name": "analyze", "ret": "r",
         "attrs": "#[verifier::exec_allows_no_decreases_clause]",
         "subst": [
             # R19: `while let PAT = EXPR { BODY }` == `loop { match EXPR { PAT => { BODY } _ => break } }` (Rust reference)
             ("while let Some(node) = worklist.pop() {",
              "loop invariant " + INV + ", ensures fixpoint(analysis), { let ghost wl0 = worklist@; let ghost a0 = analysis; match worklist.pop() { Some(node) => {", 1, "R19"),
             # R16: the callback pushes every dependent = append of the dependents
             ("analysis.each_depending_on(node, |needs_work| { worklist.push(needs_work); });", "analysis.push_dependents(node, &mut worklist);", 1, "R16"),
             ("analysis.into()", "_ => { break; } } proof { " + PROOF + " } } analysis.into_output()", 1, "R19 (closing) + R22 From<Self> conversion named"),
         ],
         "ensures": [
             # C07: the result is (the output of) a state in which re-applying any rule at any node of the run changes nothing
             "exists|a: Analysis| r == #[trigger] a.spec_output() && fixpoint(a)",
         ]},
    ],
}
