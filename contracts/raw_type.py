"""Unit `raw_type` (C14): the core::ffi gate of helpers::ast_ty::raw_type."""
import os
ENV = os.path.join(os.path.dirname(os.path.dirname(os.path.abspath(__file__))), "env")

UNIT = {
    "name": "raw_type",
    "env": [os.path.join(ENV, "raw_type_env.rs")],
    "declared_trusted": {r"external_body": 12},
    "items": [
        {"kind": "fn", "file": "bindgen/codegen/helpers.rs", "name": "raw_type", "ret": "r",
         "subst": [("syn::Type", "Tok", 1, "R4"),
                   ("match ctx.options().ctypes_prefix {", "match *ctx.ctypes_prefix() {", 0, "R5 field read (if present)"),
                   ("TokenStream::from_str(prefix.as_str()).unwrap()", "prefix_tokens(prefix.as_str())", 1, "R4"),
                   ("syn::parse_quote! { #prefix::#ident }", "q_prefixed(&prefix, &ident)", 1, "R4"),
                   ("ctx.options().use_core", "ctx.use_core()", 0, "R5 field read (if present)"),
                   ("syn::parse_quote! { ::core::ffi::#ident }", "q_core_ffi(&ident)", 1, "R4"),
                   ("syn::parse_quote! { ::std::os::raw::#ident }", "q_std_os_raw(&ident)", 1, "R4")],
         "ensures": [
             # C14: core::ffi::c_* only when the target has it
             "uses_core_ffi(r) ==> ctx.spec_options().s_features().core_ffi_c",
             # and exactly when asked for and possible (a user prefix wins)
             "uses_core_ffi(r) == (ctx.s_prefix().is_none() && ctx.s_use_core() && ctx.spec_options().s_features().core_ffi_c)",
             "uses_user_prefix(r) == ctx.s_prefix().is_some()",
         ]},
    ],
}
