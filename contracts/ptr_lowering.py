"""Unit `ptr_lowering` (C04): how a C pointer / C++ reference type is written in Rust."""
import os
ENV = os.path.join(os.path.dirname(os.path.dirname(os.path.abspath(__file__))), "env")

SPEC = """
// C function types are only ever used through a pointer, and Rust's `fn` types ARE pointers:
// a pointer whose pointee is (a typedef of) a function type adds no level; every other pointee
// gets `*const T` / `*mut T` by the pointee's constness; C++ references optionally NonNull.
pub open spec fn expected_ptr(ty: &Type, ctx: &BindgenContext, inner: TypeId) -> Tok {
    let it = ctx.s_through_refs(inner);
    let t = tok_of_item(ctx, &it);
    if it.s_type().s_canonical(ctx).s_kind() is Function || it.s_type().s_kind() is ObjCInterface { t }
    else if ctx.spec_options().generate_cxx_nonnull_references && ty.s_kind() is Reference { tok_nonnull(t) }
    else { tok_ptr(t, ctx.s_type(inner).s_const()) }
}
"""

UNIT = {
    "name": "ptr_lowering",
    "env": [os.path.join(ENV, "ptr_env.rs")],
    "declared_trusted": {r"external_body": 27},
    "items": [
        {"kind": "enum", "file": "bindgen/ir/ty.rs", "name": "TypeKind"},
        {"kind": "raw", "label": "spec", "text": SPEC},
        {"kind": "fn", "file": "bindgen/codegen/mod.rs", "name": "pointer_arm", "impl": r"^impl TryToRustTy for Type$", "ret": "r",
         "closure": {"enclosing": "try_to_rust_ty", "anchor": "TypeKind::Pointer(inner) | TypeKind::Reference(inner) => {", "nth": 0,
                     "signature": "fn pointer_arm(self_: &Type, ctx: &BindgenContext, item: &Item, inner: TypeId) -> (r: Result<Tok, Error>)"},
         "subst": [
             ('self.name().unwrap_or("unknown").into()', "self_.name_or_unknown()", 1, "R5 string plumbing"),
             ("inner.into_resolver().through_type_refs().resolve(ctx)", "ctx.resolve_through_type_refs(inner)", 1, "R5"),
             ("syn::parse_quote! { ::#prefix::ptr::NonNull<#ty> }", "q_nonnull(&prefix, &ty)", 1, "R4"),
             ("self", "self_", 2, "R18 captured self"),
         ],
         "ensures": [
             "self_.s_layout_size(ctx, item) != ctx.s_ptr_size() ==> r.is_err()",
             "self_.s_layout_size(ctx, item) == ctx.s_ptr_size() ==> (match r { Ok(t) => t == expected_ptr(self_, ctx, inner), Err(_) => false })",
         ]},
    ],
}
