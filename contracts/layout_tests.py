"""Unit `layout_tests` (C06): which layout assertions accompany a struct and what they state."""
import os
ENV = os.path.join(os.path.dirname(os.path.dirname(os.path.abspath(__file__))), "env")
CG = "bindgen/codegen/mod.rs"
CI = r"^impl CodeGenerator for CompInfo$"

Q_CONST = "quote! { [#offset_of_err][ ::#prefix::mem::offset_of!(#canonical_ident, #field_name) - #field_offset ]; }"
Q_TEST = "quote! { assert_eq!( unsafe { ::#prefix::ptr::addr_of!((*ptr).#field_name) as usize - ptr as usize }, #field_offset, #offset_of_err ); }"

UNIT = {
    "name": "layout_tests",
    "env": [os.path.join(ENV, "layout_tests_env.rs")],
    "declared_trusted": {r"external_body": 41},
    "items": [
        {"kind": "options_bools", "extra": ["pub rust_features: RustFeatures"]},
        # (1) per-member generator: "an assertion of the offset of every named non-bit-field member",
        #     "every asserted number equals what the C/C++ compiler computes" (clang's bit offset / 8)
        {"kind": "fn", "file": CG, "name": "field_offset_check", "impl": CI, "ret": "r",
         "closure": {"enclosing": "codegen", "anchor": ".filter_map(|field| {", "nth": 0,
                     "signature": "fn field_offset_check(field: &Field, ctx: &BindgenContext, canonical_ident: &Tok, compile_time: bool, prefix: &Tok) -> (r: Option<Tok>)"},
         "subst": [
             (Q_CONST, "q_offset_check(true, prefix, canonical_ident, &field_name, field_offset, &offset_of_err)", 1, "R4"),
             (Q_TEST, "q_offset_check(false, prefix, canonical_ident, &field_name, field_offset, &offset_of_err)", 1, "R4"),
             ('format!("Offset of field: {canonical_ident}::{field_name}")', "msg2(canonical_ident, &field_name)", 1, "R4"),
             ("field.offset().map(|offset| {", "match field.offset() { None => None, Some(offset) => Some({", 1, "R7"),
             ("})", "}) }", 1, "R7"),
         ],
         "ensures": [
             "(match *field { Field::DataMember(d) => d.s_name().is_some() && d.s_offset().is_some(), _ => false }) == r.is_some()",
             "r.is_some() ==> (match *field { Field::DataMember(d) => asserts_offset(r.unwrap()) == Some((ident_of(d.s_name().unwrap()), d.s_offset().unwrap() as int / 8)), _ => false })",
             # C14: the `offset_of!` spelling only in the compile-time form (whose flag is the offset_of feature: unit gates)
             "r.is_some() && uses_offset_of_macro(r.unwrap()) ==> compile_time",
         ]},
        # (2) the block: size + alignment + member assertions, only with layout tests on
        {"kind": "fn", "file": CG, "name": "layout_assertions", "impl": CI, "ret": "r_unit",
         "closure": {"enclosing": "codegen", "anchor": "if ctx.options().layout_tests && !self.is_forward_declaration() {", "nth": 0, "stmt": True,
                     # every variable of the enclosing function that is in scope at the statement is a parameter (used or not), so that an edit
                     # which starts to consult one of them is decided, not rejected by the front end
                     "signature": "fn layout_assertions(self_: &CompInfo, ctx: &BindgenContext, layout: Option<Layout>, is_opaque: bool, packed: bool, is_union: bool, zero_sized: bool, forward_decl: bool, canonical_ident: &Tok, result: &mut CodegenResult)",
                     "prefix": "{", "suffix": "}"},
         "subst": [
             ('let fn_name = format!("bindgen_test_layout_{canonical_ident}"); Some(ctx.rust_ident_raw(fn_name))', "Some(ctx.rust_ident_raw(msg1(canonical_ident)))", 1, "R4"),
             ("quote! { ::#prefix::mem::size_of::<#canonical_ident>() }", "q_size_of_expr(&prefix, canonical_ident)", 1, "R4"),
             ("quote! { ::#prefix::mem::align_of::<#canonical_ident>() }", "q_align_of_expr(&prefix, canonical_ident)", 1, "R4"),
             ('format!("Size of {canonical_ident}")', "msg1(canonical_ident)", 1, "R4"),
             ('format!("Alignment of {canonical_ident}")', "msg1(canonical_ident)", 1, "R4"),
             (("let check_struct_align = if compile_time { quote! {", "} } else {"), "let check_struct_align = if compile_time { q_check_align_const({#ARGS}) } else {", 1, "R4q"),
             (("quote! { assert_eq!(", "} };"), "q_check_align_test({#ARGS}) };", 1, "R4q"),
             # the filter_map over the fields: its closure is verified separately (field_offset_check above)
             (("self.fields() .iter() .filter_map(|field| {", "}) .collect()"), "collect_field_checks(self_, ctx, canonical_ident, compile_time, &prefix)", 1, "R5"),
             (("Some(quote! { // Use a shared MaybeUninit", "let ptr = UNINIT.as_ptr(); })"), "Some(q_uninit_decl(&prefix, canonical_ident))", 1, "R4"),
             (("result.push(quote! { #[allow(clippy::unnecessary_operation, clippy::identity_op)]", "}; });"),
              "result.push(q_const_assert_block({#ARGS}));", 1, "R4q"),
             (("result.push(quote! { #[test]", "} });"),
              "result.push(q_test_fn({#ARGS}));", 1, "R4q"),
             ("self", "self_", 1, "R18 captured self"),
         ],
         "ensures": [
             # "With layout tests disabled no assertion is emitted"; forward declarations / unknown layouts get none
             "(!ctx.spec_options().s_layout_tests() || self_.s_forward_decl() || layout.is_none()) ==> final(result).items@ == old(result).items@",
             # otherwise exactly one item, asserting the size and alignment clang reported and every member check
             "(ctx.spec_options().s_layout_tests() && !self_.s_forward_decl() && layout.is_some()) ==> final(result).items@.len() == old(result).items@.len() + 1 && final(result).items@.subrange(0, old(result).items@.len() as int) == old(result).items@",
             "(ctx.spec_options().s_layout_tests() && !self_.s_forward_decl() && layout.is_some()) ==> asserts_size(final(result).items@.last()) == Some(layout.unwrap().size as int) && asserts_align(final(result).items@.last()) == Some(layout.unwrap().align as int)",
             "(ctx.spec_options().s_layout_tests() && !self_.s_forward_decl() && layout.is_some()) ==> field_checks_in(final(result).items@.last()) == (if is_opaque { Seq::<Tok>::empty() } else { s_field_checks(self_, ctx, *canonical_ident, ctx.spec_options().s_features().offset_of) })",
         ]},
        # (3) "every template instantiation with concrete arguments ... gets a size and alignment assertion"
        {"kind": "fn", "file": CG, "name": "codegen", "impl": r"^impl CodeGenerator for TemplateInstantiation$",
         "impl_header": "impl TemplateInstantiation", "impl_name": "TemplateInstantiation", "ret": "r_unit",
         "r2_spec_form": [("item.is_enabled_for_codegen(ctx)", "item.s_enabled(ctx)")],
         "subst": [
             ("result: &mut CodegenResult<'_>", "result: &mut CodegenResult", 1, "R12 lifetime"),
             (('let mut fn_name = format!("__bindgen_test_layout_{name}_instantiation");', "Some(ctx.rust_ident_raw(fn_name))"), "Some(instantiation_test_name(ctx, result, &name))", 1, "R4"),
             ("quote! { ::#prefix::mem::size_of::<#ident>() }", "q_size_of_expr(&prefix, &ident)", 1, "R4"),
             ("quote! { ::#prefix::mem::align_of::<#ident>() }", "q_align_of_expr(&prefix, &ident)", 1, "R4"),
             ('format!("Size of template specialization: {name}")', "msg_s(&name)", 1, "R4"),
             ('format!("Align of template specialization: {name}")', "msg_s(&name)", 1, "R4"),
             (("result.push(quote! { #[allow(clippy::unnecessary_operation, clippy::identity_op)]", "}; });"),
              "result.push(q_const_size_align({#ARGS}));", 1, "R4q"),
             (("result.push(quote! { #[test]", "} });"),
              "result.push(q_test_size_align({#ARGS}));", 1, "R4q"),
         ],
         "ensures": [
             "({ let emit = ctx.spec_options().s_layout_tests() && !self.s_opaque(ctx, item) && !ctx.s_uses_tparams(item.s_id()) && item.s_kind().s_type().s_layout(ctx).is_some(); "
             "if emit { final(result).items@.len() == old(result).items@.len() + 1 && final(result).items@.subrange(0, old(result).items@.len() as int) == old(result).items@ "
             "&& asserts_size(final(result).items@.last()) == Some(item.s_kind().s_type().s_layout(ctx).unwrap().size as int) "
             "&& asserts_align(final(result).items@.last()) == Some(item.s_kind().s_type().s_layout(ctx).unwrap().align as int) } "
             "else { final(result).items@ == old(result).items@ } })",
         ]},
    ],
}
