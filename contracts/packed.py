"""Unit `packed` (C02): CompInfo::already_packed -- may `packed` be dropped when an
explicit `align(N)` is needed (rustc rejects structs carrying both)?"""
import os
ENV = os.path.join(os.path.dirname(os.path.dirname(os.path.abspath(__file__))), "env")

SPEC = """
pub const BIG: usize = 0x1000_0000_0000_0000;
// byte offset of field i when the fields are laid out back to back (what `packed` gives)
pub open spec fn packed_offset(fs: Seq<Field>, ctx: &BindgenContext, i: int) -> int
    decreases i,
{
    if i <= 0 { 0 } else { packed_offset(fs, ctx, i - 1) + fs[i - 1].s_layout(ctx).unwrap().size }
}
pub open spec fn known_upto(fs: Seq<Field>, ctx: &BindgenContext, n: int) -> bool {
    forall|j: int| 0 <= j < n ==> (#[trigger] fs[j]).s_layout(ctx).is_some()
}
// repr(C) without `packed` puts field i at the same offset iff that offset is already aligned
pub open spec fn naturally_aligned(fs: Seq<Field>, ctx: &BindgenContext, i: int) -> bool {
    let a = fs[i].s_layout(ctx).unwrap().align;
    a == 0 || packed_offset(fs, ctx, i) % a as int == 0
}
"""

IS_PACKED_INV = [
    "flc.all() == self.s_known_layouts(ctx) && 0 <= flc.pos() <= flc.all().len()",
    "layout == Some(parent_layout)",
    "packed == (exists|i: int| 0 <= i < flc.pos() && (#[trigger] self.s_known_layouts(ctx)[i]).align > parent_layout.align)",
]

UNIT = {
    "name": "packed",
    "env": [os.path.join(ENV, "packed_env.rs")],
    "declared_trusted": {r"external_body": 13},
    "items": [
        {"kind": "struct", "file": "bindgen/ir/layout.rs", "name": "Layout", "prefix": "#[derive(Clone, Copy, PartialEq, Eq)]"},
        {"kind": "raw", "label": "packed_spec", "text": SPEC},
        {"kind": "fn", "file": "bindgen/ir/comp.rs", "name": "is_packed", "impl": r"^impl CompInfo$", "impl_nth": 0,
         "impl_header": "impl CompInfo", "impl_name": "CompInfo", "ret": "r",
         "subst": [("self.each_known_field_layout(ctx, |layout| {",
                    "let mut flc = KnownLayoutCursor::new(self, ctx); while flc.has_next() invariant " + ", ".join(IS_PACKED_INV) + " decreases flc.all().len() - flc.pos() { let layout = flc.next_item();", 1, "R16"),
                   ("});", "}", 1, "R16")],
         "ensures": [
             # property C02: a record is treated as packed exactly when the attribute says so, or its C layout
             # cannot be reproduced otherwise (a member more aligned than the record; a vtable in a 1-aligned record)
             "r == (self.packed_attr || (layout.is_some() && ((exists|i: int| 0 <= i < self.s_known_layouts(ctx).len() && (#[trigger] self.s_known_layouts(ctx)[i]).align > layout.unwrap().align) || (self.has_own_virtual_method && layout.unwrap().align == 1))))",
         ],
         },
        {"kind": "fn", "file": "bindgen/ir/comp.rs", "name": "already_packed", "impl": r"^impl CompInfo$", "impl_nth": 0,
         "impl_header": "impl CompInfo", "impl_name": "CompInfo", "ret": "r",
         "subst": [("for field in self.fields()", "let mut it = SliceCursor::new(self.fields()); while it.has_next()", 1, "R13")],
         "requires": [
             "self.s_fields().len() < 0x1_0000_0000",
             "forall|j: int| 0 <= j < self.s_fields().len() ==> ((#[trigger] self.s_fields()[j]).s_layout(ctx).is_some() ==> self.s_fields()[j].s_layout(ctx).unwrap().size < 0x1_0000_0000)",
         ],
         "ensures": [
             # Some(true): dropping `packed` changes no field offset
             "r == Some(true) ==> known_upto(self.s_fields(), ctx, self.s_fields().len() as int) && forall|i: int| 0 <= i < self.s_fields().len() ==> naturally_aligned(self.s_fields(), ctx, i)",
             # Some(false): some field would move
             "r == Some(false) ==> exists|i: int| 0 <= i < self.s_fields().len() && known_upto(self.s_fields(), ctx, i + 1) && !naturally_aligned(self.s_fields(), ctx, i)",
             "r.is_none() ==> !known_upto(self.s_fields(), ctx, self.s_fields().len() as int)",
         ],
         "ghost_start": "let ghost fs = self.s_fields();",
         "proof_before": [("return Some(false);", "assert(fs[it.pos() - 1].s_layout(ctx).is_some()); assert(known_upto(fs, ctx, it.pos())); assert(!naturally_aligned(fs, ctx, it.pos() - 1));")],
         "loops": {0: {
             "body_start": "let field = it.next_item();",
             "decreases": "it.all().len() - it.pos()",
             "invariant": [
                 "fs == it.all() && fs == self.s_fields() && 0 <= it.pos() <= fs.len() && fs.len() < 0x1_0000_0000",
                 "forall|j: int| 0 <= j < fs.len() ==> ((#[trigger] fs[j]).s_layout(ctx).is_some() ==> fs[j].s_layout(ctx).unwrap().size < 0x1_0000_0000)",
                 "known_upto(fs, ctx, it.pos())",
                 "total_size == packed_offset(fs, ctx, it.pos())",
                 "total_size <= it.pos() * 0x1_0000_0000",
                 "forall|i: int| 0 <= i < it.pos() ==> naturally_aligned(fs, ctx, i)",
             ],
         }}},
    ],
}
