"""Unit `opaque_wrapper` (C08): the opaque-array wrapper structs implement the comparison traits their holders may derive."""
import os
ENV = os.path.join(os.path.dirname(os.path.dirname(os.path.abspath(__file__))), "env")
CG = "bindgen/codegen/mod.rs"

UNIT = {
    "name": "opaque_wrapper",
    "env": [os.path.join(ENV, "opaque_wrapper_env.rs")],
    "declared_trusted": {r"external_body": 12},
    "items": [
        {"kind": "options_bools", "extra": []},
        # utils::prepend_opaque_array_types, the statements that build one wrapper definition (rest of the loop body, R18; templates by R4u:
        # the flags say whether the template text names PartialOrd / Ord)
        {"kind": "fn", "file": CG, "name": "wrapper_definition", "ret": "r_unit",
         "closure": {"enclosing": "prepend_opaque_array_types", "anchor": "let partialord =", "nth": 0, "stmt": "rest",
                     "signature": "fn wrapper_definition(ctx: &BindgenContext, align: usize, ident: &Ident, repr: &Tok, tys: &mut Vec<Tok>)",
                     "prefix": "{", "suffix": "}"},
         "quote_uses": {"struct": "Uses", "ctor": "q_tmpl", "fields": {"partial_ord": ["PartialOrd"], "ord": ["Ord"]}},
         "requires": ["tok_uses(*repr) == u_none()"],
         "ensures": [
             "final(tys)@.len() == old(tys)@.len() + 1",
             # C08: a type holding an opaque blob derives PartialOrd / Ord when the option is on (the analysis says an opaque type can):
             # the wrapper the blob is made of must implement it then (found and repaired F33)
             "ctx.spec_options().derive_partialord ==> tok_uses(final(tys)@.last()).partial_ord",
             "ctx.spec_options().derive_ord ==> tok_uses(final(tys)@.last()).ord",
         ]},
    ],
}
