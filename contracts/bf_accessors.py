"""Unit `bf_accessors` (C03): the emitted accessors address the bit-field's own (unit, offset, width)."""
import os
ENV = os.path.join(os.path.dirname(os.path.dirname(os.path.abspath(__file__))), "env")
CG = "bindgen/codegen/mod.rs"

HEAD = "methods.extend(Some(quote! { #[inline] #access_spec "
T1 = (HEAD + "fn #getter_name(&self) -> #bitfield_ty { unsafe { self", "}));")
T2 = (HEAD + "unsafe fn #raw_getter_name(this: *const Self) -> #bitfield_ty { unsafe { <#unit_field_ty>::raw_get(", "}));")
T3 = (HEAD + "fn #getter_name(&self) -> #bitfield_ty { unsafe { ::#prefix::mem::transmute(", "}));")
T4 = (HEAD + "unsafe fn #raw_getter_name(this: *const Self) -> #bitfield_ty { unsafe { ::#prefix::mem::transmute(", "}));")

TARGET = "Some((*unit_field_ident, offset as int, width as int))"

UNIT = {
    "name": "bf_accessors",
    "env": [os.path.join(ENV, "bf_accessors_env.rs")],
    "declared_trusted": {r"external_body": 17},
    "items": [
        {"kind": "fn", "file": CG, "name": "emit_accessors", "impl": r"^impl<'a> FieldCodegen<'a> for Bitfield$", "ret": "r_unit",
         "closure": {"enclosing": "codegen", "anchor": "if parent.is_union() && !struct_layout.is_rust_union() {", "nth": 0, "stmt": True,
                     "signature": "fn emit_accessors(parent: &CompInfo, struct_layout: &StructLayoutTracker, methods: &mut Vec<Tok>, prefix: &Tok, access_spec: &Tok, getter_name: &Tok, setter_name: &Tok, "
                                  "raw_getter_name: &Tok, raw_setter_name: &Tok, bitfield_ty: &Tok, bitfield_int_ty: &Tok, unit_field_ident: &Tok, unit_field_ty: &Tok, offset: usize, width: u8)",
                     "prefix": "{", "suffix": "}"},
         "subst": [
             (T1, "extend_one(methods, q_union_accessors({#ARGS}));", 1, "R4q"),
             (T2, "extend_one(methods, q_union_raw_accessors({#ARGS}));", 1, "R4q"),
             (T3, "extend_one(methods, q_accessors({#ARGS}));", 1, "R4q"),
             (T4, "extend_one(methods, q_raw_accessors({#ARGS}));", 1, "R4q"),
         ],
         "ensures": [
             # exactly two method groups are added: the plain and the raw accessors
             "final(methods)@.len() == old(methods)@.len() + 2 && final(methods)@.subrange(0, old(methods)@.len() as int) == old(methods)@",
             # C03: getter and setter, plain and raw, all address THIS bit-field: its unit field, its offset into the unit, its width
             "getter_target(final(methods)@[old(methods)@.len() as int]) == " + TARGET + " && setter_target(final(methods)@[old(methods)@.len() as int]) == " + TARGET + " && !is_raw(final(methods)@[old(methods)@.len() as int])",
             "getter_target(final(methods)@[old(methods)@.len() as int + 1]) == " + TARGET + " && setter_target(final(methods)@[old(methods)@.len() as int + 1]) == " + TARGET + " && is_raw(final(methods)@[old(methods)@.len() as int + 1])",
         ]},
        # the allocation-unit constructor: one set_const::<offset_into_unit, width> per bit-field
        {"kind": "fn", "file": CG, "name": "extend_ctor_impl", "impl": r"^impl Bitfield$", "impl_header": "impl Bitfield", "impl_name": "Bitfield", "ret": "r",
         "subst": [("param_name: &proc_macro2::TokenStream", "param_name: &Tok", 1, "R4 (an identifier token)"), ("proc_macro2::TokenStream", "TokenStream", 2, "R4"),
                   (("ctor_impl.append_all(quote! {", "} ); });"), "append_tokens(&mut ctor_impl, q_ctor_step({#ARGS}));", 1, "R4q")],
         # IR invariants the function itself expects ("Bitfield without layout? Gah!", "Should already have verified ..."); widths are <= 64
         "requires": ["ctx.s_type(self.s_ty()).s_layout(ctx).is_some()", "helpers::s_integer_type(ctx.s_type(self.s_ty()).s_layout(ctx).unwrap()).is_some()", "self.s_width() <= 255"],
         "ensures": [
             "r.stmts@.len() == ctor_impl.stmts@.len() + 1 && r.stmts@.subrange(0, ctor_impl.stmts@.len() as int) == ctor_impl.stmts@",
             "ctor_step_target(r.stmts@.last()) == Some((self.s_offset_into_unit() as int, self.s_width() as int))",
         ]},
    ],
}

# Known finding F18 (witness): C03 demands that a getter returns the value C reads, "zero- or sign-extended according to
# the declared type".  No accessor template sign-extends; this contract is expected to FAIL on the unchanged tree.
import copy as _copy
_w = _copy.deepcopy(next(i for i in UNIT["items"] if i.get("name") == "emit_accessors"))
_w["rename"] = "emit_accessors__signed"
_w["rename_tag"] = "@signed_getter_F18"
_w["witness"] = True
_w["ensures"] = ["ty_is_signed(*bitfield_int_ty) ==> getter_sign_extends(final(methods)@[old(methods)@.len() as int])"]
UNIT["items"].append(_w)
