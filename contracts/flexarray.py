"""Unit `flexarray` (C14): the --flexarray-dst helpers spell ptr_metadata / layout_for_ptr APIs only when the target has them."""
import os
ENV = os.path.join(os.path.dirname(os.path.dirname(os.path.abspath(__file__))), "env")
CG = "bindgen/codegen/mod.rs"

# Rust release notes / std docs: the unstable library features and the APIs behind them
GATED = {
    "ptr_metadata": ["to_raw_parts", "from_raw_parts", "from_raw_parts_mut", "metadata", "Pointee", "DynMetadata"],
    "layout_for_ptr": ["for_value_raw", "size_of_val_raw", "align_of_val_raw"],
}

UNIT = {
    "name": "flexarray",
    "env": [os.path.join(ENV, "flexarray_env.rs")],
    "declared_trusted": {r"external_body": 16},
    "items": [
        {"kind": "options_bools", "extra": ["pub rust_features: RustFeatures"]},
        {"kind": "fn", "file": CG, "name": "generate_flexarray", "impl": r"^impl CompInfo$", "impl_nth": 0,
         "impl_header": "impl CompInfo", "impl_name": "CompInfo", "ret": "r",
         "quote_uses": {"struct": "Uses", "ctor": "q_tmpl", "fields": GATED},
         "subst": [
             ("proc_macro2::TokenStream", "Tok", 3, "R4 token type"),
             ("flex_inner_ty.as_ref().map(|ty| quote! { [ #ty ] })", "slice_of(flex_inner_ty)", 1, "R7 Option::map with a one-template closure"),
         ],
         # features.rs: both are nightly-only (the Kani features harnesses prove the table); `layout()` spells from_raw_parts too
         "requires": ["ctx.spec_options().rust_features.layout_for_ptr ==> ctx.spec_options().rust_features.ptr_metadata",
                      "flex_inner_ty.is_some() ==> tok_uses(*flex_inner_ty.unwrap()) == u_none()", "tok_uses(*impl_generics_labels) == u_none()"],
         "ensures": [
             # C14: no API of a feature the target lacks
             "tok_uses(r).ptr_metadata ==> ctx.spec_options().rust_features.ptr_metadata",
             "tok_uses(r).layout_for_ptr ==> ctx.spec_options().rust_features.layout_for_ptr",
         ]},
    ],
}
