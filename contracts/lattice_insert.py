"""Unit `lattice_insert` (C07): insert/forward of HasVtableAnalysis, SizednessAnalysis and
CannotDerive -- facts only move up their lattice and `Changed` is reported exactly when
the table changed."""
import os
ENV = os.path.join(os.path.dirname(os.path.dirname(os.path.abspath(__file__))), "env")
HV = "bindgen/ir/analysis/has_vtable.rs"
SZ = "bindgen/ir/analysis/sizedness.rs"
DR = "bindgen/ir/analysis/derive.rs"

SPEC = """
// declared orders (doc comments of the enums; the Kani lattice harnesses prove that the
// derived Ord / join agree with them)
pub open spec fn hv_rank(v: HasVtableResult) -> int { match v { HasVtableResult::No => 0, HasVtableResult::SelfHasVtable => 1, HasVtableResult::BaseHasVtable => 2 } }
pub open spec fn sz_rank(v: SizednessResult) -> int { match v { SizednessResult::ZeroSized => 0, SizednessResult::DependsOnTypeParam => 1, SizednessResult::NonZeroSized => 2 } }
pub open spec fn cd_rank(v: CanDerive) -> int { match v { CanDerive::Yes => 0, CanDerive::Manually => 1, CanDerive::No => 2 } }
pub fn hv_lt(a: HasVtableResult, b: HasVtableResult) -> (r: bool) ensures r == (hv_rank(a) < hv_rank(b)) {
    match (a, b) { (HasVtableResult::No, HasVtableResult::No) => false, (HasVtableResult::No, _) => true,
                   (HasVtableResult::SelfHasVtable, HasVtableResult::BaseHasVtable) => true, _ => false }
}
pub fn sz_lt(a: SizednessResult, b: SizednessResult) -> (r: bool) ensures r == (sz_rank(a) < sz_rank(b)) {
    match (a, b) { (SizednessResult::ZeroSized, SizednessResult::ZeroSized) => false, (SizednessResult::ZeroSized, _) => true,
                   (SizednessResult::DependsOnTypeParam, SizednessResult::NonZeroSized) => true, _ => false }
}
pub fn cd_lt(a: CanDerive, b: CanDerive) -> (r: bool) ensures r == (cd_rank(a) < cd_rank(b)) {
    match (a, b) { (CanDerive::Yes, CanDerive::Yes) => false, (CanDerive::Yes, _) => true,
                   (CanDerive::Manually, CanDerive::No) => true, _ => false }
}
// value of a key in the table; absent = bottom of the lattice
pub open spec fn hv_at(m: Map<ItemId, HasVtableResult>, k: ItemId) -> HasVtableResult { if m.contains_key(k) { m[k] } else { HasVtableResult::No } }
pub open spec fn sz_at(m: Map<TypeId, SizednessResult>, k: TypeId) -> SizednessResult { if m.contains_key(k) { m[k] } else { SizednessResult::ZeroSized } }
pub open spec fn cd_at(m: Map<ItemId, CanDerive>, k: ItemId) -> CanDerive { if m.contains_key(k) { m[k] } else { CanDerive::Yes } }
"""


def entry_subst(field, lt, val="result"):
    return [
        ("match self.%s.entry(id) {" % field, "match map_entry(&self.%s, &id) {" % field, 1, "R17"),
        ("Entry::Occupied(mut entry) =>", "EntryKind::Occupied =>", 1, "R17"),
        # the comparison of the stored fact with the new one, whatever its operator (derived Ord of the lattice enum = rank order)
        ("*entry.get() < %s" % val, "%s(map_get(&self.%s, &id), %s)" % (lt, field, val), 0, "R17 derived PartialOrd `<` (if present)"),
        ("*entry.get() <= %s" % val, "!%s(%s, map_get(&self.%s, &id))" % (lt, val, field), 0, "R17 derived PartialOrd `<=` (if present)"),
        ("*entry.get() > %s" % val, "%s(%s, map_get(&self.%s, &id))" % (lt, val, field), 0, "R17 derived PartialOrd `>` (if present)"),
        ("*entry.get() >= %s" % val, "!%s(map_get(&self.%s, &id), %s)" % (lt, field, val), 0, "R17 derived PartialOrd `>=` (if present)"),
        ("*entry.get() != %s" % val, "(map_get(&self.%s, &id) != %s)" % (field, val), 0, "R17 derived PartialEq `!=` (if present)"),
        ("*entry.get() == %s" % val, "(map_get(&self.%s, &id) == %s)" % (field, val), 0, "R17 derived PartialEq `==` (if present)"),
        ("entry.insert(", "map_insert(&mut self.%s, id, " % field, 2, "R17"),
        ("Entry::Vacant(entry) =>", "EntryKind::Vacant =>", 1, "R17"),
    ]


def insert_ens(field, at, rank, valname):
    f = "final(self).%s.view()" % field
    o = "old(self).%s.view()" % field
    return [
        # only the key moves, and only upwards to the join
        "forall|k| k != id ==> %s(%s, k) == %s(%s, k) && %s.contains_key(k) == %s.contains_key(k)" % (at, f, at, o, f, o),
        "%s(%s(%s, id)) == (if %s(%s) > %s(%s(%s, id)) { %s(%s) } else { %s(%s(%s, id)) })" % (rank, at, f, rank, valname, rank, at, o, rank, valname, rank, at, o),
        # Changed exactly when the fact moved
        "(r == ConstrainResult::Changed) == (%s(%s) > %s(%s(%s, id)))" % (rank, valname, rank, at, o),
        "final(self).ctx == old(self).ctx",
    ]


UNIT = {
    "name": "lattice_insert",
    "env": [os.path.join(ENV, "lattice_insert_env.rs")],
    "declared_trusted": {r"external_body": 6},
    "items": [
        {"kind": "enum", "file": "bindgen/ir/analysis/mod.rs", "name": "ConstrainResult", "prefix": "#[derive(Copy, Clone, PartialEq, Eq, Structural)]"},
        {"kind": "enum", "file": HV, "name": "HasVtableResult", "prefix": "#[derive(Copy, Clone, PartialEq, Eq, Structural)]"},
        {"kind": "enum", "file": SZ, "name": "SizednessResult", "prefix": "#[derive(Copy, Clone, PartialEq, Eq, Structural)]"},
        {"kind": "enum", "file": "bindgen/ir/derive.rs", "name": "CanDerive", "prefix": "#[derive(Copy, Clone, PartialEq, Eq, Structural)]"},
        {"kind": "enum", "file": DR, "name": "DeriveTrait", "prefix": "#[derive(Copy, Clone, PartialEq, Eq, Structural)]"},
        {"kind": "struct", "file": HV, "name": "HasVtableAnalysis"},
        {"kind": "struct", "file": SZ, "name": "SizednessAnalysis"},
        {"kind": "struct", "file": DR, "name": "CannotDerive"},
        {"kind": "raw", "label": "spec", "text": SPEC},
        # ---- HasVtableAnalysis
        {"kind": "fn", "file": HV, "name": "insert", "impl": r"^impl HasVtableAnalysis<'_>$", "impl_header": "impl<'ctx> HasVtableAnalysis<'ctx>", "impl_name": "HasVtableAnalysis", "ret": "r",
         "subst": [("<Id: Into<ItemId>>", "", 1, "R12"), ("id: Id,", "id: ItemId,", 1, "R12"), ("let id = id.into();", "", 1, "R12")]
                  + entry_subst("have_vtable", "hv_lt"),
         "ensures": insert_ens("have_vtable", "hv_at", "hv_rank", "result")},
        {"kind": "fn", "file": HV, "name": "forward", "impl": r"^impl HasVtableAnalysis<'_>$", "impl_header": "impl<'ctx> HasVtableAnalysis<'ctx>", "impl_name": "HasVtableAnalysis", "ret": "r",
         "subst": [("<Id1, Id2>", "", 1, "R12"), ("from: Id1, to: Id2", "from: ItemId, to: ItemId", 1, "R12"),
                   ("where Id1: Into<ItemId>, Id2: Into<ItemId>,", "", 1, "R12"), ("let from = from.into();", "", 1, "R12"), ("let to = to.into();", "", 1, "R12")],
         "ensures": [
             "forall|k| k != to ==> hv_at(final(self).have_vtable.view(), k) == hv_at(old(self).have_vtable.view(), k)",
             "hv_rank(hv_at(final(self).have_vtable.view(), to)) == (if hv_rank(hv_at(old(self).have_vtable.view(), from)) > hv_rank(hv_at(old(self).have_vtable.view(), to)) { hv_rank(hv_at(old(self).have_vtable.view(), from)) } else { hv_rank(hv_at(old(self).have_vtable.view(), to)) })",
             "(r == ConstrainResult::Changed) == (hv_rank(hv_at(old(self).have_vtable.view(), from)) > hv_rank(hv_at(old(self).have_vtable.view(), to)))",
         ]},
        # ---- SizednessAnalysis
        {"kind": "fn", "file": SZ, "name": "insert", "impl": r"^impl SizednessAnalysis<'_>$", "impl_header": "impl<'ctx> SizednessAnalysis<'ctx>", "impl_name": "SizednessAnalysis", "ret": "r",
         "subst": entry_subst("sized", "sz_lt"),
         "ensures": insert_ens("sized", "sz_at", "sz_rank", "result")},
        {"kind": "fn", "file": SZ, "name": "forward", "impl": r"^impl SizednessAnalysis<'_>$", "impl_header": "impl<'ctx> SizednessAnalysis<'ctx>", "impl_name": "SizednessAnalysis", "ret": "r",
         "ensures": [
             "forall|k| k != to ==> sz_at(final(self).sized.view(), k) == sz_at(old(self).sized.view(), k)",
             "(r == ConstrainResult::Changed) == (sz_rank(sz_at(old(self).sized.view(), from)) > sz_rank(sz_at(old(self).sized.view(), to)))",
             "sz_rank(sz_at(final(self).sized.view(), to)) >= sz_rank(sz_at(old(self).sized.view(), to))",
         ]},
        # ---- CannotDerive
        {"kind": "fn", "file": DR, "name": "insert", "impl": r"^impl CannotDerive<'_>$", "impl_header": "impl<'ctx> CannotDerive<'ctx>", "impl_name": "CannotDerive", "ret": "r",
         "subst": [("<Id: Into<ItemId>>", "", 1, "R12"), ("id: Id,", "id: ItemId,", 1, "R12"), ("let id = id.into();", "", 1, "R12")]
                  + entry_subst("can_derive", "cd_lt", "can_derive"),
         "ensures": insert_ens("can_derive", "cd_at", "cd_rank", "can_derive")},
    ],
}
