"""Unit `has_destructor` (C07): HasDestructorAnalysis::{insert, constrain}."""
import os
ENV = os.path.join(os.path.dirname(os.path.dirname(os.path.abspath(__file__))), "env")
F = "bindgen/ir/analysis/has_destructor.rs"
SET = "have_destructor"

SPEC = """
// rule: a type has a destructor iff it declares one, or (non-union) a base / by-value data
// member has, or it aliases / instantiates something that has
pub open spec fn rule(s: Set<ItemId>, ctx: &BindgenContext, id: ItemId) -> bool {
    match ctx.s_item(id).s_as_type() {
        None => false,
        Some(ty) => match ty.s_kind() {
            TypeKind::TemplateAlias(t, _) | TypeKind::Alias(t) | TypeKind::ResolvedTypeRef(t) => s.contains(t.0),
            TypeKind::Comp(info) => info.s_own_destructor() || (info.s_kind() == CompKind::Struct && (s_any_base(s, &info) || s_any_field(s, &info))),
            TypeKind::TemplateInstantiation(inst) => s.contains(inst.s_definition().0) || s_any_arg(s, &inst),
            _ => false,
        },
    }
}
"""
IMPL = {"impl": r"^impl HasDestructorAnalysis<'_>$", "impl_header": "impl<'ctx> HasDestructorAnalysis<'ctx>", "impl_name": "HasDestructorAnalysis"}
IMPL2 = {"impl": r"^impl<'ctx> MonotoneFramework for HasDestructorAnalysis<'ctx>$", "impl_header": "impl<'ctx> HasDestructorAnalysis<'ctx>", "impl_name": "HasDestructorAnalysis"}

UNIT = {
    "name": "has_destructor",
    "env": [os.path.join(ENV, "has_float_env.rs")],
    "declared_trusted": {r"external_body": 25},
    "items": [
        {"kind": "enum", "file": "bindgen/ir/analysis/mod.rs", "name": "ConstrainResult", "prefix": "#[derive(Copy, Clone, PartialEq, Eq, Structural)]"},
        {"kind": "enum", "file": "bindgen/ir/ty.rs", "name": "TypeKind"},
        {"kind": "struct", "file": F, "name": "HasDestructorAnalysis"},
        {"kind": "raw", "label": "spec", "text": SPEC},
        {"kind": "fn", "file": F, "name": "insert", **IMPL, "ret": "r",
         "subst": [("<Id: Into<ItemId>>", "", 1, "R12"), ("id: Id", "id: ItemId", 1, "R12"),
                   ("let id = id.into();", "", 1, "R12"),
                   ('assert!( was_not_already_in_set, "We shouldn\'t try and insert {id:?} twice because if it was \\\n             already in the set, `constrain` should have exited early." );', "runtime_assert(was_not_already_in_set);", 1, "R15 assert!")],
         "requires": ["!old(self).%s.view().contains(id)" % SET],
         "ensures": ["final(self).%s.view() == old(self).%s.view().insert(id)" % (SET, SET), "r == ConstrainResult::Changed", "final(self).ctx == old(self).ctx"]},
        {"kind": "fn", "file": F, "name": "constrain", **IMPL2, "ret": "r",
         "subst": [
             ("info.base_members().iter().any(|base| { self.have_destructor.contains(&base.ty.into()) }) || info.fields().iter().any( |field| match *field { Field::DataMember(ref data) => self .have_destructor .contains(&data.ty().into()), Field::Bitfields(_) => false, }, )",
              "any_base_in(&self.have_destructor, info) || any_field_in(&self.have_destructor, info)", 1, "R5"),
             ("inst.template_arguments().iter().any(|arg| { self.have_destructor.contains(&arg.into()) })", "any_arg_in(&self.have_destructor, inst)", 1, "R5"),
             ("(&t.into())", "(&t.item())", 1, "R12"),
             ("(&inst.template_definition().into())", "(&inst.template_definition().item())", 1, "R12"),
         ],
         "ensures": [
             "final(self).%s.view() == old(self).%s.view() || final(self).%s.view() == old(self).%s.view().insert(id)" % (SET, SET, SET, SET),
             "(r == ConstrainResult::Changed) == (final(self).%s.view() != old(self).%s.view())" % (SET, SET),
             "final(self).%s.view().contains(id) == (old(self).%s.view().contains(id) || rule(old(self).%s.view(), old(self).ctx, id))" % (SET, SET, SET),
         ]},
    ],
}
