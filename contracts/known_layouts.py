"""Unit `known_layouts` (C02): every member with a known layout takes part in the #pragma pack detection."""
import os
ENV = os.path.join(os.path.dirname(os.path.dirname(os.path.abspath(__file__))), "env")

SPEC = """
// the (optional) layout of every member, in declaration order, before and after bit-field units are computed
pub open spec fn member_layouts(c: &CompInfo, ctx: &BindgenContext) -> Seq<Option<Layout>> {
    match c.fields {
        CompFields::Error => Seq::<Option<Layout>>::empty(),
        CompFields::After { fields, has_bitfield_units } => Seq::new(fields@.len(), |i: int| fields@[i].s_layout(ctx)),
        CompFields::Before(raw) => Seq::new(raw@.len(), |i: int| ctx.s_type(raw@[i].0.ty).s_layout(ctx)),
    }
}
"""
def loop(it, seqexpr, elem):
    return {"body_start": "let field = %s.next_item();" % it, "decreases": "%s.all().len() - %s.pos()" % (it, it),
            "invariant": ["%s.all() == %s && 0 <= %s.pos() <= %s.all().len()" % (it, seqexpr, it, it),
                          "sink@ == s0 + known(member_layouts(self, ctx).subrange(0, %s.pos()))" % it,
                          "member_layouts(self, ctx).len() == %s.len() && forall|i: int| 0 <= i < %s.len() ==> member_layouts(self, ctx)[i] == %s" % (seqexpr, seqexpr, elem),
                          "%s.pos() == %s.all().len() ==> sink@ == s0 + known(member_layouts(self, ctx))" % (it, it)],
            "proof": "assert(member_layouts(self, ctx).subrange(0, %s.pos()).drop_last() =~= member_layouts(self, ctx).subrange(0, %s.pos() - 1)); if %s.pos() == %s.all().len() { assert(member_layouts(self, ctx).subrange(0, %s.pos()) =~= member_layouts(self, ctx)); }" % (it, it, it, it, it)}

UNIT = {
    "name": "known_layouts",
    "env": [os.path.join(ENV, "known_layouts_env.rs")],
    "declared_trusted": {r"external_body": 11},
    "items": [
        {"kind": "enum", "file": "bindgen/ir/comp.rs", "name": "CompFields", "prefix": "pub"},
        {"kind": "raw", "label": "spec", "text": SPEC},
        # C02: the members CompInfo::is_packed compares with the record's alignment are ALL members whose layout is known - a
        # flexible or zero-length array takes no storage but still carries its element's alignment (`#pragma pack(1)
        # struct { char k; int words[]; }` must come out packed)
        {"kind": "fn", "file": "bindgen/ir/comp.rs", "name": "each_known_field_layout", "impl": r"^impl CompInfo$", "impl_nth": 0,
         "impl_header": "impl CompInfo", "impl_name": "CompInfo",
         "subst": [
             ("mut callback: impl FnMut(Layout)", "sink: &mut Vec<Layout>", 1, "R16 the FnMut callback is a sink: the contract is what it is handed, in order"),
             ("callback(layout);", "sink.push(layout);", 2, "R16"),
             ("for field in fields", "let mut it0 = VecCursor::new(fields); while it0.has_next()", 1, "R13"),
             ("for field in raw_fields", "let mut it1 = VecCursor::new(raw_fields); while it1.has_next()", 1, "R13"),
             ("match self.fields {", "match &self.fields {", 0, "R24 match on the reference (default binding modes)"),
             ("CompFields::After { ref fields, .. }", "CompFields::After { fields, .. }", 0, "R24"),
             ("CompFields::Before(ref raw_fields)", "CompFields::Before(raw_fields)", 0, "R24"),
         ],
         "ghost_start": "let ghost s0 = sink@; proof { assert(s0 + Seq::<Layout>::empty() =~= s0); }",
         "loops": {0: loop("it0", "fields@", "fields@[i].s_layout(ctx)"), 1: loop("it1", "raw_fields@", "ctx.s_type(raw_fields@[i].0.ty).s_layout(ctx)")},
         "ensures": ["final(sink)@ == old(sink)@ + known(member_layouts(self, ctx))"]},
    ],
}
