"""Unit `eval_int` (C05): clang::EvalResult::as_int -- the value read back from libclang's evaluator."""
import os
ENV = os.path.join(os.path.dirname(os.path.dirname(os.path.abspath(__file__))), "env")
CL = "bindgen/clang.rs"

UNIT = {
    "name": "eval_int",
    "env": [os.path.join(ENV, "eval_int_env.rs")],
    "declared_trusted": {r"external_body": 5},
    "items": [
        {"kind": "fn", "file": CL, "name": "kind", "impl": r"^impl EvalResult$", "impl_header": "impl EvalResult", "impl_name": "EvalResult", "ret": "r",
         "subst": [("unsafe {", "{", 1, "R20")],
         "ensures": ["r == ffi_kind(self.x)"]},
        {"kind": "fn", "file": CL, "name": "as_int", "impl": r"^impl EvalResult$", "impl_header": "impl EvalResult", "impl_name": "EvalResult", "ret": "r",
         "subst": [("unsafe {", "{", 3, "R20")],
         "ensures": [
             # C05: "the emitted value equals what C computes": the full-width value of the evaluator, for every
             # 64-bit value (unsigned results are carried as the same 64 bits, re-read as u64 by the consumer)
             "ffi_kind(self.x) != CXEval_Int ==> r.is_none()",
             "ffi_kind(self.x) == CXEval_Int && ffi_is_unsigned(self.x) == 0 ==> r == Some(ffi_as_longlong(self.x))",
             "ffi_kind(self.x) == CXEval_Int && ffi_is_unsigned(self.x) != 0 ==> r == Some(ffi_as_unsigned(self.x) as i64)",
         ]},
    ],
}
