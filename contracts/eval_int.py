"""Unit `eval_int` (C05): clang::EvalResult::as_int -- the value read back from libclang's evaluator."""
import os
ENV = os.path.join(os.path.dirname(os.path.dirname(os.path.abspath(__file__))), "env")
CL = "bindgen/clang.rs"
CU = {"impl": r"^impl Cursor$", "impl_header": "impl Cursor", "impl_name": "Cursor"}

UNIT = {
    "name": "eval_int",
    "env": [os.path.join(ENV, "eval_int_env.rs")],
    "declared_trusted": {r"external_body": 17},
    "items": [
        {"kind": "fn", "file": CL, "name": "kind", "impl": r"^impl EvalResult$", "impl_header": "impl EvalResult", "impl_name": "EvalResult", "ret": "r",
         "subst": [("unsafe {", "{", 1, "R20")],
         "ensures": ["r == ffi_kind(self.x)"]},
        {"kind": "fn", "file": CL, "name": "as_int", "impl": r"^impl EvalResult$", "impl_header": "impl EvalResult", "impl_name": "EvalResult", "ret": "r",
         "subst": [("unsafe {", "{", 3, "R20")],
         "ensures": [
             # C05: "the emitted value equals what C computes": the full-width value of the evaluator, for every
             # 64-bit value (unsigned results are carried as the same 64 bits, re-read as u64 by the consumer)
             "ffi_kind(self.x) != CXEval_Int ==> r.is_none()",
             "ffi_kind(self.x) == CXEval_Int && ffi_is_unsigned(self.x) == 0 ==> r == Some(ffi_as_longlong(self.x))",
             "ffi_kind(self.x) == CXEval_Int && ffi_is_unsigned(self.x) != 0 ==> r == Some(ffi_as_unsigned(self.x) as i64)",
         ]},
        # string constants: the evaluator's buffer is read as a NUL-terminated byte string, which is the C value only for
        # one-byte character types (a wide / UTF-16 / UTF-32 literal has zero bytes inside every ASCII character)
        {"kind": "fn", "file": CL, "name": "as_literal_string", "impl": r"^impl EvalResult$", "impl_header": "impl EvalResult", "impl_name": "EvalResult", "ret": "r",
         "subst": [
             (r"re:let char_ty = self\.ty\.pointee_type\(\)\.or_else\(\|\|\s*([^;]+?)\)\?;",
              r"let char_ty = match (match self.ty.pointee_type() { Some(t_) => Some(t_), None => \1 }) { Some(t_) => t_, None => { return None; } };", 1, "R7 Option::or_else + `?`"),
             (r"re:let ret = unsafe \{\s*CStr::from_ptr\(clang_EvalResult_getAsStr\(self\.x\)\)\s*\};\s*Some\(ret\.to_bytes\(\)\.to_vec\(\)\)", "Some(ffi_str_bytes(self.x))", 1, "R20/R21 CStr view of the FFI buffer (every occurrence)"),
         ],
         "ensures": [
             "r.is_some() ==> ffi_kind(self.x) == CXEval_StrLiteral && r.unwrap()@ == ffi_cstr_bytes(self.x)",
             # C05: emitted only when the byte string IS the C value
             "r.is_some() ==> ({ let e = match ty_pointee(self.ty) { Some(t) => Some(t), None => ty_elem(self.ty) }; "
             "e.is_some() && (ty_kind(e.unwrap()) == CXType_Char_S || ty_kind(e.unwrap()) == CXType_SChar || ty_kind(e.unwrap()) == CXType_Char_U || ty_kind(e.unwrap()) == CXType_UChar) })",
         ]},
        # enum constants: the signed getter for signed enums, the UNSIGNED getter for unsigned ones (a 64-bit unsigned
        # enumerator above i64::MAX read through the signed getter would come out negative)
        {"kind": "fn", "file": CL, "name": "enum_val_signed", **CU, "ret": "r",
         "subst": [("unsafe {", "{", 1, "R20")],
         "ensures": ["r == (if ffi_cursor_kind(self.x) == CXCursor_EnumConstantDecl { Some(ffi_enum_value(self.x)) } else { None })"]},
        {"kind": "fn", "file": CL, "name": "enum_val_unsigned", **CU, "ret": "r",
         "subst": [("unsafe {", "{", 1, "R20")],
         "ensures": ["r == (if ffi_cursor_kind(self.x) == CXCursor_EnumConstantDecl { Some(ffi_enum_value_unsigned(self.x)) } else { None })"]},
        {"kind": "fn", "file": CL, "name": "enum_val_boolean", **CU, "ret": "r",
         "subst": [("unsafe {", "{", 1, "R20")],
         "ensures": ["r == (if ffi_cursor_kind(self.x) == CXCursor_EnumConstantDecl { Some(ffi_enum_value(self.x) != 0) } else { None })"]},
        {"kind": "enum", "file": "bindgen/ir/enum_ty.rs", "name": "EnumVariantValue", "prefix": "#[derive(Copy, Clone, PartialEq, Eq, Structural)]"},
        # Enum::from_ty (inside its cursor visitor): which getter supplies an enumerator's value (let-statement, R18)
        {"kind": "fn", "file": "bindgen/ir/enum_ty.rs", "name": "enum_value_of", "impl": r"^impl Enum$", "ret": "r",
         "closure": {"enclosing": "from_ty", "anchor": "let value = if is_bool {", "nth": 0, "stmt": "let",
                     "signature": "fn enum_value_of(cursor: &Cursor, is_bool: bool, is_signed: bool) -> (r: Option<EnumVariantValue>)",
                     "prefix": "{", "suffix": "; value }"},
         "subst": [(r"re:cursor\.enum_val_(\w+)\(\)\.map\(EnumVariantValue::(\w+)\)", r"opt_map_\2(cursor.enum_val_\1())", 3, "R7 Option::map with an enum constructor")],
         "ensures": [
             # C05: "Enumerators keep their values": a bool enum its truth value, a signed enum the signed value, an unsigned
             # enum the UNSIGNED value (all 64 bits)
             "ffi_cursor_kind(cursor.x) != CXCursor_EnumConstantDecl ==> r.is_none()",
             "ffi_cursor_kind(cursor.x) == CXCursor_EnumConstantDecl ==> r == Some(if is_bool { EnumVariantValue::Boolean(ffi_enum_value(cursor.x) != 0) } "
             "else if is_signed { EnumVariantValue::Signed(ffi_enum_value(cursor.x)) } else { EnumVariantValue::Unsigned(ffi_enum_value_unsigned(cursor.x)) })",
         ]},
        # the integer-literal arm of <Var as CodeGenerator>::codegen (block, R18): the literal denotes the value
        # in the signedness of the variable's C type (an unsigned value carried as i64 is re-read as u64)
        {"kind": "fn", "file": "bindgen/codegen/mod.rs", "name": "var_int_arm", "impl": r"^impl CodeGenerator for Var$", "ret": "r",
         "closure": {"enclosing": "codegen", "anchor": "VarType::Int(val) => {", "nth": 0,
                     "signature": "fn var_int_arm(ctx: &BindgenContext, var_ty: TypeId, val: i64) -> (r: Option<Tok>)"},
         "subst": [("var_ty .into_resolver() .through_type_aliases() .through_type_refs() .resolve(ctx) .expect_type() .as_integer() .unwrap()", "resolved_int_kind(var_ty, ctx)", 1, "R5"),
                   ("val as _", "val as u64", 1, "inferred cast target written out (uint_expr takes u64)")],
         "ensures": [
             "r.is_some()",
             "s_int_kind_of(var_ty, ctx).signed ==> lit_value(r.unwrap()) == val as int",
             "!s_int_kind_of(var_ty, ctx).signed ==> lit_value(r.unwrap()) == (val as u64) as int",
         ]},
    ],
}

# Known finding F35 (witness): the enumerators of an enum declared inside a class template are all emitted with the value 0
# (libclang does not compute them in a dependent context and reports 0); C05 demands the C value "or it is omitted".
# Expected to FAIL on the unchanged tree: the value statement does not look at where the enumerator is declared.
import copy as _copy
_w = _copy.deepcopy(next(i for i in UNIT["items"] if i.get("name") == "enum_value_of"))
_w["rename"] = "enum_value_of__in_template"
_w["rename_tag"] = "@template_enumerators_F35"
_w["witness"] = True
_w["closure"]["signature"] = _w["closure"]["signature"].replace("fn enum_value_of(", "fn enum_value_of__in_template(")
_w["ensures"] = ["ffi_in_template(cursor.x) && ffi_cursor_kind(cursor.x) == CXCursor_EnumConstantDecl ==> r.is_none()"]
UNIT["items"].append(_w)
