"""Unit `target_sel` (C06): the layout numbers are libclang's numbers FOR THE TARGET: it is told the target unless it is the host's."""
import os
ENV = os.path.join(os.path.dirname(os.path.dirname(os.path.abspath(__file__))), "env")
LIB = "bindgen/lib.rs"

UNIT = {
    "name": "target_sel",
    "env": [os.path.join(ENV, "target_sel_env.rs")],
    "declared_trusted": {r"external_body": 6},
    "items": [
        {"kind": "options_bools", "extra": ["pub clang_args: Vec<Arg>"]},
        {"kind": "fn", "file": LIB, "name": "is_host_build", "impl": r"^impl Bindings$", "ret": "r",
         "closure": {"enclosing": "generate", "anchor": "let is_host_build =", "nth": 0, "stmt": "let",
                     "signature": "fn is_host_build(options: &BindgenOptions, effective_target: &Triple, explicit_target: bool) -> (r: bool)",
                     "prefix": "{", "suffix": "; is_host_build }"},
         "subst": [(r"re:rust_to_clang_target\(HOST_TARGET\)\s*==\s*effective_target", "triple_eq(&host_clang_target(), effective_target)", 1, "R21 str == str")],
         # a build counts as a host build only when the effective target IS the host triple (same architecture is not enough:
         # x86_64-pc-windows-msvc and x86_64-unknown-linux-gnu lay out `long` and `long double` differently)
         "ensures": ["r ==> same_triple(&host_triple(), effective_target)"]},
        {"kind": "fn", "file": LIB, "name": "insert_target_arg", "impl": r"^impl Bindings$", "ret": "r_unit",
         "closure": {"enclosing": "generate", "anchor_re": r"(?m)^\s*if\s+[^{;\n]*\bis_host_build\b[^{;\n]*\{", "nth": 0, "stmt": True,
                     "signature": "fn insert_target_arg(options: &mut BindgenOptions, effective_target: &Triple, explicit_target: bool, is_host_build: bool)",
                     "prefix": "{", "suffix": "}"},
         "subst": [(("options.clang_args.insert( 0,", ");"), "vec_insert_front(&mut options.clang_args, make_target_arg(effective_target));", 1, "R17 Vec::insert(0, ..) + R4 string construction")],
         "ensures": [
             # C06 "for the same target": without an explicit --target, a non-host target is passed on to libclang, in front
             "!explicit_target && !is_host_build ==> final(options).clang_args@ == seq![target_arg(effective_target)] + old(options).clang_args@",
             "explicit_target || is_host_build ==> final(options).clang_args@ == old(options).clang_args@",
         ]},
    ],
}
