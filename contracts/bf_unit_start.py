"""Unit `bf_unit_start` (C03): the struct offset at which a bit-field allocation unit is placed."""
import os
ENV = os.path.join(os.path.dirname(os.path.dirname(os.path.abspath(__file__))), "env")
CG = "bindgen/codegen/mod.rs"

UNIT = {
    "name": "bf_unit_start",
    "env": [os.path.join(ENV, "bf_unit_start_env.rs")],
    "declared_trusted": {r"external_body": 3},
    "items": [
        # `bfields.first().and_then(|bf| Some(bf.offset()? - bf.offset_into_unit()))`: the closure (rule R18, brace-less form)
        {"kind": "fn", "file": CG, "name": "unit_start_of", "impl": r"^impl FieldCodegen<'_> for BitfieldUnit$", "ret": "r",
         "closure": {"enclosing": "codegen", "anchor": ".and_then(|bf|", "nth": 0, "expr": True,
                     "signature": "fn unit_start_of(bf: &Bitfield) -> (r: Option<usize>)",
                     "prefix": "{", "suffix": "}"},
         # established by bitfields_to_allocation_units in clang-offset mode (unit bf_alloc): offset_into_unit = offset - unit start
         "requires": ["bf.s_offset().is_some() ==> bf.s_offset_into_unit() <= bf.s_offset().unwrap()"],
         "ensures": [
             # C03: every accessor addresses bit `offset_into_unit` of the unit, so C and Rust touch the same bits
             # only if the unit itself starts at (clang offset of the field) - (its offset into the unit)
             "r == (match bf.s_offset() { Some(o) => Some((o - bf.s_offset_into_unit()) as usize), None => None })",
         ]},
    ],
}
