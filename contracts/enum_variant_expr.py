"""Unit `enum_variant_expr` (C05): an enumerator's value expression fits the type of the constant it initialises."""
import os
ENV = os.path.join(os.path.dirname(os.path.dirname(os.path.abspath(__file__))), "env")
CG = "bindgen/codegen/mod.rs"
EB = {"impl": r"^impl EnumBuilder$", "impl_header": "impl EnumBuilder", "impl_name": "EnumBuilder"}

UNIT = {
    "name": "enum_variant_expr",
    "env": [os.path.join(ENV, "enum_variant_expr_env.rs")],
    "declared_trusted": {r"external_body": 11},
    "items": [
        {"kind": "enum", "file": "bindgen/ir/enum_ty.rs", "name": "EnumVariantValue", "prefix": "#[derive(Copy, Clone, PartialEq, Eq, Structural)]"},
        {"kind": "enum", "file": CG, "name": "EnumBuilderKind", "prefix": "pub"},
        {"kind": "fn", "file": CG, "name": "is_rust_enum", **EB, "ret": "r", "ensures": ["r == (self.kind is Rust)"]},
        # C05 ("a Rust type that can represent that value ... under every enum style"): the first statements of
        # EnumBuilder::with_variant (R18, `until` mode): an enumerator of a bool-underlying enum is the integer 0/1 as the
        # discriminant of a Rust enum, and the literal true/false in every other style (where the constant's type is `bool`);
        # signed and unsigned enumerators are literals of their own value
        {"kind": "fn", "file": CG, "name": "variant_value_expr", "impl": r"^impl EnumBuilder$", "ret": "r",
         "closure": {"enclosing": "with_variant", "anchor_re": r"(?m)^\s*let variant_name = ctx\.rust_mangle", "nth": 0, "stmt": "until", "until": "match self.kind {",
                     "signature": "fn variant_value_expr(self_: &EnumBuilder, ctx: &BindgenContext, variant: &EnumVariant) -> (r: Tok)",
                     "prefix": "{", "suffix": "expr }"},
         "subst": [("u64::from(v)", "bool_to_u64(v)", 0, "R21 u64::from(bool) (if present)"),
                   (r"re:quote!\(\s*#v\s*\)", "q_bool(v)", 0, "R4 bool literal (if present)"),
                   (r"re:(?<![\w.])self(?![\w(:])", "self_", 0, "R18 captured self")],
         "ensures": [
             "variant.s_val() matches EnumVariantValue::Boolean(v) ==> r == (if self_.kind is Rust { lit_u(if v { 1u64 } else { 0u64 }) } else { lit_bool(v) })",
             "variant.s_val() matches EnumVariantValue::Signed(v) ==> r == lit_i(v)",
             "variant.s_val() matches EnumVariantValue::Unsigned(v) ==> r == lit_u(v)",
         ]},
    ],
}
