"""Unit `edition` (C14): edition validation and feature synchronisation in Builder::generate."""
import os
ENV = os.path.join(os.path.dirname(os.path.dirname(os.path.abspath(__file__))), "env")

UNIT = {
    "name": "edition",
    "env": [os.path.join(ENV, "edition_env.rs")],
    "declared_trusted": {r"external_body": 5},
    "items": [
        # C14 / C12 ("an unsupported edition/target pair yields its error"): choosing a target leaves the edition the user chose alone -
        # whatever order the two builder calls come in, Builder::generate sees both and rejects the pair (sync_features below)
        {"kind": "fn", "file": "bindgen/lib.rs", "name": "set_rust_target", "impl": r"^impl BindgenOptions$", "impl_header": "impl BindgenOptions", "impl_name": "BindgenOptions",
         "ensures": ["final(self).rust_target == rust_target", "final(self).rust_edition == old(self).rust_edition", "final(self).rust_features == old(self).rust_features"]},
        # the two builder methods (declared inside the options! macro invocation; found by name in the macro's token text): each
        # records exactly what it was given and leaves the other choice alone - an explicit edition is never dropped, so the
        # unsupported-edition check of Builder::generate cannot be bypassed by the order of the calls
        {"kind": "fn", "file": "bindgen/options/mod.rs", "name": "rust_edition", "impl_header": "impl Builder", "impl_name": "Builder", "ret": "r",
         # R34 `mut self` (unsupported by Verus) -> `self` moved into a mutable local at the top of the body
         "subst": [("(mut self,", "(self,", 1, "R34 mut self"), (r"re:(?<![\w.])self(?=\.options)", "this", 0, "R34 mut self"), (r"re:(?m)^(\s*)self\s*$", r"\1this", 1, "R34 mut self")],
         "ghost_start": "let mut this = self;",
         "ensures": ["r.options.rust_edition == Some(rust_edition)", "r.options.rust_target == self.options.rust_target"]},
        {"kind": "fn", "file": "bindgen/lib.rs", "name": "sync_features", "impl": r"^impl Builder$", "impl_nth": 0, "ret": "r",
         "closure": {"enclosing": "generate", "anchor": "self.options.rust_features = match self.options.rust_edition {", "nth": 0,
                     "signature": "fn sync_features(self_: &Builder) -> (r: Result<RustFeatures, BindgenError>)",
                     "prefix": "{ Ok(match self_.options.rust_edition", "suffix": ") }"},
         "subst": [("self", "self_", 1, "R18 captured self")],
         "ensures": [
             # "An edition that the target does not support is rejected with an error"
             "(match r { Err(BindgenError::UnsupportedEdition(e, t)) => self_.options.rust_edition == Some(e) && t == self_.options.rust_target && !e.s_available(t), Err(_) => false, Ok(_) => true })",
             "r.is_err() == (self_.options.rust_edition.is_some() && !self_.options.rust_edition.unwrap().s_available(self_.options.rust_target))",
             # otherwise the features are exactly those of (target, chosen edition | newest edition of the target)
             "(match r { Ok(f) => f == (match self_.options.rust_edition { Some(e) => s_new(self_.options.rust_target, e), None => s_new_latest(self_.options.rust_target) }), Err(_) => true })",
         ]},
    ],
}
