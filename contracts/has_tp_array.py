"""Unit `has_tp_array` (C07): HasTypeParameterInArray::{insert, constrain}."""
import os
ENV = os.path.join(os.path.dirname(os.path.dirname(os.path.abspath(__file__))), "env")
F = "bindgen/ir/analysis/has_type_param_in_array.rs"
SET = "has_type_parameter_in_array"

SPEC = """
// rule: a type "has a type parameter in an array" iff it is an array of a type parameter,
// or embeds / aliases / instantiates something that has
pub open spec fn rule(s: Set<ItemId>, ctx: &BindgenContext, id: ItemId) -> bool {
    match ctx.s_item(id).s_as_type() {
        None => false,
        Some(ty) => match ty.s_kind() {
            TypeKind::Array(t, _) => ctx.s_type(t).s_canonical(ctx).s_kind() is TypeParam,
            TypeKind::ResolvedTypeRef(t) | TypeKind::TemplateAlias(t, _) | TypeKind::Alias(t) | TypeKind::BlockPointer(t) => s.contains(t.0),
            TypeKind::Comp(info) => s_any_base(s, &info) || s_any_field(s, &info),
            TypeKind::TemplateInstantiation(inst) => s_any_arg(s, &inst) || s.contains(inst.s_definition().0),
            _ => false,
        },
    }
}
"""
IMPL = {"impl": r"^impl HasTypeParameterInArray<'_>$", "impl_header": "impl<'ctx> HasTypeParameterInArray<'ctx>", "impl_name": "HasTypeParameterInArray"}
IMPL2 = {"impl": r"^impl<'ctx> MonotoneFramework for HasTypeParameterInArray<'ctx>$", "impl_header": "impl<'ctx> HasTypeParameterInArray<'ctx>", "impl_name": "HasTypeParameterInArray"}

UNIT = {
    "name": "has_tp_array",
    "env": [os.path.join(ENV, "has_float_env.rs")],
    "declared_trusted": {r"external_body": 25},
    "items": [
        {"kind": "enum", "file": "bindgen/ir/analysis/mod.rs", "name": "ConstrainResult", "prefix": "#[derive(Copy, Clone, PartialEq, Eq, Structural)]"},
        {"kind": "enum", "file": "bindgen/ir/ty.rs", "name": "TypeKind"},
        {"kind": "struct", "file": F, "name": "HasTypeParameterInArray"},
        {"kind": "raw", "label": "spec", "text": SPEC},
        {"kind": "fn", "file": F, "name": "insert", **IMPL, "ret": "r",
         "subst": [("<Id: Into<ItemId>>", "", 1, "R12"), ("id: Id", "id: ItemId", 1, "R12"),
                   ("let id = id.into();", "", 1, "R12"),
                   ('assert!( was_not_already_in_set, "We shouldn\'t try and insert {id:?} twice because if it was \\\n             already in the set, `constrain` should have exited early." );', "runtime_assert(was_not_already_in_set);", 1, "R15 assert!")],
         "requires": ["!old(self).%s.view().contains(id)" % SET],
         "ensures": ["final(self).%s.view() == old(self).%s.view().insert(id)" % (SET, SET), "r == ConstrainResult::Changed", "final(self).ctx == old(self).ctx"]},
        {"kind": "fn", "file": F, "name": "constrain", **IMPL2, "ret": "r",
         "subst": [
             ("info.base_members().iter().any(|base| { self.has_type_parameter_in_array.contains(&base.ty.into()) })", "any_base_in(&self.has_type_parameter_in_array, info)", 1, "R5"),
             ("info.fields().iter().any(|f| match *f { Field::DataMember(ref data) => self .has_type_parameter_in_array .contains(&data.ty().into()), Field::Bitfields(..) => false, })", "any_field_in(&self.has_type_parameter_in_array, info)", 1, "R5"),
             ("template.template_arguments().iter().any(|arg| { self.has_type_parameter_in_array.contains(&arg.into()) })", "any_arg_in(&self.has_type_parameter_in_array, template)", 1, "R5"),
             ("(&t.into())", "(&t.item())", 1, "R12"),
             ("(&template.template_definition().into())", "(&template.template_definition().item())", 1, "R12"),
         ],
         "ensures": [
             "final(self).%s.view() == old(self).%s.view() || final(self).%s.view() == old(self).%s.view().insert(id)" % (SET, SET, SET, SET),
             "(r == ConstrainResult::Changed) == (final(self).%s.view() != old(self).%s.view())" % (SET, SET),
             "final(self).%s.view().contains(id) == (old(self).%s.view().contains(id) || rule(old(self).%s.view(), old(self).ctx, id))" % (SET, SET, SET),
         ]},
    ],
}
