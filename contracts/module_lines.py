"""Unit `module_lines` (C10): a module the user put lines into is never dropped as empty."""
import os
ENV = os.path.join(os.path.dirname(os.path.dirname(os.path.abspath(__file__))), "env")

UNIT = {
    "name": "module_lines",
    "env": [os.path.join(ENV, "module_lines_env.rs")],
    "declared_trusted": {r"external_body": 13},
    "items": [
        # C10 ("the bindings compile as soon as the user supplies a definition"): the --module-raw-line statement of
        # <Module as CodeGenerator>::codegen (if-let statement R18, loop R13): every line given for the module is emitted, in order,
        # and a module that received one counts as non-empty - also when every item of the namespace is blocklisted
        {"kind": "fn", "file": "bindgen/codegen/mod.rs", "name": "emit_module_raw_lines", "impl": r"^impl CodeGenerator for Module$",
         "closure": {"enclosing": "codegen", "anchor_re": r"(?m)^\s*if let Some\(raw_lines\) = ctx\.options\(\)\.module_lines\.get\(&path\) \{", "nth": 0, "stmt": True,
                     "signature": "fn emit_module_raw_lines(ctx: &BindgenContext, path: ModPath, result: &mut CodegenResult, found_any: &mut bool)",
                     "prefix": "{", "suffix": "}"},
         "subst": [
             (r"re:(?<![\w.])found_any(?![\w(:])", "(*found_any)", 0, "R18 by-mut-ref capture"),
             ("for raw_line in raw_lines", "let mut it = VecCursor::new(raw_lines); while it.has_next()", 1, "R13"),
             (r"re:proc_macro2::TokenStream::from_str\(raw_line\)\s*\.unwrap\(\)", "tokens_from_str(raw_line)", 1, "R21 token parser"),
         ],
         "ghost_start": "let ghost r0 = result.items(); let ghost f0 = *found_any;",
         "loops": {0: {"body_start": "let raw_line = it.next_item();", "decreases": "it.all().len() - it.pos()",
                       "invariant": ["it.all() == ctx.spec_options().module_lines.s_get(&path).unwrap() && 0 <= it.pos() <= it.all().len()",
                                     "ctx.spec_options().module_lines.s_get(&path).is_some()",
                                     "result.items() == r0 + Seq::new(it.pos() as nat, |i: int| tok_of(it.all()[i]@))",
                                     "*found_any == (f0 || it.pos() > 0)"],
                       "proof": "assert(Seq::new(it.pos() as nat, |i: int| tok_of(it.all()[i]@)) =~= Seq::new((it.pos() - 1) as nat, |i: int| tok_of(it.all()[i]@)).push(tok_of(it.all()[it.pos() - 1]@)));"}},
         "proof_start": "assert(r0 + Seq::new(0 as nat, |i: int| tok_of(ctx.spec_options().module_lines.s_get(&path).unwrap()[i]@)) =~= r0);",
         "ensures": [
             "*final(found_any) == (*old(found_any) || (ctx.spec_options().module_lines.s_get(&path).is_some() && ctx.spec_options().module_lines.s_get(&path).unwrap().len() > 0))",
             "ctx.spec_options().module_lines.s_get(&path).is_none() ==> final(result).items() == old(result).items()",
             "ctx.spec_options().module_lines.s_get(&path).is_some() ==> final(result).items() == old(result).items() + Seq::new(ctx.spec_options().module_lines.s_get(&path).unwrap().len(), |i: int| tok_of(ctx.spec_options().module_lines.s_get(&path).unwrap()[i]@))",
         ]},
    ],
}
