"""Unit `prim_types` (C02): which Rust type stands for each C integer / floating kind."""
import os
ENV = os.path.join(os.path.dirname(os.path.dirname(os.path.abspath(__file__))), "env")
HP = "bindgen/codegen/helpers.rs"
LY = "bindgen/ir/layout.rs"

SPEC = """
// C11 6.2.5 / <stdint.h>: width and signedness of the fixed-width kinds (from their names)
pub open spec fn fixed_kind(k: IntKind) -> Option<(int, bool)> {
    match k {
        IntKind::I8 => Some((1, true)), IntKind::U8 => Some((1, false)),
        IntKind::I16 => Some((2, true)), IntKind::U16 => Some((2, false)),
        IntKind::I32 => Some((4, true)), IntKind::U32 => Some((4, false)),
        IntKind::I64 => Some((8, true)), IntKind::U64 => Some((8, false)),
        IntKind::I128 => Some((16, true)), IntKind::U128 => Some((16, false)),
        _ => None,
    }
}
// std::os::raw / core::ffi documentation: the alias that is "equivalent to C's <type>"
pub open spec fn c_alias(k: IntKind) -> Option<Seq<char>> {
    match k {
        IntKind::Char { .. } => Some("c_char"@), IntKind::SChar => Some("c_schar"@), IntKind::UChar => Some("c_uchar"@),
        IntKind::Short => Some("c_short"@), IntKind::UShort => Some("c_ushort"@),
        IntKind::Int => Some("c_int"@), IntKind::UInt => Some("c_uint"@),
        IntKind::Long => Some("c_long"@), IntKind::ULong => Some("c_ulong"@),
        IntKind::LongLong => Some("c_longlong"@), IntKind::ULongLong => Some("c_ulonglong"@),
        _ => None,
    }
}
pub open spec fn size_known(s: usize) -> bool { s == 1 || s == 2 || s == 4 || s == 8 || s == 16 }
// <stdint.h> / <stddef.h> (C11 7.20, 7.19): the well-known typedef names and the Rust primitive of the same width AND
// signedness; ptrdiff_t and intptr_t are signed, size_t and uintptr_t unsigned
pub open spec fn std_typedef(name: &str, size_t_is_usize: bool) -> Option<Seq<char>> {
    if name == "int8_t" { Some("i8"@) } else if name == "uint8_t" { Some("u8"@) }
    else if name == "int16_t" { Some("i16"@) } else if name == "uint16_t" { Some("u16"@) }
    else if name == "int32_t" { Some("i32"@) } else if name == "uint32_t" { Some("u32"@) }
    else if name == "int64_t" { Some("i64"@) } else if name == "uint64_t" { Some("u64"@) }
    else if name == "size_t" && size_t_is_usize { Some("usize"@) }
    else if name == "uintptr_t" { Some("usize"@) }
    else if name == "ssize_t" && size_t_is_usize { Some("isize"@) }
    else if name == "intptr_t" || name == "ptrdiff_t" { Some("isize"@) }
    else { None }
}
"""

REVEAL = "reveal_strlit(\"int8_t\"); reveal_strlit(\"uint8_t\"); reveal_strlit(\"int16_t\"); reveal_strlit(\"uint16_t\"); reveal_strlit(\"int32_t\"); reveal_strlit(\"uint32_t\"); reveal_strlit(\"int64_t\"); reveal_strlit(\"uint64_t\"); reveal_strlit(\"size_t\"); reveal_strlit(\"uintptr_t\"); reveal_strlit(\"ssize_t\"); reveal_strlit(\"intptr_t\"); reveal_strlit(\"ptrdiff_t\"); reveal_strlit(\"i8\"); reveal_strlit(\"u8\"); reveal_strlit(\"i16\"); reveal_strlit(\"u16\"); reveal_strlit(\"i32\"); reveal_strlit(\"u32\"); reveal_strlit(\"i64\"); reveal_strlit(\"u64\"); reveal_strlit(\"usize\"); reveal_strlit(\"isize\");"
PQ = "syn::parse_quote! { %s }"
PRIM = {"int": "ty_int({signed}, {bytes})", "float": "ty_float({bytes})", "bool": "ty_bool()"}

UNIT = {
    "name": "prim_types",
    "env": [os.path.join(ENV, "prim_types_env.rs")],
    "declared_trusted": {r"external_body": 17},
    "items": [
        {"kind": "enum", "file": "bindgen/ir/int.rs", "name": "IntKind", "prefix": "#[derive(Copy, Clone, PartialEq, Eq)]"},
        {"kind": "enum", "file": "bindgen/ir/ty.rs", "name": "FloatKind", "prefix": "#[derive(Copy, Clone, PartialEq, Eq)]"},
        {"kind": "struct", "file": LY, "name": "Layout", "prefix": "#[derive(Clone, Copy, PartialEq, Eq)]"},
        {"kind": "raw", "label": "prim_spec", "text": SPEC},
        {"kind": "fn", "file": LY, "name": "known_type_for_size", "impl": r"^impl Layout$", "impl_header": "impl Layout", "impl_name": "Layout", "ret": "r",
         "prim_tokens": PRIM,
         "subst": [("Option<syn::Type>", "Option<Tok>", 1, "R4")],
         "ensures": ["r.is_some() <==> size_known(size)",
                     "r.is_some() ==> ty_size(r.unwrap()) == size && ty_align(r.unwrap()) == size && ty_signed(r.unwrap()) == Some(false) && ty_cname(r.unwrap()).is_none()"]},
        {"kind": "fn", "file": HP, "name": "integer_type", "ret": "r",
         "subst": [("Option<syn::Type>", "Option<Tok>", 1, "R4")],
         "ensures": ["r.is_some() <==> size_known(layout.size)", "r.is_some() ==> ty_size(r.unwrap()) == layout.size"]},
        {"kind": "fn", "file": HP, "name": "int_kind_rust_type", "ret": "r",
         "prim_tokens": PRIM,
         "subst": [("syn::Type", "Tok", 1, "R4"), (PQ % "bindgen_cchar16_t", 'ty_named("bindgen_cchar16_t")', 1, "R4"),
                   ('syn::parse_str(name).expect("Invalid integer type.")', "ty_custom(name)", 1, "R4"),
                   (PQ % "[u64; 2]", "ty_u64x2()", 2, "R4")],
         "requires": ["ik is WChar ==> layout.is_some() && size_known(layout.unwrap().size)"],
         "ensures": [
             # "same width and signedness"
             "fixed_kind(ik).is_some() ==> ty_size(r) == fixed_kind(ik).unwrap().0 && ty_align(r) == ty_size(r) && ty_signed(r) == Some(fixed_kind(ik).unwrap().1)",
             "ik is Bool ==> ty_is_bool(r)",
             # platform kinds go to the alias documented as equivalent to that C type
             "c_alias(ik).is_some() ==> ty_cname(r) == c_alias(ik)",
             "c_alias(ik).is_none() ==> ty_cname(r).is_none()",
             # wchar_t: an unsigned integer of exactly its size
             "ik is WChar ==> ty_size(r) == layout.unwrap().size && ty_signed(r) == Some(false)",
         ]},
        {"kind": "fn", "file": HP, "name": "float_kind_rust_type", "ret": "r", "r2_skip": True,
         "subst": [("syn::Type", "Tok", 1, "R4"), (PQ % "root::__BindgenFloat16", 'ty_named("root::__BindgenFloat16")', 1, "R4"),
                   (PQ % "__BindgenFloat16", 'ty_named("__BindgenFloat16")', 1, "R4"),
                   (PQ % "[u64; 2]", "ty_u64x2()", 1, "R4"),
                   ("super::integer_type(", "integer_type(", 1, "R5"),
                   ('debug_assert!( false, "How didn\'t we know the layout for a primitive type?" );', "debug_assert_stub(false);", 1, "R15 debug_assert!(false)")],
         "prim_tokens": PRIM,
         "requires": ["fk is LongDouble ==> layout.is_some()"],
         "ensures": [
             "fk is Float && ctx.spec_options().convert_floats ==> ty_is_float(r) && ty_size(r) == 4",
             "fk is Double && ctx.spec_options().convert_floats ==> ty_is_float(r) && ty_size(r) == 8",
             "fk is Float && !ctx.spec_options().convert_floats ==> ty_cname(r) == Some(\"c_float\"@)",
             "fk is Double && !ctx.spec_options().convert_floats ==> ty_cname(r) == Some(\"c_double\"@)",
             # long double / __float128: a type of exactly the C size (x86-64: 16 bytes, 16-aligned)
             "fk is LongDouble && size_known(layout.unwrap().size) ==> ty_size(r) == layout.unwrap().size",
             "fk is LongDouble && (layout.unwrap().size == 4 || layout.unwrap().size == 8) ==> ty_is_float(r)",
             # no Rust type of that size: the f64 fallback (what makes `long double _Complex` 16 bytes: known finding F24)
             "fk is LongDouble && !size_known(layout.unwrap().size) ==> ty_is_float(r) && ty_size(r) == 8",
             "fk is Float128 ==> ty_size(r) == 16 && ty_align(r) == 16",
         ]},
        # a complex type is two components: its size is twice the component's (C11 6.2.5p13: "same representation and
        # alignment as an array of two elements of the corresponding real type")
        {"kind": "fn", "file": "bindgen/codegen/mod.rs", "name": "complex_arm", "impl": r"^impl TryToRustTy for Type$", "ret": "r",
         "closure": {"enclosing": "try_to_rust_ty", "anchor": "TypeKind::Complex(fk) => {", "nth": 0,
                     "signature": "fn complex_arm(self_: &Type, ctx: &BindgenContext, fk: FloatKind) -> (r: Result<Tok, CgError>)"},
         "subst": [(PQ % "root::__BindgenComplex<#float_path>", "ty_complex_of(true, &float_path)", 1, "R4"),
                   (PQ % "__BindgenComplex<#float_path>", "ty_complex_of(false, &float_path)", 1, "R4"),
                   ("self", "self_", 1, "R18 captured self")],
         "requires": ["self_.s_layout(ctx).is_some()"],
         "ensures": [
             "r.is_ok()",
             "(fk is Float || fk is Double) && ctx.spec_options().convert_floats ==> (match r { Ok(t) => ty_size(t) == (if fk is Float { 8int } else { 16int }), Err(_) => false })",
         ]},
        # the names bindgen itself vouches for on blocklisted types (unit vouch) are exactly the ones it maps to primitives
        {"kind": "fn", "file": "bindgen/ir/context.rs", "name": "is_stdint_type", "impl": r"^impl BindgenContext$", "impl_header": "impl BindgenContext", "impl_name": "BindgenContext", "ret": "r",
         "subst": [("self.options.size_t_is_usize", "self.options().size_t_is_usize", 0, "R5 field read (if present)")],
         "proof_start": REVEAL,
         "ensures": ["r == std_typedef(name, self.spec_options().size_t_is_usize).is_some()"]},
        {"kind": "fn", "file": "bindgen/codegen/mod.rs", "name": "type_from_named", "ret": "r",
         "subst": [("Option<syn::Type>", "Option<Tok>", 1, "R4")],
         "proof_start": REVEAL,
         "ensures": [
             "match r { Some(t) => std_typedef(name, ctx.spec_options().size_t_is_usize) == Some(ty_prim_name(t)), None => std_typedef(name, ctx.spec_options().size_t_is_usize).is_none() }",
         ]},
    ],
}

# Known finding F24 (witness): `long double _Complex` (32 bytes on x86-64) is emitted as __BindgenComplex<f64> (16 bytes): the
# arm hands the layout of the WHOLE complex type to float_kind_rust_type as if it were the component's.  Expected to FAIL.
import copy as _copy
_w = _copy.deepcopy(next(i for i in UNIT["items"] if i.get("name") == "complex_arm"))
_w["rename"] = "complex_arm__long_double"
_w["rename_tag"] = "@long_double_complex_F24"
_w["witness"] = True
_w["closure"]["signature"] = _w["closure"]["signature"].replace("fn complex_arm(", "fn complex_arm__long_double(")
_w["requires"] = ["self_.s_layout(ctx).is_some()", "self_.s_layout(ctx).unwrap().size == 32 && self_.s_layout(ctx).unwrap().align == 16"]
_w["ensures"] = ["fk is LongDouble ==> (match r { Ok(t) => ty_size(t) == self_.s_layout(ctx).unwrap().size, Err(_) => false })"]
UNIT["items"].append(_w)
