"""Unit `impl_debug` (C10, C08): a hand-written Debug impl does not reach through a blocklisted element type."""
import os
ENV = os.path.join(os.path.dirname(os.path.dirname(os.path.abspath(__file__))), "env")

UNIT = {
    "name": "impl_debug",
    "env": [os.path.join(ENV, "impl_debug_env.rs")],
    "declared_trusted": {r"external_body": 9},
    "items": [
        {"kind": "fn", "file": "bindgen/codegen/impl_debug.rs", "name": "array_arm", "impl": r"^impl<'a> ImplDebug<'a> for Item$", "ret": "r",
         "closure": {"enclosing": "impl_debug", "anchor": "TypeKind::Array(t, len) => {", "nth": 0,
                     "signature": "fn array_arm(self_: &Item, ctx: &BindgenContext, name: &str, name_ident: &Tok, t: TypeId, len: usize) -> (r: Option<Piece>)"},
         "subst": [
             ('Some((format!("{name}: Array with length {len}"), vec![]))', "Some(piece_text_only(name, len))", 1, "R4"),
             ("debug_print(name, &quote! { #name_ident })", "debug_print_member(name, name_ident)", 1, "R4"),
             ("self", "self_", 1, "R18 captured self"),
         ],
         "ensures": [
             # C10: "Traits are not derived through a blocklisted type unless the user vouches for it" -- nor implemented by hand:
             # an array whose element type takes no part in Debug impls is left out (found and repaired F19)
             "!ctx.s_item(t).s_debuggable(ctx) ==> r.is_none()",
             "ctx.s_item(t).s_debuggable(ctx) ==> r.is_some() && (!self_.s_tp_in_array(ctx) ==> prints_member(r.unwrap()))",
         ]},
    ],
}
