"""Unit `impl_debug` (C10, C08): a hand-written Debug impl does not reach through a blocklisted element type."""
import os
ENV = os.path.join(os.path.dirname(os.path.dirname(os.path.abspath(__file__))), "env")

SPEC = """
// the getter calls a hand-written Debug impl makes for the first k bit-fields of a unit: one per NAMED bit-field, in order
pub open spec fn getter_calls(bfs: Seq<Bitfield>, k: int) -> Seq<Option<Tok>>
    decreases k
{
    if k <= 0 { Seq::<Option<Tok>>::empty() }
    else if bfs[k - 1].s_name().is_some() { getter_calls(bfs, k - 1).push(Some(ident_raw(bfs[k - 1].s_getter_name()))) }
    else { getter_calls(bfs, k - 1) }
}
"""

UNIT = {
    "name": "impl_debug",
    "env": [os.path.join(ENV, "impl_debug_env.rs")],
    "declared_trusted": {r"external_body": 37},
    "items": [
        {"kind": "fn", "file": "bindgen/codegen/impl_debug.rs", "name": "array_arm", "impl": r"^impl<'a> ImplDebug<'a> for Item$", "ret": "r",
         "closure": {"enclosing": "impl_debug", "anchor": "TypeKind::Array(t, len) => {", "nth": 0,
                     "signature": "fn array_arm(self_: &Item, ctx: &BindgenContext, name: &str, name_ident: &Tok, t: TypeId, len: usize) -> (r: Option<Piece>)"},
         "subst": [
             ('Some((format!("{name}: Array with length {len}"), vec![]))', "Some(piece_text_only(name, len))", 1, "R4"),
             ("debug_print(name, &quote! { #name_ident })", "debug_print_member(name, name_ident)", 1, "R4"),
             (r"re:&(\w+)\.into\(\)", r"&\1.item()", 0, "R12 TypeId -> ItemId (if present)"),
             ("self", "self_", 1, "R18 captured self"),
         ],
         "ensures": [
             # C10: "Traits are not derived through a blocklisted type unless the user vouches for it" -- nor implemented by hand:
             # an array whose element type takes no part in Debug impls is left out (found and repaired F19)
             "!ctx.s_item(t).s_debuggable(ctx) ==> r.is_none()",
             "ctx.s_item(t).s_debuggable(ctx) ==> r.is_some() && (!self_.s_tp_in_array(ctx) ==> prints_member(r.unwrap()))",
         ]},

        {"kind": "fn", "file": "bindgen/codegen/impl_debug.rs", "name": "instantiation_arm", "impl": r"^impl<'a> ImplDebug<'a> for Item$", "ret": "r",
         "closure": {"enclosing": "impl_debug", "anchor": "TypeKind::TemplateInstantiation(ref inst) => {", "nth": 0,
                     "signature": "fn instantiation_arm(self_: &Item, ctx: &BindgenContext, name: &str, name_ident: &Tok, inst: &TemplateInstantiation) -> (r: Option<Piece>)"},
         "subst": [
             ('Some((format!("{name}: opaque"), vec![]))', "Some(piece_opaque(name))", 1, "R4"),
             ("debug_print(name, &quote! { #name_ident })", "debug_print_member(name, name_ident)", 1, "R4"),
             ("for arg in inst.template_arguments()", "let mut it = IdCursor::new(inst.template_arguments()); while it.has_next()", 0, "R13 (if present)"),
             ("ctx.resolve_item(arg)", "ctx.resolve_item(*arg)", 0, "R13 element by reference (if present)"),
             ("self", "self_", 1, "R18 captured self"),
         ],
         "loops": {0: {"body_start": "let arg = it.next_item();", "decreases": "it.all().len() - it.pos()",
                       "invariant": ["it.all() == inst.s_args() && 0 <= it.pos() <= it.all().len()", "!inst.s_opaque(ctx, self_)",
                                     "forall|j: int| 0 <= j < it.pos() ==> ctx.s_item(#[trigger] inst.s_args()[j]).s_debuggable(ctx)"]}},
         "ensures": [
             # C10 (as F19): a member is printed with {:?} only if every template argument takes part in Debug impls -
             # `derive(Debug)` on the template demands `T: Debug` of each
             "r.is_some() && prints_member(r.unwrap()) ==> forall|j: int| 0 <= j < inst.s_args().len() ==> ctx.s_item(#[trigger] inst.s_args()[j]).s_debuggable(ctx)",
             "inst.s_opaque(ctx, self_) ==> r.is_some() && !prints_member(r.unwrap())",
         ]},
        {"kind": "raw", "label": "spec", "text": SPEC},
        {"kind": "fn", "file": "bindgen/codegen/impl_debug.rs", "name": "impl_debug", "impl": r"^impl ImplDebug<'_> for BitfieldUnit$", "impl_header": "impl BitfieldUnit", "impl_name": "BitfieldUnit", "ret": "r",
         "subst": [
             ("Self::Extra", "()", 1, "R12 associated type = ()"),
             ("Option<(String, Vec<proc_macro2::TokenStream>)>", "Option<(FmtString, Vec<Tok>)>", 1, "R4 opaque string / token types"),
             ("String::new()", "FmtString::new()", 1, "R4"),
             ("let mut tokens = vec![];", "let mut tokens: Vec<Tok> = Vec::new();", 1, "R14 type annotation on vec![]"),
             ("for (i, bitfield) in self.bitfields().iter().enumerate()", "let mut it = EnumCursor::new(self.bitfields()); while it.has_next()", 1, "R13 enumerate"),
             ('let _ = write!(format_string, "{bitfield_name} : {{:?}}");', "fmt_push_member(&mut format_string, bitfield_name);", 1, "R4 format string text"),
             (("tokens.push(quote! {", "});"), "tokens.push(q_call_method_on_self({#ARGS}));", 1, "R4q"),
         ],
         "loops": {0: {"body_start": "let (i, bitfield) = it.next_pair();", "decreases": "it.all().len() - it.pos()",
                       "invariant": ["it.all() == self.s_bitfields() && 0 <= it.pos() <= it.all().len()",
                                     "tokens@.map_values(|t: Tok| calls_method(t)) =~= getter_calls(self.s_bitfields(), it.pos())"],
                       }},
         "ensures": [
             # C08 ("behaves as the derive would", observed by executing fmt()): every named bit-field is printed through ITS OWN getter
             # (the accessor the bf_accessors unit shows to be emitted under exactly that name)
             "r.is_some() && r.unwrap().1@.map_values(|t: Tok| calls_method(t)) =~= getter_calls(self.s_bitfields(), self.s_bitfields().len() as int)",
         ]},
    ],
}
