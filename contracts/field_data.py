"""Unit `field_data` (C06, C02): a member's clang numbers reach code generation unchanged."""
import os
ENV = os.path.join(os.path.dirname(os.path.dirname(os.path.abspath(__file__))), "env")
CP = "bindgen/ir/comp.rs"
FM = {"impl": r"^impl FieldMethods for FieldData$", "impl_header": "impl FieldData", "impl_name": "FieldData"}

UNIT = {
    "name": "field_data",
    "env": [os.path.join(ENV, "field_data_env.rs")],
    "declared_trusted": {r"external_body": 2},
    "items": [
        {"kind": "struct", "file": CP, "name": "FieldData"},
        {"kind": "struct", "file": CP, "name": "RawField", "prefix": "pub"},
        # every offset assertion and every explicit padding is computed from the bit offset clang reported for the member:
        # it is stored as given (all 64 bits) and handed out as stored
        {"kind": "fn", "file": CP, "name": "new", "impl": r"^impl RawField$", "impl_header": "impl RawField", "impl_name": "RawField", "ret": "r",
         "subst": [("annotations.unwrap_or_default()", "annotations_or_default(annotations)", 1, "R7 Option::unwrap_or_default")],
         "ensures": ["r.0.offset == offset && r.0.bitfield_width == bitfield_width && r.0.ty == ty && r.0.public == public"]},
        {"kind": "fn", "file": CP, "name": "offset", **FM, "ret": "r", "ensures": ["r == self.offset"]},
        {"kind": "fn", "file": CP, "name": "bitfield_width", **FM, "ret": "r", "ensures": ["r == self.bitfield_width"]},
        {"kind": "fn", "file": CP, "name": "ty", **FM, "ret": "r", "ensures": ["r == self.ty"]},
        {"kind": "fn", "file": CP, "name": "is_public", **FM, "ret": "r", "ensures": ["r == self.public"]},
    ],
}
