"""Unit `constrain` (C08, C10): CannotDerive::constrain_type and the DeriveTrait
rule functions it calls, extracted from bindgen/ir/analysis/derive.rs."""
import os
ENV = os.path.join(os.path.dirname(os.path.dirname(os.path.abspath(__file__))), "env")
DR = "bindgen/ir/analysis/derive.rs"
DT = {"impl": r"^impl DeriveTrait$", "impl_header": "impl DeriveTrait", "impl_name": "DeriveTrait"}
CD = {"impl": r"^impl CannotDerive<'_>$", "impl_header": "impl<'ctx> CannotDerive<'ctx>", "impl_name": "CannotDerive"}

SPEC = """
// run-time assertions of the real code become proof obligations (C12)
pub fn runtime_assert(b: bool) requires b {}

// ---- the rules, written from property C08 (independent of derive.rs) ----
pub open spec fn is_default_less(k: TypeKind) -> bool {
    k is Void || k is NullPtr || k is Enum || k is Reference || k is TypeParam || k is ObjCInterface || k is ObjCId || k is ObjCSel
}
pub open spec fn sp_simple(t: DeriveTrait, k: TypeKind) -> CanDerive {
    if t == DeriveTrait::Default && is_default_less(k) { CanDerive::No }          // "pointers and enums for Default"
    else if t == DeriveTrait::Hash && (k is Float || k is Complex) { CanDerive::No } // "floats for ... Hash"
    else { CanDerive::Yes }
}
pub open spec fn sp_fnptr(t: DeriveTrait, ok: bool) -> CanDerive {
    if t == DeriveTrait::Copy || t == DeriveTrait::Default || ok { CanDerive::Yes }
    else if t == DeriveTrait::Debug { CanDerive::Manually } else { CanDerive::No }
}
pub open spec fn sp_not_by_name(t: DeriveTrait, ctx: &BindgenContext, item: &Item) -> bool {
    match t {
        DeriveTrait::Copy => ctx.s_no_copy(item), DeriveTrait::Debug => ctx.s_no_debug(item),
        DeriveTrait::Default => ctx.s_no_default(item), DeriveTrait::Hash => ctx.s_no_hash(item),
        DeriveTrait::PartialEqOrPartialOrd => ctx.s_no_partialeq(item),
    }
}
pub open spec fn sp_array(t: DeriveTrait, inner: CanDerive, len: usize) -> CanDerive {
    if inner != CanDerive::Yes { CanDerive::No }                                   // a constituent cannot support it
    else if len == 0 && (t == DeriveTrait::Copy || t == DeriveTrait::Hash || t == DeriveTrait::PartialEqOrPartialOrd) { CanDerive::No }
    else if t != DeriveTrait::Default { CanDerive::Yes }
    else if len > RUST_DERIVE_IN_ARRAY_LIMIT { CanDerive::Manually }                // "arrays beyond the 32-element limit"
    else { CanDerive::Yes }
}
pub open spec fn sp_comp(a: &CannotDerive, item: &Item, ty: &Type, info: CompInfo) -> CanDerive {
    let t = a.derive_trait;
    let ctx = a.ctx;
    if t != DeriveTrait::Debug && info.s_forward_decl() { CanDerive::No }
    else if t == DeriveTrait::Copy && ctx.s_has_destructor(TypeId(item.s_id())) { CanDerive::No }   // "destructors"
    else if info.s_kind() == CompKind::Union && t == DeriveTrait::Copy && ctx.spec_options().untagged_union
            && (!info.s_self_tparams_empty(ctx) || !item.s_all_tparams_empty(ctx)) { CanDerive::No }
    else if info.s_kind() == CompKind::Union && t != DeriveTrait::Copy {
        if ctx.spec_options().untagged_union { CanDerive::No } else { CanDerive::Yes }               // "Rust unions for anything but Copy"
    }
    // "non-Copy packed types": a packed type that does not get Copy gets no derive at all (derives_of_item), so nothing can be derived THROUGH it (F27)
    else if t != DeriveTrait::Copy && info.s_packed(ctx, ty) && !(item.s_can_derive_copy(ctx) && !item.s_disallow_copy()) { CanDerive::No }
    else if t == DeriveTrait::Default && item.s_has_vtable(ctx) { CanDerive::No }                   // "vtables"
    else if t == DeriveTrait::Default && info.s_large_bitfield_unit() && !item.s_opaque(ctx) { CanDerive::No }
    else { s_join(a, item, EdgePredicate::Comp(t)) }
}
// the whole rule, in the order the property lists the exclusions
pub open spec fn expected(a: &CannotDerive, item: &Item, ty: &Type) -> CanDerive {
    let t = a.derive_trait;
    let ctx = a.ctx;
    if !ctx.s_allowlisted().s_contains(item.s_id()) { ctx.s_blocklisted_implements(item, t) }      // C10: blocklisted: only if the user vouches
    else if sp_not_by_name(t, ctx, item) { CanDerive::No }                                         // "user-excluded types"
    else if item.s_opaque(ctx) {
        if t != DeriveTrait::Copy && ty.s_canonical(ctx).s_is_union() && ctx.spec_options().untagged_union { CanDerive::No } else { CanDerive::Yes }   // a reference / alias is as much a Rust union as the opaque union it names (F37)
    } else {
        match ty.s_kind() {
            TypeKind::Pointer(inner) => match ctx.s_type(inner).s_canonical(ctx).s_kind() {
                TypeKind::Function(sig) => sp_fnptr(t, sig.s_fnptr_can_derive()),
                _ => if t == DeriveTrait::Default { CanDerive::No } else { CanDerive::Yes },
            },
            TypeKind::Function(sig) => sp_fnptr(t, sig.s_fnptr_can_derive()),
            TypeKind::Array(e, len) => sp_array(t, s_lookup(&a.can_derive, e), len),
            TypeKind::Vector(e, len) => if s_lookup(&a.can_derive, e) != CanDerive::Yes { CanDerive::No }
                                        else if t == DeriveTrait::PartialEqOrPartialOrd { CanDerive::No } else { CanDerive::Yes },
            TypeKind::Comp(info) => sp_comp(a, item, ty, info),
            TypeKind::ResolvedTypeRef(..) | TypeKind::TemplateAlias(..) | TypeKind::Alias(..) | TypeKind::BlockPointer(..) => s_join(a, item, EdgePredicate::TypeRef(t)),
            TypeKind::TemplateInstantiation(..) => s_join(a, item, EdgePredicate::TmplInst(t)),
            k => sp_simple(t, k),
        }
    }
}
// ---- the node-level rule (MonotoneFramework::constrain): declared order Yes < Manually < No
pub open spec fn cd_rank(v: CanDerive) -> int { match v { CanDerive::Yes => 0, CanDerive::Manually => 1, CanDerive::No => 2 } }
pub fn cd_lt(a: CanDerive, b: CanDerive) -> (r: bool) ensures r == (cd_rank(a) < cd_rank(b)) {
    match (a, b) { (CanDerive::Yes, CanDerive::Yes) => false, (CanDerive::Yes, _) => true, (CanDerive::Manually, CanDerive::No) => true, _ => false }
}
pub open spec fn cd_at(m: Map<ItemId, CanDerive>, k: ItemId) -> CanDerive { if m.contains_key(k) { m[k] } else { CanDerive::Yes } }
pub open spec fn cd_join(a: CanDerive, b: CanDerive) -> CanDerive { if cd_rank(b) > cd_rank(a) { b } else { a } }
// what the rule computes for node `id` from the current table: the per-type rule, made conservative
// ("arrays beyond the 32-element limit": a type aligned beyond the limit may get a padding array that long)
pub open spec fn node_rule(a: &CannotDerive, id: ItemId) -> CanDerive {
    let item = a.ctx.s_item(id);
    match item.s_as_type() {
        Some(ty) => {
            let c = expected(a, &item, &ty);
            if c == CanDerive::Yes && a.derive_trait == DeriveTrait::Default
               && (match ty.s_layout(a.ctx) { Some(l) => l.align > RUST_DERIVE_IN_ARRAY_LIMIT, None => false }) { CanDerive::Manually } else { c }
        },
        None => s_join(a, &item, EdgePredicate::Default),
    }
}
// invariants of the IR at analysis time that the real code asserts
pub open spec fn ir_ok(ctx: &BindgenContext, item: &Item, ty: &Type) -> bool {
    &&& (ty.s_kind() is Opaque ==> item.s_opaque(ctx))
    &&& !(ty.s_kind() is UnresolvedTypeRef)
    &&& (match ty.s_kind() { TypeKind::Comp(i) => !item.s_opaque(ctx) ==> !i.s_non_type_tparams(), TypeKind::Vector(_, len) => len != 0, _ => true })
}
"""


def tbl(name, ens, **kw):
    d = {"kind": "fn", "file": DR, "name": name, **DT, "ret": "r", "ensures": [ens]}
    d.update(kw)
    return d


UNIT = {
    "name": "constrain",
    "env": [os.path.join(ENV, "constrain_env.rs")],
    "declared_trusted": {r"external_body": 52},
    "items": [
        {"kind": "const", "file": "bindgen/ir/ty.rs", "name": "RUST_DERIVE_IN_ARRAY_LIMIT"},
        {"kind": "enum", "file": "bindgen/ir/derive.rs", "name": "CanDerive", "prefix": "#[derive(Copy, Clone, PartialEq, Eq, Structural)]"},
        {"kind": "enum", "file": DR, "name": "DeriveTrait", "prefix": "#[derive(Copy, Clone, PartialEq, Eq, Structural)]"},
        {"kind": "enum", "file": "bindgen/ir/comp.rs", "name": "CompKind", "prefix": "#[derive(Copy, Clone, PartialEq, Eq, Structural)]"},
        {"kind": "enum", "file": "bindgen/ir/ty.rs", "name": "TypeKind"},
        {"kind": "struct", "file": DR, "name": "CannotDerive"},
        {"kind": "raw", "label": "constrain_spec", "text": SPEC},
        tbl("not_by_name", "r == sp_not_by_name(self, ctx, item)"),
        tbl("can_derive_large_array", "r == (self != DeriveTrait::Default)"),
        tbl("can_derive_union", "r == (self == DeriveTrait::Copy)"),
        tbl("can_derive_compound_with_destructor", "r == (self != DeriveTrait::Copy)"),
        tbl("can_derive_compound_with_vtable", "r == (self != DeriveTrait::Default)"),
        tbl("can_derive_compound_forward_decl", "r == (self == DeriveTrait::Debug)"),
        tbl("can_derive_incomplete_array", "r == (self == DeriveTrait::Debug || self == DeriveTrait::Default)"),
        tbl("can_derive_fnptr", "r == sp_fnptr(self, f.s_fnptr_can_derive())"),
        tbl("can_derive_vector", "r == (if self == DeriveTrait::PartialEqOrPartialOrd { CanDerive::No } else { CanDerive::Yes })"),
        tbl("can_derive_pointer", "r == (if self == DeriveTrait::Default { CanDerive::No } else { CanDerive::Yes })"),
        tbl("can_derive_simple", "r == sp_simple(self, *kind)",
            requires=["!(*kind is UnresolvedTypeRef)"],
            subst=[('unreachable!( "Type with unresolved type ref can\'t reach derive default" )', "vstd::pervasive::unreached()", 1, "R15 unreachable!")]),
        {"kind": "fn", "file": DR, "name": "constrain_type", **CD, "ret": "r",
         "subst": [
             ("self.can_derive.get(&t.into()).copied().unwrap_or_default()", "table_lookup(&self.can_derive, t)", 2, "R5"),
             ("info.is_packed(self.ctx, ty.layout(self.ctx).as_ref())", "info.is_packed_for(self.ctx, ty)", 0, "R5 accessor chain (if present)"),
             ('assert!( !info.has_non_type_template_params(), "The early ty.is_opaque check should have handled this case" );',
              "runtime_assert(!info.has_non_type_template_params());", 1, "R15 assert!"),
             ('assert_ne!(len, 0, "vectors cannot have zero length");', "runtime_assert(len != 0);", 1, "R15 assert!"),
             ('unreachable!( "The early ty.is_opaque check should have handled this case" )', "vstd::pervasive::unreached()", 1, "R15 unreachable!"),
         ],
         "requires": ["ir_ok(old(self).ctx, item, ty)"],
         "ensures": [
             "r == expected(old(self), item, ty)",
             "*final(self) == *old(self)",
         ]},
        {"kind": "enum", "file": "bindgen/ir/analysis/mod.rs", "name": "ConstrainResult", "prefix": "#[derive(Copy, Clone, PartialEq, Eq, Structural)]"},
        {"kind": "fn", "file": DR, "name": "insert", **CD, "ret": "r",
         "subst": [("<Id: Into<ItemId>>", "", 1, "R12"), ("id: Id,", "id: ItemId,", 1, "R12"), ("let id = id.into();", "", 1, "R12"),
                   ("match self.can_derive.entry(id) {", "match map_entry(&self.can_derive, &id) {", 1, "R17"),
                   ("Entry::Occupied(mut entry) =>", "EntryKind::Occupied =>", 1, "R17"),
                   ("*entry.get() < can_derive", "cd_lt(map_get(&self.can_derive, &id), can_derive)", 0, "R17 derived PartialOrd `<` (if present)"),
                   ("*entry.get() <= can_derive", "!cd_lt(can_derive, map_get(&self.can_derive, &id))", 0, "R17 derived PartialOrd `<=` (if present)"),
                   ("*entry.get() > can_derive", "cd_lt(can_derive, map_get(&self.can_derive, &id))", 0, "R17 derived PartialOrd `>` (if present)"),
                   ("*entry.get() >= can_derive", "!cd_lt(map_get(&self.can_derive, &id), can_derive)", 0, "R17 derived PartialOrd `>=` (if present)"),
                   ("entry.insert(", "map_insert(&mut self.can_derive, id, ", 2, "R17"),
                   ("Entry::Vacant(entry) =>", "EntryKind::Vacant =>", 1, "R17")],
         "ensures": [
             "forall|k| k != id ==> cd_at(final(self).can_derive.view(), k) == cd_at(old(self).can_derive.view(), k)",
             "cd_at(final(self).can_derive.view(), id) == cd_join(cd_at(old(self).can_derive.view(), id), can_derive)",
             "(r == ConstrainResult::Changed) == (cd_rank(can_derive) > cd_rank(cd_at(old(self).can_derive.view(), id)))",
             "final(self).ctx == old(self).ctx && final(self).derive_trait == old(self).derive_trait",
         ]},
        {"kind": "fn", "file": DR, "name": "constrain", "impl": r"^impl<'ctx> MonotoneFramework for CannotDerive<'ctx>$", "impl_header": "impl<'ctx> CannotDerive<'ctx>", "impl_name": "CannotDerive", "ret": "r",
         "subst": [
             ("let is_reached_limit = |l: Layout| l.align > RUST_DERIVE_IN_ARRAY_LIMIT;", "", 1, "R7"),
             ("ty.layout(self.ctx).is_some_and(is_reached_limit)", "(match ty.layout(self.ctx) { Some(l) => l.align > RUST_DERIVE_IN_ARRAY_LIMIT, None => false })", 1, "R7 closure applied"),
             ("self.constrain_join(item, consider_edge_default)", "self.constrain_join(item, EdgePredicate::Default)", 1, "R5"),
         ],
         "requires": ["old(self).ctx.s_item(id).s_as_type().is_some() ==> ir_ok(old(self).ctx, &old(self).ctx.s_item(id), &old(self).ctx.s_item(id).s_as_type().unwrap())"],
         "ensures": [
             "forall|k| k != id ==> cd_at(final(self).can_derive.view(), k) == cd_at(old(self).can_derive.view(), k)",
             # fix-point equation
             "cd_at(final(self).can_derive.view(), id) == cd_join(cd_at(old(self).can_derive.view(), id), node_rule(old(self), id))",
             "(r == ConstrainResult::Changed) == (cd_at(final(self).can_derive.view(), id) != cd_at(old(self).can_derive.view(), id))",
         ]},
    ],
}
