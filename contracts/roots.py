"""Unit `roots` (C09): which items are allowlist roots."""
import os
ENV = os.path.join(os.path.dirname(os.path.dirname(os.path.abspath(__file__))), "env")
CX = "bindgen/ir/context.rs"

SPEC = """
pub open spec fn nothing_allowlisted(o: BindgenOptions) -> bool {
    o.allowlisted_types.s_empty() && o.allowlisted_functions.s_empty() && o.allowlisted_vars.s_empty()
        && o.allowlisted_files.s_empty() && o.allowlisted_items.s_empty()
}
// types that need no code of their own: auto-allowlisted in no-recursive mode
pub open spec fn codeless_kind(k: TypeKind) -> bool {
    k is Void || k is NullPtr || k is Int || k is Float || k is Complex || k is Array || k is Vector || k is Pointer
    || k is Reference || k is Function || k is ResolvedTypeRef || k is Opaque || k is TypeParam
}
// property C09: "bindings are generated for every item whose original path matches a pattern of
// ITS kind" (or the generic item list, or a file pattern); with no pattern at all everything is a root
pub open spec fn expected_root(ctx: &BindgenContext, item: &Item) -> bool {
    let o = ctx.spec_options();
    let name = s_joined(item.s_path(ctx));
    let in_file = !o.allowlisted_files.s_empty() && item.s_location().is_some()
        && item.s_location().unwrap().s_file().s_name().is_some()
        && o.allowlisted_files.s_matches(item.s_location().unwrap().s_file().s_name().unwrap()@);
    nothing_allowlisted(o) || item.s_annotations().s_use_instead_of() || in_file || o.allowlisted_items.s_matches(name)
    || (match item.s_kind() {
        ItemKind::Module(..) => true,
        ItemKind::Function(..) => o.allowlisted_functions.s_matches(name),
        ItemKind::Var(..) => o.allowlisted_vars.s_matches(name),
        ItemKind::Type(ty) => o.allowlisted_types.s_matches(name)
            || (!o.allowlist_recursively && (codeless_kind(ty.s_kind()) || ctx.s_stdint(name)))
            // an unnamed top-level enum is a root when one of its variants is allowlisted as a variable
            || (ctx.s_item(item.s_parent()).s_is_module() && !ty.s_named()
                && (match ty.s_kind() { TypeKind::Enum(e) => s_variant_allowlisted(ctx, &ctx.s_item(item.s_parent()), &e), _ => false })),
    })
}
"""

VARIANT_LOOP = ('let mut prefix_path = parent.path_for_allowlisting(self).clone(); enum_.variants().iter().any(|variant| { prefix_path.push( variant.name_for_allowlisting().into(), ); '
                'let name = prefix_path[1..].join("::"); prefix_path.pop().unwrap(); self.options().allowlisted_vars.matches(&name) || self .options() .allowlisted_items .matches(name) })')

UNIT = {
    "name": "roots",
    "env": [os.path.join(ENV, "roots_env.rs")],
    "declared_trusted": {r"external_body": 36},
    "items": [
        {"kind": "enum", "file": "bindgen/ir/item_kind.rs", "name": "ItemKind"},
        {"kind": "enum", "file": "bindgen/ir/ty.rs", "name": "TypeKind"},
        {"kind": "raw", "label": "spec", "text": SPEC},
        {"kind": "fn", "file": CX, "name": "root_filter", "impl": r"^impl BindgenContext$", "impl_nth": 0, "ret": "r",
         "closure": {"enclosing": "compute_allowlisted_and_codegen_items", "anchor": ".filter(|&(_, item)| {", "nth": 0,
                     "signature": "fn root_filter(ctx_: &BindgenContext, item: &Item) -> (r: bool)"},
         "subst": [
             (VARIANT_LOOP, "unnamed_enum_variant_allowlisted(ctx_, parent, enum_)", 1, "R5"),
             ('item.path_for_allowlisting(self)[1..].join("::")', "join_path_tail(item.path_for_allowlisting(ctx_))", 1, "R5"),
             ("allowlisted_files .matches(filename)", "allowlisted_files.matches_owned(filename)", 1, "R12"),
             ("self", "ctx_", 10, "R18 captured self"),
         ],
         "ensures": ["r == expected_root(ctx_, item)"]},
    ],
}
