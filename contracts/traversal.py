"""Unit `traversal` (C09): ItemTraversal -- the set it yields is exactly the set of items reachable
from the roots along the edges its predicate follows (closure AND minimality)."""
import os
ENV = os.path.join(os.path.dirname(os.path.dirname(os.path.abspath(__file__))), "env")
TV = "bindgen/ir/traversal.rs"

SPEC = """
// the effect of ONE visit_kind on (seen, queue)
pub open spec fn visit_view(seen: Set<ItemId>, q: Multiset<ItemId>, follow: bool, item: ItemId) -> (Set<ItemId>, Multiset<ItemId>) {
    if !follow { (seen, q) } else if seen.contains(item) { (seen, q) } else { (seen.insert(item), q.insert(item)) }
}
pub open spec fn visit_all(seen: Set<ItemId>, q: Multiset<ItemId>, p: TraversalPredicate, ctx: &BindgenContext, edges: Seq<Edge>) -> (Set<ItemId>, Multiset<ItemId>)
    decreases edges.len()
{
    if edges.len() == 0 { (seen, q) } else {
        let (s1, q1) = visit_all(seen, q, p, ctx, edges.drop_last());
        visit_view(s1, q1, s_pred(p, ctx, edges.last()), edges.last().to)
    }
}
// ---- property C09: "reachable from the roots along followed edges"
pub open spec fn follows(p: TraversalPredicate, ctx: &BindgenContext, m: ItemId, n: ItemId) -> bool {
    exists|i: int| 0 <= i < s_edges(ctx, m).len() && s_pred(p, ctx, #[trigger] s_edges(ctx, m)[i]) && s_edges(ctx, m)[i].to == n
}
pub open spec fn is_path(p: TraversalPredicate, ctx: &BindgenContext, roots: Set<ItemId>, path: Seq<ItemId>) -> bool {
    &&& path.len() > 0
    &&& roots.contains(path[0])
    &&& forall|i: int| 0 <= i < path.len() - 1 ==> follows(p, ctx, #[trigger] path[i], path[i + 1])
}
pub open spec fn reach(p: TraversalPredicate, ctx: &BindgenContext, roots: Set<ItemId>, n: ItemId) -> bool {
    exists|path: Seq<ItemId>| #[trigger] is_path(p, ctx, roots, path) && path.last() == n
}
pub proof fn lemma_reach_step(p: TraversalPredicate, ctx: &BindgenContext, roots: Set<ItemId>, m: ItemId, n: ItemId)
    requires reach(p, ctx, roots, m), follows(p, ctx, m, n),
    ensures reach(p, ctx, roots, n),
{
    let path = choose|path: Seq<ItemId>| #[trigger] is_path(p, ctx, roots, path) && path.last() == m;
    let path2 = path.push(n);
    assert forall|i: int| 0 <= i < path2.len() - 1 implies follows(p, ctx, #[trigger] path2[i], path2[i + 1]) by {
        if i < path.len() - 1 { assert(path2[i] == path[i] && path2[i + 1] == path[i + 1]); } else { assert(path2[i] == m && path2[i + 1] == n); }
    }
    assert(path2[0] == path[0]);
    assert(is_path(p, ctx, roots, path2) && path2.last() == n);
}
pub proof fn lemma_visit_all(seen: Set<ItemId>, q: Multiset<ItemId>, p: TraversalPredicate, ctx: &BindgenContext, edges: Seq<Edge>)
    ensures ({
        let (s2, q2) = visit_all(seen, q, p, ctx, edges);
        &&& forall|x: ItemId| seen.contains(x) ==> s2.contains(x)
        &&& forall|x: ItemId| q.count(x) <= #[trigger] q2.count(x)
        &&& forall|x: ItemId| s2.contains(x) && !seen.contains(x) ==> q2.count(x) > 0 && exists|i: int| 0 <= i < edges.len() && s_pred(p, ctx, #[trigger] edges[i]) && edges[i].to == x
        &&& forall|i: int| 0 <= i < edges.len() && s_pred(p, ctx, #[trigger] edges[i]) ==> s2.contains(edges[i].to)
        &&& forall|x: ItemId| #[trigger] q2.count(x) > 0 ==> q.count(x) > 0 || (s2.contains(x) && !seen.contains(x))
    }),
    decreases edges.len(),
{
    if edges.len() > 0 {
        let pre = edges.drop_last();
        lemma_visit_all(seen, q, p, ctx, pre);
        let (s1, q1) = visit_all(seen, q, p, ctx, pre);
        let e = edges.last();
        let (s2, q2) = visit_all(seen, q, p, ctx, edges);
        assert((s2, q2) == visit_view(s1, q1, s_pred(p, ctx, e), e.to));
        assert forall|i: int| 0 <= i < pre.len() implies pre[i] == edges[i] by {}
        assert forall|x: ItemId| s2.contains(x) && !seen.contains(x) implies q2.count(x) > 0 && exists|i: int| 0 <= i < edges.len() && s_pred(p, ctx, #[trigger] edges[i]) && edges[i].to == x by {
            if s1.contains(x) {
                let i = choose|i: int| 0 <= i < pre.len() && s_pred(p, ctx, #[trigger] pre[i]) && pre[i].to == x;
                assert(edges[i] == pre[i]);
            } else {
                assert(x == e.to);
                assert(edges[edges.len() - 1] == e);
            }
        }
        assert forall|i: int| 0 <= i < edges.len() && s_pred(p, ctx, #[trigger] edges[i]) implies s2.contains(edges[i].to) by {
            if i < pre.len() { assert(pre[i] == edges[i]); }
        }
    }
}
// ---- representation invariant of a traversal in progress
pub open spec fn queue_in_seen<'ctx, S: TraversalStorage<'ctx>, Q: TraversalQueue>(t: &ItemTraversal<'ctx, S, Q>) -> bool {
    forall|x: ItemId| t.queue.view().count(x) > 0 ==> t.seen.view().contains(x)
}
pub open spec fn inv<'ctx, S: TraversalStorage<'ctx>, Q: TraversalQueue>(t: &ItemTraversal<'ctx, S, Q>, roots: Set<ItemId>) -> bool {
    let seen = t.seen.view(); let q = t.queue.view(); let p = t.predicate; let ctx = t.ctx;
    &&& forall|r: ItemId| roots.contains(r) ==> seen.contains(r)
    // every item already taken out of the queue has all its followed successors in `seen`
    &&& forall|n: ItemId, i: int| seen.contains(n) && q.count(n) == 0 && 0 <= i < s_edges(ctx, n).len() && s_pred(p, ctx, #[trigger] s_edges(ctx, n)[i]) ==> seen.contains(s_edges(ctx, n)[i].to)
    // nothing is in `seen` without a reason
    &&& forall|n: ItemId| seen.contains(n) ==> reach(p, ctx, roots, n)
}
// LEMMA over the invariant: when the queue has run dry, `seen` IS the reachable set
pub proof fn lemma_path_in_seen<'ctx, S: TraversalStorage<'ctx>, Q: TraversalQueue>(t: &ItemTraversal<'ctx, S, Q>, roots: Set<ItemId>, path: Seq<ItemId>)
    requires inv(t, roots), t.queue.view().len() == 0, is_path(t.predicate, t.ctx, roots, path),
    ensures t.seen.view().contains(path.last()),
    decreases path.len(),
{
    if path.len() > 1 {
        let pre = path.drop_last();
        assert forall|i: int| 0 <= i < pre.len() - 1 implies follows(t.predicate, t.ctx, #[trigger] pre[i], pre[i + 1]) by { assert(pre[i] == path[i] && pre[i + 1] == path[i + 1]); }
        assert(pre[0] == path[0]);
        lemma_path_in_seen(t, roots, pre);
        let m = pre.last(); let n = path.last();
        assert(m == path[path.len() - 2]);
        assert(follows(t.predicate, t.ctx, path[path.len() - 2], path[path.len() - 2 + 1]));
        let i = choose|i: int| 0 <= i < s_edges(t.ctx, m).len() && s_pred(t.predicate, t.ctx, #[trigger] s_edges(t.ctx, m)[i]) && s_edges(t.ctx, m)[i].to == n;
        vstd::multiset::lemma_multiset_empty_len(t.queue.view());
        assert(t.queue.view().count(m) == 0);
    }
}
pub proof fn lemma_exhausted<'ctx, S: TraversalStorage<'ctx>, Q: TraversalQueue>(t: &ItemTraversal<'ctx, S, Q>, roots: Set<ItemId>)
    requires inv(t, roots), t.queue.view().len() == 0,
    ensures forall|n: ItemId| t.seen.view().contains(n) <==> reach(t.predicate, t.ctx, roots, n),
{
    assert forall|n: ItemId| reach(t.predicate, t.ctx, roots, n) implies t.seen.view().contains(n) by {
        let path = choose|path: Seq<ItemId>| #[trigger] is_path(t.predicate, t.ctx, roots, path) && path.last() == n;
        lemma_path_in_seen(t, roots, path);
    }
}
"""

# LEMMA over the contracts of new/next (a consumer written here, not repository code): whoever drains a fresh
# traversal (collect(), for loops) obtains exactly the reachable set
DRAIN = """
#[verifier::exec_allows_no_decreases_clause]
pub fn lemma_drain_yields_exactly_the_reachable_set<'ctx, S: TraversalStorage<'ctx>, Q: TraversalQueue>(ctx: &'ctx BindgenContext, roots: Vec<ItemId>, predicate: TraversalPredicate) -> (out: Vec<ItemId>)
    ensures forall|n: ItemId| out@.contains(n) <==> reach(predicate, ctx, roots@.to_set(), n),
{
    let ghost rs = roots@.to_set();
    let mut t = ItemTraversal::<'ctx, S, Q>::new(ctx, roots, predicate);
    let mut out: Vec<ItemId> = Vec::new();
    loop
        invariant
            queue_in_seen(&t), inv(&t, rs), t.ctx == ctx, t.predicate == predicate,
            forall|n: ItemId| t.seen.view().contains(n) ==> out@.contains(n) || t.queue.view().count(n) > 0,
            forall|n: ItemId| out@.contains(n) ==> t.seen.view().contains(n),
        ensures
            forall|n: ItemId| out@.contains(n) <==> reach(predicate, ctx, rs, n),
    {
        let ghost t0 = t; let ghost out0 = out@;
        match t.next() {
            Some(id) => {
                out.push(id);
                proof {
                    assert forall|n: ItemId| t.seen.view().contains(n) implies out@.contains(n) || t.queue.view().count(n) > 0 by {
                        if n == id { assert(out@[out@.len() - 1] == id); }
                        else if t0.seen.view().contains(n) {
                            if out0.contains(n) { let j = choose|j: int| 0 <= j < out0.len() && out0[j] == n; assert(out@[j] == n); }
                        }
                    }
                    assert forall|n: ItemId| out@.contains(n) implies t.seen.view().contains(n) by {
                        let j = choose|j: int| 0 <= j < out@.len() && out@[j] == n;
                        if j < out0.len() { assert(out0[j] == n); assert(out0.contains(n)); }
                    }
                }
            }
            None => {
                proof {
                    lemma_exhausted(&t, rs);
                    vstd::multiset::lemma_multiset_empty_len(t.queue.view());
                }
                break;
            }
        }
    }
    out
}
"""

G = "impl<'ctx, Storage, Queue> ItemTraversal<'ctx, Storage, Queue> where Storage: TraversalStorage<'ctx>, Queue: TraversalQueue,"

NEXT_PROOF = """
            let edges = s_edges(ctx0, id);
            let q1 = q0.remove(id);
            assert(seen0.insert(id) =~= seen0);
            lemma_visit_all(seen0, q1, p0, ctx0, edges);
            let s2 = self.seen.view(); let q2 = self.queue.view();
            assert forall|x: ItemId| q2.count(x) > 0 implies s2.contains(x) by {
                if q1.count(x) > 0 { assert(q0.count(x) > 0); }
            }
            assert forall|roots: Set<ItemId>| inv(old(self), roots) implies #[trigger] inv(self, roots) by {
                assert forall|n: ItemId, i: int| s2.contains(n) && q2.count(n) == 0 && 0 <= i < s_edges(ctx0, n).len() && s_pred(p0, ctx0, #[trigger] s_edges(ctx0, n)[i]) implies s2.contains(s_edges(ctx0, n)[i].to) by {
                    if n == id { } else {
                        if seen0.contains(n) {
                            assert(q1.count(n) <= q2.count(n));
                            assert(q0.count(n) == q1.count(n));
                            assert(seen0.contains(s_edges(ctx0, n)[i].to));
                        } else { }
                    }
                }
                assert forall|n: ItemId| s2.contains(n) implies reach(p0, ctx0, roots, n) by {
                    if !seen0.contains(n) {
                        assert(reach(p0, ctx0, roots, id));
                        assert(follows(p0, ctx0, id, n));
                        lemma_reach_step(p0, ctx0, roots, id, n);
                    }
                }
            }
"""

UNIT = {
    "name": "traversal",
    "env": [os.path.join(ENV, "traversal_env.rs")],
    "declared_trusted": {r"external_body": 9},
    "items": [
        {"kind": "enum", "file": TV, "name": "EdgeKind", "prefix": "#[derive(Copy, Clone, PartialEq, Eq, Structural)]"},
        {"kind": "struct", "file": TV, "name": "Edge", "prefix": "#[derive(Copy, Clone)]"},
        {"kind": "struct", "file": TV, "name": "ItemTraversal"},
        {"kind": "raw", "label": "traversal_spec", "text": SPEC},
        {"kind": "fn", "file": TV, "name": "new", "impl": r"^impl Edge$", "impl_header": "impl Edge", "impl_name": "Edge", "ret": "r",
         "ensures": ["r.to == to && r.kind == kind"]},
        {"kind": "fn", "file": TV, "name": "new", "impl": r"^impl<'ctx, Storage, Queue> ItemTraversal<'ctx, Storage, Queue> where", "impl_header": G, "impl_name": "ItemTraversal", "ret": "r",
         "subst": [
             ("<R>(", "(", 1, "R12"), ("roots: R,", "roots: Vec<ItemId>,", 1, "R12 (R = Vec<ItemId>)"),
             ("where R: IntoIterator<Item = ItemId>,", "", 1, "R12"),
             ("Queue::default()", "Queue::new_empty()", 1, "R22"),
             ("for id in roots", "let mut it = VecCursor::new(roots); while it.has_next()", 1, "R13"),
         ],
         "ghost_start": "let ghost rs = roots@;",
         "loops": {0: {"body_start": "let id = it.next_item();", "decreases": "it.all().len() - it.pos()",
                       "invariant": ["it.all() == rs && 0 <= it.pos() <= rs.len()",
                                     "forall|n: ItemId| seen.view().contains(n) <==> (exists|j: int| 0 <= j < it.pos() && rs[j] == n)",
                                     "forall|n: ItemId| seen.view().contains(n) ==> queue.view().count(n) > 0",
                                     "forall|n: ItemId| queue.view().count(n) > 0 ==> seen.view().contains(n)"]}},
         "proof_before": [("ItemTraversal { ctx,", """
                assert forall|n: ItemId| seen.view().contains(n) implies reach(predicate, ctx, rs.to_set(), n) by {
                    let path = seq![n];
                    assert(rs.to_set().contains(n));
                    assert(is_path(predicate, ctx, rs.to_set(), path) && path.last() == n);
                }
                assert forall|n: ItemId| rs.to_set().contains(n) implies seen.view().contains(n) by {
                    let j = choose|j: int| 0 <= j < rs.len() && rs[j] == n;
                }
         """)],
         "ensures": [
             "r.ctx == ctx && r.predicate == predicate",
             "queue_in_seen(&r) && inv(&r, roots@.to_set())",
             # a fresh traversal: exactly the roots are seen, and all of them are pending
             "forall|n: ItemId| r.seen.view().contains(n) <==> roots@.to_set().contains(n)",
             "forall|n: ItemId| r.seen.view().contains(n) ==> r.queue.view().count(n) > 0",
         ]},
        {"kind": "fn", "file": TV, "name": "visit_kind", "impl": r"^impl<'ctx, Storage, Queue> Tracer for ItemTraversal<'ctx, Storage, Queue> where", "impl_header": G, "impl_name": "ItemTraversal",
         "subst": [("(self.predicate)(self.ctx, edge)", "apply_predicate(&self.predicate, self.ctx, edge)", 1, "R5 fn-pointer call")],
         "ensures": [
             "(final(self).seen.view(), final(self).queue.view()) == visit_view(old(self).seen.view(), old(self).queue.view(), s_pred(old(self).predicate, old(self).ctx, Edge { to: item, kind }), item)",
             "final(self).ctx == old(self).ctx && final(self).predicate == old(self).predicate && final(self).currently_traversing == old(self).currently_traversing",
         ]},
        {"kind": "fn", "file": TV, "name": "next", "impl": r"^impl<'ctx, Storage, Queue> Iterator for ItemTraversal<'ctx, Storage, Queue> where", "impl_header": G, "impl_name": "ItemTraversal", "ret": "r",
         "r2_skip": True,
         "subst": [
             ("Option<Self::Item>", "Option<ItemId>", 1, "R12"),
             ('debug_assert!( !newly_discovered, "should have already seen anything we get out of our queue" );', "runtime_assert(!newly_discovered);", 1, "R15 (debug_assert! as proof obligation)"),
             ('debug_assert!( self.ctx.resolve_item_fallible(id).is_some(), "should only get IDs of actual items in our context during traversal" );', "", 1, "dropped: IR invariant (ids are live), not decided here"),
             ("id.trace(self.ctx, self, &());", "trace_item(id, self.ctx, self);", 1, "R16 Trace callback = fold of visit_kind over the item's edges"),
         ],
         "ghost_start": "let ghost seen0 = self.seen.view(); let ghost q0 = self.queue.view(); let ghost p0 = self.predicate; let ghost ctx0 = self.ctx;",
         "proof_before": [("Some(id) }", NEXT_PROOF)],
         "requires": ["queue_in_seen(old(self))"],
         "ensures": [
             "queue_in_seen(final(self)) && final(self).ctx == old(self).ctx && final(self).predicate == old(self).predicate",
             # the representation invariant is preserved, for whatever root set it held
             "forall|roots: Set<ItemId>| inv(old(self), roots) ==> #[trigger] inv(final(self), roots)",
             "r.is_none() ==> old(self).queue.view().len() == 0 && final(self).seen.view() == old(self).seen.view() && final(self).queue.view() == old(self).queue.view()",
             "r.is_some() ==> old(self).queue.view().count(r.unwrap()) > 0",
             # nothing seen is forgotten, nothing pending is dropped except the returned id, everything new is pending
             "forall|n: ItemId| old(self).seen.view().contains(n) ==> final(self).seen.view().contains(n)",
             "forall|n: ItemId| r != Some(n) && old(self).queue.view().count(n) > 0 ==> final(self).queue.view().count(n) > 0",
             "forall|n: ItemId| final(self).seen.view().contains(n) && !old(self).seen.view().contains(n) ==> final(self).queue.view().count(n) > 0",
         ]},
        {"kind": "raw", "label": "lemma_drain", "text": DRAIN},
    ],
}
