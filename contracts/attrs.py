"""Unit `attrs` (C04): which token of an unexposed attribute names a given attribute (noreturn / must_use detection)."""
import os
ENV = os.path.join(os.path.dirname(os.path.dirname(os.path.abspath(__file__))), "env")
CL = "bindgen/clang.rs"

UNIT = {
    "name": "attrs",
    "env": [os.path.join(ENV, "attrs_env.rs")],
    "declared_trusted": {r"external_body": 4},
    "items": [
        {"kind": "struct", "file": CL, "name": "Attribute"},
        # the per-token predicate of Cursor::has_attrs (closure, R18)
        {"kind": "fn", "file": CL, "name": "token_names_attribute", "impl": r"^impl Cursor$", "ret": "r",
         "closure": {"enclosing": "has_attrs", "anchor": ".any(|t| {", "nth": 0,
                     "signature": "fn token_names_attribute(t: &ClangToken, attr: &Attribute, kind: CXCursorKind) -> (r: bool)"},
         "subst": [
             (r"re:(t\.spelling\(\))\s*==\s*(attr\.name)", r"bytes_eq(\1, \2)", 0, "R21 slice == (if present)"),
             (r"re:(t\.spelling\(\))\s*\.ends_with\(\s*(attr\.name)\s*\)", r"bytes_ends_with(\1, \2)", 0, "R21 slice ends_with (if present)"),
             (r"re:(t\.spelling\(\))\s*\.starts_with\(\s*(attr\.name)\s*\)", r"bytes_starts_with(\1, \2)", 0, "R21 slice starts_with (if present)"),
         ],
         "ensures": [
             # C04 ("-> ! exactly for functions declared noreturn", must_use likewise): a token names the attribute when it is of the
             # attribute's token kind and spells exactly its name -- `analyzer_noreturn` is not `noreturn`
             "r == (t.kind == attr.token_kind && t.s_spelling() == attr.name@)",
         ]},
    ],
}
