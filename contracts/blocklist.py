"""Unit `blocklist` (C10): Item::is_blocklisted -- the test applied before any
code generation of an item."""
import os
ENV = os.path.join(os.path.dirname(os.path.dirname(os.path.abspath(__file__))), "env")

SPEC = """
// property C10: "A blocklisted type, function, variable or file is never defined":
// hidden by annotation, declared in a blocklisted file, matched by the generic item
// list, or matched by the list of ITS OWN kind (a replaced type counts as blocklisted)
pub open spec fn expected_blocklisted(it: &Item, ctx: &BindgenContext) -> bool {
    let o = ctx.spec_options();
    let name = s_joined(it.s_path(ctx));
    let in_file = !o.blocklisted_files.s_empty() && it.location.is_some()
        && it.location.unwrap().s_file().s_name().is_some()
        && o.blocklisted_files.s_matches(it.location.unwrap().s_file().s_name().unwrap()@);
    it.annotations.s_hide() || in_file || o.blocklisted_items.s_matches(name) || (match it.kind {
        ItemKind::Type(..) => o.blocklisted_types.s_matches(name) || ctx.s_replaced(it.s_path(ctx), it.id),
        ItemKind::Function(..) => o.blocklisted_functions.s_matches(name),
        ItemKind::Var(..) => o.blocklisted_vars.s_matches(name),
        ItemKind::Module(..) => false,
    })
}
"""

UNIT = {
    "name": "blocklist",
    "env": [os.path.join(ENV, "blocklist_env.rs")],
    "declared_trusted": {r"external_body": 30},
    "items": [
        {"kind": "enum", "file": "bindgen/ir/item_kind.rs", "name": "ItemKind"},
        {"kind": "raw", "label": "blocklist_spec", "text": SPEC},
        {"kind": "fn", "file": "bindgen/ir/item.rs", "name": "is_blocklisted", "impl": r"^impl Item$", "impl_header": "impl Item", "impl_name": "Item", "ret": "r",
         "r2_spec_form": [("ctx.in_codegen_phase()", "ctx.s_in_codegen()")],
         "subst": [
             ('path[1..].join("::")', "join_path_tail(path)", 1, "R5"),
             ("blocklisted_files.matches(filename)", "blocklisted_files.matches_owned(filename)", 1, "R12 generic S instantiated"),
         ],
         "ensures": ["r == expected_blocklisted(self, ctx)"]},
        {"kind": "fn", "file": "bindgen/codegen/mod.rs", "name": "process_before_codegen", "impl": r"^impl Item$", "impl_header": "impl Item", "impl_name": "Item", "ret": "r",
         "requires": ["ctx.s_in_codegen()"],
         "ensures": [
             # C10: the blocklist test comes before any code generation of the item
             "expected_blocklisted(self, ctx) ==> !r",
             "r == (self.s_enabled(ctx) && !expected_blocklisted(self, ctx) && !old(result).seen_items@.contains(self.id))",
             "final(result).items@ == old(result).items@",
             "!r ==> *final(result) == *old(result)",
         ]},
        {"kind": "fn", "file": "bindgen/codegen/mod.rs", "name": "codegen", "impl": r"^impl CodeGenerator for Item$", "impl_header": "impl Item", "impl_name": "Item", "ret": "r_unit",
         "subst": [("result: &mut CodegenResult<'_>", "result: &mut CodegenResult", 1, "R12 lifetime")],
         "requires": ["ctx.s_in_codegen()"],
         "ensures": [
             # "A blocklisted type, function, variable or file is never defined in the output"
             "expected_blocklisted(self, ctx) ==> *final(result) == *old(result)",
             # nor is an item disabled for code generation, nor one already generated (no duplicate definitions)
             "(!self.s_enabled(ctx) || old(result).seen_items@.contains(self.id)) ==> *final(result) == *old(result)",
         ]},
    ],
}
