"""Unit `gates` (C14): `unsafe extern` blocks only where the target has them."""
import os
ENV = os.path.join(os.path.dirname(os.path.dirname(os.path.abspath(__file__))), "env")
CG = "bindgen/codegen/mod.rs"

# `<flag expression> .then(|| quote!(unsafe))` -> `then_unsafe_kw(<flag expression>)`, the flag expression taken from the source
THEN = r"re:let safety\s*=\s*((?:.|\n)*?)\s*\.then\(\|\|\s*quote!\(unsafe\)\)"
THEN_NEW = r"let safety = then_unsafe_kw(\1)"


def site(name, impl, nth_label):
    return {"kind": "fn", "file": CG, "name": name, "impl": impl, "ret": "r",
            "closure": {"enclosing": "codegen", "anchor_re": r"(?m)^\s*let safety\s*=", "nth": 0, "stmt": "let",
                        # signature completeness: `self` (the Var / Function being generated) is in scope of the statement
                        "signature": "fn %s(self_: &%s, ctx: &BindgenContext) -> (r: Option<Tok>)" % (name, "Var" if "Var" in impl else "Function"),
                        "prefix": "{", "suffix": "; safety }"},
            # `<flag expression>.then(|| quote!(unsafe))` -> `then_unsafe_kw(<flag expression>)`: two edits around the expression, which
            # stays source text (and may mention the item being generated)
            "subst": [(r"re:let safety\s*=\s*", "let safety = then_unsafe_kw(", 1, "R7 bool::then (open)"),
                      (r"re:\s*\.then\(\|\|\s*quote!\(unsafe\)\)", ")", 1, "R7 bool::then (close)"),
                      (r"re:(?<![\w.])self(?![\w(:])", "self_", 0, "R18 captured self")],
            "ensures": [
                # C14: the `unsafe extern` form (Rust 1.82) only when the target has it -- and always then (edition 2024 requires it)
                "r.is_some() == ctx.spec_options().rust_features.unsafe_extern_blocks",
                "r.is_some() ==> is_unsafe_kw(r.unwrap())",
            ]}


def offset_of_site(name, impl):
    return {"kind": "fn", "file": CG, "name": name, "impl": impl, "ret": "r",
            "closure": {"enclosing": "codegen", "anchor": "let compile_time =", "nth": 0, "stmt": "let",
                        "signature": "fn %s(ctx: &BindgenContext) -> (r: bool)" % name,
                        "prefix": "{", "suffix": "; compile_time }"},
            "ensures": [
                # C14: `compile_time` selects `::core::mem::offset_of!` for the field-offset checks
                "r ==> ctx.spec_options().rust_features.offset_of",
            ]}


UNIT = {
    "name": "gates",
    "env": [os.path.join(ENV, "gates_env.rs")],
    "declared_trusted": {r"external_body": 7},
    "items": [
        {"kind": "options_bools", "extra": ["pub rust_features: RustFeatures"]},
        site("extern_static_safety", r"^impl CodeGenerator for Var$", 0),
        site("extern_fn_safety", r"^impl CodeGenerator for Function$", 0),
        # which form the struct layout assertions take: `offset_of!` (Rust 1.77) only when the target has it (the template-instantiation
        # site has the same flag but spells no gated construct in either form: `const _` and size_of/align_of are older than 1.51)
        offset_of_site("comp_layout_compile_time", r"^impl CodeGenerator for CompInfo$"),
    ],
}
