"""Unit `char_macro` (C05, C12): the character-literal arm of Var::parse."""
import os
ENV = os.path.join(os.path.dirname(os.path.dirname(os.path.abspath(__file__))), "env")

UNIT = {
    "name": "char_macro",
    "env": [os.path.join(ENV, "char_macro_env.rs")],
    "declared_trusted": {r"external_body": 20},
    "items": [
        {"kind": "enum", "file": "bindgen/ir/var.rs", "name": "VarType"},
        # C05 (a constant carries the C value "or is omitted"): a floating-point constant only for variables whose Rust type IS a float
        # (`long double` / `__float128` / `_Float16` are integers or structs of their size: found and repaired F32)
        {"kind": "fn", "file": "bindgen/ir/var.rs", "name": "var_is_float_constant", "impl": r"^impl ClangSubItemParser for Var$", "ret": "r",
         "closure": {"enclosing": "parse", "anchor": "let is_float =", "nth": 0, "stmt": "let",
                     "signature": "fn var_is_float_constant(canonical_ty: Option<&Type>, is_integer: bool) -> (r: bool)",
                     "prefix": "{", "suffix": "; is_float }"},
         "subst": [(r"re:(?s)canonical_ty\.is_some_and\(\|t\|\s*(.*?)\)\s*;", r"(match canonical_ty { Some(t) => \1, None => false });", 1, "R7 Option::is_some_and")],
         "ensures": ["r ==> canonical_ty.is_some() && (canonical_ty.unwrap().s_kind() == TypeKind::Float(FloatKind::Float) || canonical_ty.unwrap().s_kind() == TypeKind::Float(FloatKind::Double))"]},
        # C05: "Function-like macros are never emitted as constants": whatever callbacks are registered, a function-like macro
        # does not reach the expression evaluator (statements R18, from the check up to the use of the value)
        {"kind": "fn", "file": "bindgen/ir/var.rs", "name": "macro_value", "impl": r"^impl ClangSubItemParser for Var$", "ret": "r",
         "closure": {"enclosing": "parse", "anchor": "for callbacks in &ctx.options().parse_callbacks {", "nth": 0, "stmt": "until", "until": "let Some((id, value)) = value else",
                     "signature": "fn macro_value(ctx: &mut BindgenContext, cursor: clang::Cursor) -> (r: Result<Option<MacroVal>, ParseError>)",
                     "prefix": "{", "suffix": "Ok(value) }"},
         "subst": [("for callbacks in &ctx.options().parse_callbacks", "let mut it = CallbackCursor::new(ctx); while it.has_next()", 1, "R13 (any number of callbacks, including none)")],
         "loops": {0: {"body_start": "let callbacks = it.next_item();", "decreases": "it.remaining()"}},
         "ensures": ["clang::s_fn_like(cursor) ==> r.is_err()"]},

        {"kind": "fn", "file": "bindgen/ir/var.rs", "name": "char_macro_arm", "impl": r"^impl ClangSubItemParser for Var$", "ret": "r",
         "closure": {"enclosing": "parse", "anchor": "EvalResult::Char(c) => {", "nth": 0,
                     "signature": "fn char_macro_arm(c: CChar) -> (r: Result<(TypeKind, VarType), ParseError>)",
                     "prefix": "{ Ok(", "suffix": ") }"},
         "subst": [
             ("assert_eq!(c.len_utf8(), 1);", "runtime_assert(char_len_utf8(c) == 1);", 1, "R15 assert_eq!"),
             ("c as u8", "char_as_u8(c)", 1, "R21"),
             ("u8::try_from(c)", "u8_try_from(c)", 1, "R21"),
         ],
         # cexpr yields CChar::Char only for characters of one UTF-8 byte (assumed of the dependency)
         "requires": ["match c { CChar::Char(ch) => s_len_utf8(ch) == 1, _ => true }"],
         "ensures": [
             # C05: the constant has the byte value of the literal, as an unsigned 8-bit integer; a literal whose value does
             # not fit is omitted, never emitted with another value (and never a panic: C12)
             "r == (match c { CChar::Raw(v) => if v <= 255 { Ok::<(TypeKind, VarType), ParseError>((TypeKind::Int(IntKind::U8), VarType::Char(v as u8))) } else { Err::<(TypeKind, VarType), ParseError>(ParseError::Continue) }, "
             "CChar::Char(ch) => Ok::<(TypeKind, VarType), ParseError>((TypeKind::Int(IntKind::U8), VarType::Char(s_char_as_u8(ch)))) })",
         ]},
    ],
}
