"""Unit `char_macro` (C05, C12): the character-literal arm of Var::parse."""
import os
ENV = os.path.join(os.path.dirname(os.path.dirname(os.path.abspath(__file__))), "env")

UNIT = {
    "name": "char_macro",
    "env": [os.path.join(ENV, "char_macro_env.rs")],
    "declared_trusted": {r"external_body": 3},
    "items": [
        {"kind": "enum", "file": "bindgen/ir/var.rs", "name": "VarType"},
        {"kind": "fn", "file": "bindgen/ir/var.rs", "name": "char_macro_arm", "impl": r"^impl ClangSubItemParser for Var$", "ret": "r",
         "closure": {"enclosing": "parse", "anchor": "EvalResult::Char(c) => {", "nth": 0,
                     "signature": "fn char_macro_arm(c: CChar) -> (r: Result<(TypeKind, VarType), ParseError>)",
                     "prefix": "{ Ok(", "suffix": ") }"},
         "subst": [
             ("assert_eq!(c.len_utf8(), 1);", "runtime_assert(char_len_utf8(c) == 1);", 1, "R15 assert_eq!"),
             ("c as u8", "char_as_u8(c)", 1, "R21"),
             ("u8::try_from(c)", "u8_try_from(c)", 1, "R21"),
         ],
         # cexpr yields CChar::Char only for characters of one UTF-8 byte (assumed of the dependency)
         "requires": ["match c { CChar::Char(ch) => s_len_utf8(ch) == 1, _ => true }"],
         "ensures": [
             # C05: the constant has the byte value of the literal, as an unsigned 8-bit integer; a literal whose value does
             # not fit is omitted, never emitted with another value (and never a panic: C12)
             "r == (match c { CChar::Raw(v) => if v <= 255 { Ok::<(TypeKind, VarType), ParseError>((TypeKind::Int(IntKind::U8), VarType::Char(v as u8))) } else { Err::<(TypeKind, VarType), ParseError>(ParseError::Continue) }, "
             "CChar::Char(ch) => Ok::<(TypeKind, VarType), ParseError>((TypeKind::Int(IntKind::U8), VarType::Char(s_char_as_u8(ch)))) })",
         ]},
    ],
}
