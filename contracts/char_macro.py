"""Unit `char_macro` (C05, C12): the character-literal arm of Var::parse."""
import os
ENV = os.path.join(os.path.dirname(os.path.dirname(os.path.abspath(__file__))), "env")

VALUE_SUBST = [
    ("unreachable!()", "vstd::pervasive::unreached()", 0, "R15 unreachable! (if present)"),
    (r"re:(?s)cursor\s*\.evaluate\(\)\s*\.and_then\(\|v\|\s*v\.(\w+)\(\)\)\s*\.map\(VarType::(\w+)\)",
     r"(match cursor.evaluate() { Some(v) => match v.\1() { Some(x_) => Some(VarType::\2(x_)), None => None }, None => None })", 0, "R7 Option::and_then + map(constructor) (if present)"),
    (r"re:(?s)cursor\s*\.evaluate\(\)\s*\.and_then\(\|v\|\s*v\.(\w+)\(\)\)(?!\s*\.map)",
     r"(match cursor.evaluate() { Some(v) => v.\1(), None => None })", 0, "R7 Option::and_then (if present)"),
    (r"re:(?s)val\.map\(\|val\|\s*\{(.*?)\}\)(?=\s*\}\s*else if)", r"(match val { Some(val) => Some({\1}), None => None })", 0, "R7 Option::map (if present)"),
]

UNIT = {
    "name": "char_macro",
    "env": [os.path.join(ENV, "char_macro_env.rs")],
    "declared_trusted": {r"external_body": 26},
    "items": [
        {"kind": "enum", "file": "bindgen/ir/var.rs", "name": "VarType"},
        # C05 (a constant carries the C value "or is omitted"): a floating-point constant only for variables whose Rust type IS a float
        # (`long double` / `__float128` / `_Float16` are integers or structs of their size: found and repaired F32)
        {"kind": "fn", "file": "bindgen/ir/var.rs", "name": "var_is_float_constant", "impl": r"^impl ClangSubItemParser for Var$", "ret": "r",
         "closure": {"enclosing": "parse", "anchor": "let is_float =", "nth": 0, "stmt": "let",
                     "signature": "fn var_is_float_constant(canonical_ty: Option<&Type>, is_integer: bool) -> (r: bool)",
                     "prefix": "{", "suffix": "; is_float }"},
         "subst": [(r"re:(?s)canonical_ty\.is_some_and\(\|t\|\s*(.*?)\)\s*;", r"(match canonical_ty { Some(t) => \1, None => false });", 1, "R7 Option::is_some_and")],
         "ensures": ["r ==> canonical_ty.is_some() && (canonical_ty.unwrap().s_kind() == TypeKind::Float(FloatKind::Float) || canonical_ty.unwrap().s_kind() == TypeKind::Float(FloatKind::Double))"]},
        # C05: the constant a variable's initialiser becomes has the shape of the variable's type (an integer or bool for integer
        # types, a float for float / double, otherwise at most a string literal)
        {"kind": "fn", "file": "bindgen/ir/var.rs", "name": "var_value", "impl": r"^impl ClangSubItemParser for Var$", "ret": "r",
         "closure": {"enclosing": "parse", "anchor_re": r"(?m)^\s*let value\s*=\s*if\b", "nth": 0, "stmt": "let",
                     "signature": "fn var_value(is_const: bool, is_integer: bool, is_float: bool, canonical_ty: Option<&Type>, cursor: clang::Cursor) -> (r: Option<VarType>)",
                     "prefix": "{", "suffix": "; value }"},
         "subst": VALUE_SUBST,
         # how `is_integer` is computed two statements above: canonical_ty.is_some_and(|t| t.is_integer())
         "requires": ["is_integer ==> canonical_ty.is_some() && canonical_ty.unwrap().s_kind() is Int"],
         "ensures": [
             "is_integer && r.is_some() ==> (if canonical_ty.unwrap().s_kind() == TypeKind::Int(IntKind::Bool) { r.unwrap() is Bool } else { r.unwrap() is Int })",
             "!is_integer && is_float && r.is_some() ==> r.unwrap() is Float",
             "!is_integer && !is_float && r.is_some() ==> r.unwrap() is String",
         ]},
        # C05: "Function-like macros are never emitted as constants": whatever callbacks are registered, a function-like macro
        # does not reach the expression evaluator (statements R18, from the check up to the use of the value)
        {"kind": "fn", "file": "bindgen/ir/var.rs", "name": "macro_value", "impl": r"^impl ClangSubItemParser for Var$", "ret": "r",
         "closure": {"enclosing": "parse", "anchor": "for callbacks in &ctx.options().parse_callbacks {", "nth": 0, "stmt": "until", "until": "let Some((id, value)) = value else",
                     "signature": "fn macro_value(ctx: &mut BindgenContext, cursor: clang::Cursor) -> (r: Result<Option<MacroVal>, ParseError>)",
                     "prefix": "{", "suffix": "Ok(value) }"},
         "subst": [("for callbacks in &ctx.options().parse_callbacks", "let mut it = CallbackCursor::new(ctx); while it.has_next()", 1, "R13 (any number of callbacks, including none)")],
         "loops": {0: {"body_start": "let callbacks = it.next_item();", "decreases": "it.remaining()"}},
         "ensures": ["clang::s_fn_like(cursor) ==> r.is_err()"]},

        {"kind": "fn", "file": "bindgen/ir/var.rs", "name": "char_macro_arm", "impl": r"^impl ClangSubItemParser for Var$", "ret": "r",
         "closure": {"enclosing": "parse", "anchor": "EvalResult::Char(c) => {", "nth": 0,
                     "signature": "fn char_macro_arm(c: CChar) -> (r: Result<(TypeKind, VarType), ParseError>)",
                     "prefix": "{ Ok(", "suffix": ") }"},
         "subst": [
             ("assert_eq!(c.len_utf8(), 1);", "runtime_assert(char_len_utf8(c) == 1);", 1, "R15 assert_eq!"),
             ("c as u8", "char_as_u8(c)", 1, "R21"),
             ("u8::try_from(c)", "u8_try_from(c)", 1, "R21"),
         ],
         # cexpr yields CChar::Char only for characters of one UTF-8 byte (assumed of the dependency)
         "requires": ["match c { CChar::Char(ch) => s_len_utf8(ch) == 1, _ => true }"],
         "ensures": [
             # C05: the constant has the byte value of the literal, as an unsigned 8-bit integer; a literal whose value does
             # not fit is omitted, never emitted with another value (and never a panic: C12)
             "r == (match c { CChar::Raw(v) => if v <= 255 { Ok::<(TypeKind, VarType), ParseError>((TypeKind::Int(IntKind::U8), VarType::Char(v as u8))) } else { Err::<(TypeKind, VarType), ParseError>(ParseError::Continue) }, "
             "CChar::Char(ch) => Ok::<(TypeKind, VarType), ParseError>((TypeKind::Int(IntKind::U8), VarType::Char(s_char_as_u8(ch)))) })",
         ]},
    ],
}

# Known finding F39 (witness): a NON-const global with a constant initialiser (`int counter = 5;`) is bound as a Rust
# `pub const` - the binding never reads the C variable and cannot write it; C04 demands "the declared type and mutability".
# Expected to FAIL on the unchanged tree: the value statement does not look at is_const (and Var::codegen emits a constant
# whenever a value is present).
import copy as _copy
_w = _copy.deepcopy(next(i for i in UNIT["items"] if i.get("name") == "var_value"))
_w["rename"] = "var_value__nonconst"
_w["rename_tag"] = "@nonconst_initialised_F39"
_w["witness"] = True
_w["closure"]["signature"] = _w["closure"]["signature"].replace("fn var_value(", "fn var_value__nonconst(")
_w["ensures"] = ["!is_const ==> r.is_none()"]
UNIT["items"].append(_w)
