"""Unit `gen_errors` (C12): bad inputs become error values."""
import os
ENV = os.path.join(os.path.dirname(os.path.dirname(os.path.abspath(__file__))), "env")
LIB = "bindgen/lib.rs"

UNIT = {
    "name": "gen_errors",
    "env": [os.path.join(ENV, "gen_errors_env.rs")],
    "declared_trusted": {r"external_body": 19},
    "items": [
        # "a missing path, a directory or an unreadable file yields the corresponding specific error"
        {"kind": "fn", "file": LIB, "name": "check_input_header", "impl": r"^impl Bindings$", "impl_nth": 0, "ret": "r",
         "closure": {"enclosing": "generate", "anchor": "if let Some(h) = options.input_headers.last() {", "nth": 0,
                     "signature": "fn check_input_header(h: &HeaderName, options: &mut BindgenOptions) -> (r: Result<(), BindgenError>)",
                     "prefix": "{", "suffix": "Ok(()) }"},
         "ensures": [
             "fs_metadata(h.view()).is_none() ==> r == Err::<(), BindgenError>(BindgenError::NotExist(pathbuf_of(h.view())))",
             "fs_metadata(h.view()).is_some() && fs_metadata(h.view()).unwrap().s_is_dir() ==> r == Err::<(), BindgenError>(BindgenError::FolderAsHeader(pathbuf_of(h.view())))",
             "fs_metadata(h.view()).is_some() && !fs_metadata(h.view()).unwrap().s_is_dir() && !s_can_read(fs_metadata(h.view()).unwrap().s_perms()) ==> r == Err::<(), BindgenError>(BindgenError::InsufficientPermissions(pathbuf_of(h.view())))",
             "fs_metadata(h.view()).is_some() && !fs_metadata(h.view()).unwrap().s_is_dir() && s_can_read(fs_metadata(h.view()).unwrap().s_perms()) ==> r.is_ok() && final(options).clang_args@ == old(options).clang_args@.push(*h)",
             "r.is_err() ==> final(options).clang_args@ == old(options).clang_args@",
         ]},
        # "A header that clang rejects yields an error carrying clang's diagnostics": a diagnostic of severity
        # Error OR FATAL makes the run fail
        {"kind": "fn", "file": LIB, "name": "scan_diagnostic", "ret": "r_unit",
         "closure": {"enclosing": "parse", "anchor": "for d in &context.translation_unit().diags() {", "nth": 0,
                     "signature": "fn scan_diagnostic(d: &Diagnostic, error: &mut Option<String>)"},
         "subst": [
             ("let error = error.get_or_insert_with(String::new); error.push_str(&msg); error.push('\\n');", "append_line(error, &msg);", 1, "R5 string plumbing"),
             ('eprintln!("clang diag: {msg}");', "eprint_diag(&msg);", 1, "R1-like"),
         ],
         "ensures": [
             "d.s_severity() >= CXDiagnostic_Error ==> final(error).is_some()",
             "d.s_severity() < CXDiagnostic_Error ==> *final(error) == *old(error)",
             "old(error).is_some() ==> final(error).is_some()",
         ]},
    ],
}
