"""Unit `base_storage` (C10, C02): a base class with storage - blocklisted or not - is a field of the derived struct."""
import os
ENV = os.path.join(os.path.dirname(os.path.dirname(os.path.abspath(__file__))), "env")
CX = "bindgen/ir/context.rs"
CP = "bindgen/ir/comp.rs"

SPEC = """
// C++ [class.derived]/[intro.object]: a base-class subobject of an EMPTY class may have zero size (every ABI bindgen targets
// does so); any other base occupies at least its members / vtable pointer
pub open spec fn empty_class(t: Type, ctx: &BindgenContext) -> bool {
    match t.s_canonical(ctx).s_kind() { TypeKind::Comp(c) => c.s_fields().len() == 0 && c.s_bases().len() == 0 && !c.s_own_virtual(), _ => false }
}
pub open spec fn s_outside(ctx: &BindgenContext, id: TypeId) -> SizednessResult {
    if !ctx.s_allowlisted().s_contains(id.0) && (match ctx.s_type(id).s_layout(ctx) { Some(l) => l.size != 0, None => false }) && !empty_class(ctx.s_type(id), ctx)
    { SizednessResult::NonZeroSized } else { SizednessResult::ZeroSized }
}
pub open spec fn s_lookup_sizedness(ctx: &BindgenContext, id: TypeId) -> SizednessResult {
    match ctx.s_sized_entry(id) { Some(r) => r, None => s_outside(ctx, id) }
}
"""

UNIT = {
    "name": "base_storage",
    "env": [os.path.join(ENV, "base_storage_env.rs")],
    "declared_trusted": {r"external_body": 19},
    "items": [
        {"kind": "enum", "file": "bindgen/ir/analysis/sizedness.rs", "name": "SizednessResult", "prefix": "#[derive(Copy, Clone, PartialEq, Eq, Structural)]"},
        {"kind": "raw", "label": "spec", "text": SPEC},
        # the judgement for a type the analysis has no answer for (shared by lookup_sizedness and SizednessAnalysis::constrain)
        {"kind": "fn", "file": CX, "name": "sizedness_outside_analysis", "impl": r"^impl BindgenContext$", "impl_nth": 0, "impl_header": "impl BindgenContext", "impl_name": "BindgenContext", "ret": "r",
         "subst": [
             ("&id.into()", "&id.item()", 1, "R12"),
             ("ty.layout(self).is_some_and(|layout| layout.size != 0)", "(match ty.layout(self) { Some(layout) => layout.size != 0, None => false })", 1, "R7 Option::is_some_and"),
         ],
         "ensures": [
             "r == s_outside(self, id)",
             # C10 "every use of a blocklisted type still names it": a type left out of the output is NOT taken for an empty base
             # when the C compiler gives it a size and it has members, bases or a vtable (defects F28, F36)
             "!self.s_allowlisted().s_contains(id.0) && self.s_type(id).s_layout(self).is_some() && self.s_type(id).s_layout(self).unwrap().size != 0 "
             "&& !empty_class(self.s_type(id), self) ==> r == SizednessResult::NonZeroSized",
         ]},
        {"kind": "fn", "file": CX, "name": "lookup_sizedness", "impl": r"^impl BindgenContext$", "impl_nth": 0, "impl_header": "impl BindgenContext", "impl_name": "BindgenContext", "ret": "r",
         "assert_to_requires": True,
         "r2_spec_form": [("self.in_codegen_phase()", "self.s_codegen_phase()")],
         "subst": [("self.sizedness.as_ref().unwrap().get(&id)", "self.sized_entry(id)", 1, "R5 table lookup")],
         "ensures": ["r == s_lookup_sizedness(self, id)"]},
        {"kind": "enum", "file": CP, "name": "BaseKind", "prefix": "#[derive(Copy, Clone, PartialEq, Eq, Structural)]"},
        {"kind": "struct", "file": CP, "name": "Base"},
        {"kind": "fn", "file": CP, "name": "is_virtual", "impl": r"^impl Base$", "impl_header": "impl Base", "impl_name": "Base", "ret": "r",
         "ensures": ["r == (self.kind is Virtual)"]},
        {"kind": "fn", "file": CP, "name": "requires_storage", "impl": r"^impl Base$", "impl_header": "impl Base", "impl_name": "Base", "ret": "r",
         "requires": ["ctx.s_codegen_phase()"],
         "ensures": ["r == (!(self.kind is Virtual) && s_lookup_sizedness(ctx, self.ty) != SizednessResult::ZeroSized)"]},
    ],
}
