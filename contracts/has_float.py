"""Unit `has_float` (C07): HasFloat::{insert, constrain} -- a constrain rule must be
inflationary, report Changed exactly when the fact set changed, and compute the
fact of a node from the facts of the neighbours it reads."""
import os
ENV = os.path.join(os.path.dirname(os.path.dirname(os.path.abspath(__file__))), "env")
HF = "bindgen/ir/analysis/has_float.rs"

SPEC = """
// the inference rule for "contains a floating-point value", from the rule's documentation /
// the property (a type has float iff it is one, or a constituent it embeds by value has)
pub open spec fn rule_has_float(s: Set<ItemId>, ctx: &BindgenContext, id: ItemId) -> bool {
    match ctx.s_item(id).s_as_type() {
        None => false,
        Some(ty) => match ty.s_kind() {
            TypeKind::Float(..) | TypeKind::Complex(..) => true,
            TypeKind::Array(t, _) | TypeKind::Vector(t, _) => s.contains(t.0),
            TypeKind::ResolvedTypeRef(t) | TypeKind::TemplateAlias(t, _) | TypeKind::Alias(t) | TypeKind::BlockPointer(t) => s.contains(t.0),
            TypeKind::Comp(info) => s_any_base(s, &info) || s_any_field(s, &info),
            TypeKind::TemplateInstantiation(inst) => s_any_arg(s, &inst) || s.contains(inst.s_definition().0),
            _ => false,
        },
    }
}
"""

IMPL = {"impl": r"^impl HasFloat<'_>$", "impl_header": "impl<'ctx> HasFloat<'ctx>", "impl_name": "HasFloat"}
IMPL2 = {"impl": r"^impl<'ctx> MonotoneFramework for HasFloat<'ctx>$", "impl_header": "impl<'ctx> HasFloat<'ctx>", "impl_name": "HasFloat"}

UNIT = {
    "name": "has_float",
    "env": [os.path.join(ENV, "has_float_env.rs")],
    "declared_trusted": {r"external_body": 25},
    "items": [
        {"kind": "enum", "file": "bindgen/ir/analysis/mod.rs", "name": "ConstrainResult", "prefix": "#[derive(Copy, Clone, PartialEq, Eq, Structural)]"},
        {"kind": "enum", "file": "bindgen/ir/ty.rs", "name": "TypeKind"},
        {"kind": "struct", "file": HF, "name": "HasFloat"},
        {"kind": "raw", "label": "has_float_spec", "text": SPEC},
        {"kind": "fn", "file": HF, "name": "insert", **IMPL, "ret": "r",
         "subst": [("<Id: Into<ItemId>>", "", 1, "R12"), ("id: Id", "id: ItemId", 1, "R12"),
                   ("let id = id.into();", "", 1, "R12"),
                   ('assert!( was_not_already_in_set, "We shouldn\'t try and insert {id:?} twice because if it was \\\n             already in the set, `constrain` should have exited early." );', "runtime_assert(was_not_already_in_set);", 1, "R15 assert!")],
         "requires": ["!old(self).has_float.view().contains(id)"],
         "ensures": ["final(self).has_float.view() == old(self).has_float.view().insert(id)", "r == ConstrainResult::Changed", "final(self).ctx == old(self).ctx"]},
        {"kind": "fn", "file": HF, "name": "constrain", **IMPL2, "ret": "r",
         "subst": [
             ("info .base_members() .iter() .any(|base| self.has_float.contains(&base.ty.into()))", "any_base_in(&self.has_float, info)", 1, "R5"),
             ("info.fields().iter().any(|f| match *f { Field::DataMember(ref data) => { self.has_float.contains(&data.ty().into()) } Field::Bitfields(ref bfu) => bfu .bitfields() .iter() .any(|b| self.has_float.contains(&b.ty().into())), })", "any_field_in(&self.has_float, info)", 1, "R5"),
             ("template .template_arguments() .iter() .any(|arg| self.has_float.contains(&arg.into()))", "any_arg_in(&self.has_float, template)", 1, "R5"),
             ("(&t.into())", "(&t.item())", 1, "R12"),
             ("(&template.template_definition().into())", "(&template.template_definition().item())", 1, "R12"),
         ],
         "ensures": [
             # inflationary, and only the node under consideration can change
             "final(self).has_float.view() == old(self).has_float.view() || final(self).has_float.view() == old(self).has_float.view().insert(id)",
             # Changed is reported exactly when the fact set changed (otherwise dependants are not re-queued)
             "(r == ConstrainResult::Changed) == (final(self).has_float.view() != old(self).has_float.view())",
             # the fix-point equation of the rule
             "final(self).has_float.view().contains(id) == (old(self).has_float.view().contains(id) || rule_has_float(old(self).has_float.view(), old(self).ctx, id))",
         ]},
    ],
}
