"""Unit `lattice_constrain` (C07): MonotoneFramework::constrain of HasVtableAnalysis and
SizednessAnalysis -- each rule moves only the node under consideration, only upwards, to the
join of its old fact and what the rule computes from the CURRENT facts of its neighbours
(fix-point equation), and reports Changed exactly when the table changed.  The insert /
forward helpers are verified in the same unit and used through their contracts."""
import os
import copy
import importlib.util
ENV = os.path.join(os.path.dirname(os.path.dirname(os.path.abspath(__file__))), "env")
HV = "bindgen/ir/analysis/has_vtable.rs"
SZ = "bindgen/ir/analysis/sizedness.rs"

_sp = importlib.util.spec_from_file_location("contracts_lattice_insert_for_constrain", os.path.join(os.path.dirname(os.path.abspath(__file__)), "lattice_insert.py"))
_li = importlib.util.module_from_spec(_sp)
_sp.loader.exec_module(_li)


def _item(name, impl_name):
    for it in _li.UNIT["items"]:
        if it.get("kind") == "fn" and it["name"] == name and it.get("impl_name") == impl_name:
            return copy.deepcopy(it)
    raise KeyError(name)


SPEC = _li.SPEC + """
pub open spec fn hv_join(a: HasVtableResult, b: HasVtableResult) -> HasVtableResult { if hv_rank(b) > hv_rank(a) { b } else { a } }
pub open spec fn sz_join(a: SizednessResult, b: SizednessResult) -> SizednessResult { if sz_rank(b) > sz_rank(a) { b } else { a } }

// `result |= x` on HasVtableResult: BitOrAssign = join (has_vtable.rs; join = max in the declared
// order is what the Kani lattice harnesses prove)
impl BitOrAssignSpecImpl<HasVtableResult> for HasVtableResult {
    open spec fn obeys_bitor_assign_spec() -> bool { true }
    open spec fn bitor_assign_req(&self, o: HasVtableResult) -> bool { true }
    open spec fn bitor_assign_spec(&self, o: HasVtableResult) -> &HasVtableResult { if hv_rank(o) > hv_rank(*self) { &o } else { self } }
}
impl core::ops::BitOrAssign for HasVtableResult {
    fn bitor_assign(&mut self, o: HasVtableResult) { if hv_lt(*self, o) { *self = o; } }
}

// RULE "has a vtable" (has_vtable.rs module docs / C++: a class has a vtable iff it declares a
// virtual method or a base has one; aliases, references and instantiations forward)
pub open spec fn rule_vtable(m: Map<ItemId, HasVtableResult>, ctx: &BindgenContext, id: ItemId) -> HasVtableResult {
    match ctx.s_item(id).s_as_type() {
        None => HasVtableResult::No,
        Some(ty) => match ty.s_kind() {
            TypeKind::TemplateAlias(t, _) | TypeKind::Alias(t) | TypeKind::ResolvedTypeRef(t) | TypeKind::Reference(t) => hv_at(m, t.0),
            TypeKind::Comp(info) => hv_join(if info.s_own_virtual() { HasVtableResult::SelfHasVtable } else { HasVtableResult::No },
                                            if s_any_base_key(m.dom(), &info) { HasVtableResult::BaseHasVtable } else { HasVtableResult::No }),
            TypeKind::TemplateInstantiation(inst) => hv_at(m, inst.s_definition().0),
            _ => HasVtableResult::No,
        },
    }
}

// stands for: info.base_members().iter().map(|base| table entry, or the layout-based answer for a base outside the analysis).fold(ZeroSized, join)
pub uninterp spec fn s_bases_join(m: Map<TypeId, SizednessResult>, ctx: &BindgenContext, info: &CompInfo) -> SizednessResult;
#[verifier::external_body] pub fn bases_join(m: &HashMap<TypeId, SizednessResult>, ctx: &BindgenContext, info: &CompInfo) -> (r: SizednessResult) ensures r == s_bases_join(m.view(), ctx, info) { unimplemented!() }

// RULE "is zero-sized" (sizedness.rs module docs)
pub open spec fn rule_sized(m: Map<TypeId, SizednessResult>, ctx: &BindgenContext, id: TypeId) -> SizednessResult {
    if id.s_has_vtable_ptr(ctx) { SizednessResult::NonZeroSized }
    else if id.s_opaque(ctx) {
        match ctx.s_type(id).s_layout(ctx) { None => SizednessResult::ZeroSized, Some(l) => if l.size == 0 { SizednessResult::ZeroSized } else { SizednessResult::NonZeroSized } }
    } else {
        match ctx.s_type(id).s_kind() {
            TypeKind::Void => SizednessResult::ZeroSized,
            TypeKind::TypeParam => SizednessResult::DependsOnTypeParam,
            TypeKind::Int(..) | TypeKind::Float(..) | TypeKind::Complex(..) | TypeKind::Function(..) | TypeKind::Enum(..) | TypeKind::Reference(..)
            | TypeKind::NullPtr | TypeKind::ObjCId | TypeKind::ObjCSel | TypeKind::Pointer(..) | TypeKind::ObjCInterface(..) => SizednessResult::NonZeroSized,
            TypeKind::TemplateAlias(t, _) | TypeKind::Alias(t) | TypeKind::BlockPointer(t) | TypeKind::ResolvedTypeRef(t) => sz_at(m, t),
            TypeKind::TemplateInstantiation(inst) => sz_at(m, inst.s_definition()),
            TypeKind::Array(_, n) => if n == 0 { SizednessResult::ZeroSized } else { SizednessResult::NonZeroSized },
            TypeKind::Vector(..) => SizednessResult::NonZeroSized,
            TypeKind::Comp(info) => if !info.s_no_fields() { SizednessResult::NonZeroSized } else { s_bases_join(m, ctx, &info) },
            TypeKind::Opaque | TypeKind::UnresolvedTypeRef(..) => SizednessResult::ZeroSized,   // excluded by the preconditions
        }
    }
}
"""

HVI = {"impl": r"^impl<'ctx> MonotoneFramework for HasVtableAnalysis<'ctx>$", "impl_header": "impl<'ctx> HasVtableAnalysis<'ctx>", "impl_name": "HasVtableAnalysis"}
SZI = {"impl": r"^impl<'ctx> MonotoneFramework for SizednessAnalysis<'ctx>$", "impl_header": "impl<'ctx> SizednessAnalysis<'ctx>", "impl_name": "SizednessAnalysis"}

_sz_forward = _item("forward", "SizednessAnalysis")
_sz_forward["ensures"] = [
    "forall|k| k != to ==> sz_at(final(self).sized.view(), k) == sz_at(old(self).sized.view(), k)",
    "sz_at(final(self).sized.view(), to) == sz_join(sz_at(old(self).sized.view(), to), sz_at(old(self).sized.view(), from))",
    "(r == ConstrainResult::Changed) == (sz_rank(sz_at(old(self).sized.view(), from)) > sz_rank(sz_at(old(self).sized.view(), to)))",
    "final(self).ctx == old(self).ctx",
]
_hv_forward = _item("forward", "HasVtableAnalysis")
_hv_forward["ensures"] = list(_hv_forward["ensures"]) + ["final(self).ctx == old(self).ctx"]

UNIT = {
    "name": "lattice_constrain",
    "env": [os.path.join(ENV, "lattice_constrain_env.rs")],
    "declared_trusted": {r"external_body": 33},
    "items": [
        {"kind": "enum", "file": "bindgen/ir/analysis/mod.rs", "name": "ConstrainResult", "prefix": "#[derive(Copy, Clone, PartialEq, Eq, Structural)]"},
        {"kind": "enum", "file": HV, "name": "HasVtableResult", "prefix": "#[derive(Copy, Clone, PartialEq, Eq, Structural)]"},
        {"kind": "enum", "file": SZ, "name": "SizednessResult", "prefix": "#[derive(Copy, Clone, PartialEq, Eq, Structural)]"},
        {"kind": "enum", "file": "bindgen/ir/derive.rs", "name": "CanDerive", "prefix": "#[derive(Copy, Clone, PartialEq, Eq, Structural)]"},
        {"kind": "enum", "file": "bindgen/ir/ty.rs", "name": "TypeKind"},
        {"kind": "struct", "file": HV, "name": "HasVtableAnalysis"},
        {"kind": "struct", "file": SZ, "name": "SizednessAnalysis"},
        {"kind": "raw", "label": "spec", "text": SPEC},
        _item("insert", "HasVtableAnalysis"),
        _hv_forward,
        {"kind": "fn", "file": HV, "name": "constrain", **HVI, "ret": "r",
         "subst": [
             # the closure holds one trace! line and the key test; both anchors are literal, nothing else is hidden
             # `.any(|base| { BODY })` -> cursor loop with BODY verbatim (rule R25); BODY's `base.ty.into()` -> `.item()` (R12)
             (r"re:(?s)info\.base_members\(\)\.iter\(\)\.any\(\|base\|\s*\{(.*?)\}\);",
              r"{ let mut it = BaseCursor::new(info.base_members()); let mut found = false; while it.has_next() && !found "
              r"invariant it.all() == info.s_bases() && 0 <= it.pos() <= it.all().len(), "
              r"found == (exists|j: int| 0 <= j < it.pos() && #[trigger] self.have_vtable.view().dom().contains(info.s_bases()[j].ty.0)) "
              r"decreases it.all().len() - it.pos() { let base = it.next_item(); found = {\1}; } found };", 1, "R25 Iterator::any"),
             ("base.ty.into()", "base.ty.item()", 0, "R12 (if present)"),
             ("self.forward(t, id)", "self.forward(t.item(), id)", 1, "R12"),
             ("self.forward(inst.template_definition(), id)", "self.forward(inst.template_definition().item(), id)", 1, "R12"),
         ],
         "ensures": [
             "forall|k| k != id ==> hv_at(final(self).have_vtable.view(), k) == hv_at(old(self).have_vtable.view(), k)",
             # fix-point equation: old fact joined with what the rule computes from the current table
             "hv_at(final(self).have_vtable.view(), id) == hv_join(hv_at(old(self).have_vtable.view(), id), rule_vtable(old(self).have_vtable.view(), old(self).ctx, id))",
             # Changed exactly when the fact moved
             "(r == ConstrainResult::Changed) == (hv_at(final(self).have_vtable.view(), id) != hv_at(old(self).have_vtable.view(), id))",
         ]},
        _item("insert", "SizednessAnalysis"),
        _sz_forward,
        {"kind": "fn", "file": SZ, "name": "constrain", **SZI, "ret": "r",
         "subst": [
             ("ty.layout(self.ctx).map_or(SizednessResult::ZeroSized, |l| {", "match ty.layout(self.ctx) { None => SizednessResult::ZeroSized, Some(l) => {", 1, "R7"),
             ("SizednessResult::NonZeroSized } });", "SizednessResult::NonZeroSized } } };", 1, "R7"),
             ("!info.fields().is_empty()", "!info.has_no_fields()", 1, "R5"),
             (("info .base_members() .iter() .map(|base| {", ".fold(SizednessResult::ZeroSized, |a, b| a.join(b))"), "bases_join(&self.sized, self.ctx, info)", 1, "R5 join over the base classes (an entry of the table, or - for a base outside the analysis - BindgenContext::sizedness_outside_analysis, unit base_storage)"),
             ('unreachable!("covered by the .is_opaque() check above")', "vstd::pervasive::unreached()", 1, "R15"),
             ('unreachable!("Should have been resolved after parsing!");', "vstd::pervasive::unreached()", 1, "R15"),
         ],
         # IR invariant after parsing (the function's own unreachable!): no unresolved type reference is left
         "requires": ["!(old(self).ctx.s_type(id).s_kind() is UnresolvedTypeRef)"],
         "ensures": [
             "forall|k| k != id ==> sz_at(final(self).sized.view(), k) == sz_at(old(self).sized.view(), k)",
             "sz_at(final(self).sized.view(), id) == sz_join(sz_at(old(self).sized.view(), id), rule_sized(old(self).sized.view(), old(self).ctx, id))",
             "(r == ConstrainResult::Changed) == (sz_at(final(self).sized.view(), id) != sz_at(old(self).sized.view(), id))",
         ]},
    ],
}
