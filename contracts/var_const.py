"""Unit `var_const` (C04): "Globals have the declared type and mutability"."""
import os
ENV = os.path.join(os.path.dirname(os.path.dirname(os.path.abspath(__file__))), "env")
VR = "bindgen/ir/var.rs"

SPEC = """
// C11 6.7.3p9: qualifiers of an array type are those of its element type -- through every dimension
pub open spec fn c_const(t: clang::Type) -> bool
    decreases clang::s_depth(t)
{
    clang::s_const(t) || ((clang::s_kind(t) == CXType_ConstantArray || clang::s_kind(t) == CXType_IncompleteArray)
        && clang::s_elem(t).is_some() && clang::s_depth(clang::s_elem(t).unwrap()) < clang::s_depth(t) && c_const(clang::s_elem(t).unwrap()))
}
"""
ARR = "[CXType_ConstantArray, CXType_IncompleteArray] .contains(&ty.kind())"

UNIT = {
    "name": "var_const",
    "env": [os.path.join(ENV, "var_const_env.rs")],
    "declared_trusted": {r"external_body": 4},
    "items": [
        {"kind": "raw", "label": "spec", "text": SPEC},
        {"kind": "fn", "file": VR, "name": "is_const_through_arrays", "impl": r"^impl ClangSubItemParser for Var$", "ret": "r",
         "subst": [(ARR, "is_array_kind(ty.kind())", 1, "R21"),
                   ("ty.elem_type().is_some_and(|element| { is_const_through_arrays(&element) })", "(match ty.elem_type() { Some(element) => is_const_through_arrays(&element), None => false })", 1, "R7")],
         "decreases": "clang::s_depth(*ty)",
         "ensures": ["r == c_const(*ty)"]},
        {"kind": "fn", "file": VR, "name": "var_is_const", "impl": r"^impl ClangSubItemParser for Var$", "ret": "r",
         "closure": {"enclosing": "parse", "anchor_re": r"(?m)^\s*let is_const\s*=", "nth": 0, "stmt": "let",
                     "signature": "fn var_is_const(ty: clang::Type) -> (r: bool)", "prefix": "{", "suffix": "; is_const }"},
         "ensures": [
             # the variable is immutable exactly when its type - as spelled or behind typedefs - is const through every array dimension
             "r == (clang::s_const(ty) || c_const(clang::s_canonical(ty)))",
         ]},
    ],
}
