"""Unit `base_fields` (C02, C03): the layout tracker hears of a base class exactly when a field is emitted for it."""
import os
ENV = os.path.join(os.path.dirname(os.path.dirname(os.path.abspath(__file__))), "env")

UNIT = {
    "name": "base_fields",
    "env": [os.path.join(ENV, "base_fields_env.rs")],
    "declared_trusted": {r"external_body": 16},
    "items": [
        {"kind": "enum", "file": "bindgen/ir/annotations.rs", "name": "FieldVisibilityKind", "prefix": "#[derive(Copy, Clone, PartialEq, Eq, Structural)]"},
        {"kind": "options_bools", "extra": ["pub default_visibility: FieldVisibilityKind"]},
        # the body of `for base in self.base_members()` in <CompInfo as CodeGenerator>::codegen (block R18; `continue` = return): a
        # base that gets no storage (empty or virtual base) neither gets a field NOR moves the tracker's running offset - every
        # later padding, also in front of a bit-field unit (C03), is computed from that offset; a base with storage gets both
        {"kind": "fn", "file": "bindgen/codegen/mod.rs", "name": "base_member", "impl": r"^impl CodeGenerator for CompInfo$",
         "closure": {"enclosing": "codegen", "anchor": "for base in self.base_members() {", "nth": 0,
                     "signature": "fn base_member(base: &Base, ctx: &BindgenContext, struct_layout: &mut StructLayoutTracker, fields: &mut Vec<Tok>)"},
         "subst": [
             (r"re:\bcontinue\b", "return", 0, "R18 `continue` of the enclosing loop ends the body"),
             (r"re:quote!\s*\{\s*#access_spec\s+#field_name\s*:\s*#inner\s*,\s*\}", "q_base_field(&access_spec, &field_name, &inner)", 1, "R4"),
         ],
         "ensures": [
             "!base.s_requires_storage(ctx) ==> final(struct_layout).s_bases() == old(struct_layout).s_bases() && final(fields)@ == old(fields)@",
             "base.s_requires_storage(ctx) ==> final(struct_layout).s_bases() == old(struct_layout).s_bases().push(ctx.s_item(base.ty.0).s_type()) && final(fields)@.len() == old(fields)@.len() + 1",
         ]},
    ],
}
