"""Unit `mangling` (C04): the symbol a C++ function is bound to is the function itself -- not a thunk, not the deleting destructor."""
import os
ENV = os.path.join(os.path.dirname(os.path.dirname(os.path.abspath(__file__))), "env")
FN = "bindgen/ir/function.rs"

SPEC = """
// Itanium C++ ABI 5.1.4.1: _ZTh / _ZTv = this-adjusting thunks, _ZTc = covariant-return thunk (Mach-O prepends one more '_')
pub open spec fn thunk_sym(m: Seq<char>) -> bool {
    let n = s_trim_start(m, '_');
    s_starts_with(n, "ZTh"@) || s_starts_with(n, "ZTv"@) || s_starts_with(n, "ZTc"@)
}
// may the binding name this symbol of the list?
pub open spec fn sym_ok(itanium: bool, destructor: bool, m: Seq<char>) -> bool {
    &&& itanium && destructor ==> s_ends_with(m, "D1Ev"@)      // the complete-object destructor, never the deleting one (D0)
    &&& itanium ==> !thunk_sym(m)                               // the function, never a thunk that expects a base-subobject pointer
}
// the last admissible symbol among the first n
pub open spec fn pick(itanium: bool, destructor: bool, ms: Seq<Sym>, n: int) -> Option<Sym>
    decreases n
{
    if n <= 0 { None } else if sym_ok(itanium, destructor, ms[n - 1].view()) { Some(ms[n - 1]) } else { pick(itanium, destructor, ms, n - 1) }
}
pub proof fn lemma_lits()
    ensures "D1Ev"@.len() == 4, "D0Ev"@.len() == 4,
{ reveal_strlit("D1Ev"); reveal_strlit("D0Ev"); }
"""

UNIT = {
    "name": "mangling",
    "env": [os.path.join(ENV, "mangling_env.rs")],
    "declared_trusted": {r"external_body": 18},
    "items": [
        {"kind": "options_bools", "extra": []},
        {"kind": "enum", "file": "bindgen/clang.rs", "name": "ABIKind", "prefix": "#[derive(Copy, Clone, PartialEq, Eq, Structural)]"},
        # which C++ ABI the target uses (clang::TargetInfo::new, let-statement R18): Microsoft only for *-msvc environments;
        # MinGW (*-windows-gnu) mangles and lays out destructors the Itanium way
        {"kind": "fn", "file": "bindgen/clang.rs", "name": "target_abi_kind", "impl": r"^impl TargetInfo$", "ret": "r",
         "closure": {"enclosing": "new", "anchor": "let abi =", "nth": 0, "stmt": "let",
                     "signature": "fn target_abi_kind(triple: &Sym, pointer_width: i32) -> (r: ABIKind)", "prefix": "{", "suffix": "; abi }"},
         "ensures": ["(r == ABIKind::Microsoft) == s_contains(triple.view(), \"msvc\"@)"]},
        {"kind": "raw", "label": "spec", "text": SPEC},
        {"kind": "fn", "file": FN, "name": "is_itanium_thunk", "ret": "r",
         "subst": [("mangling: &str", "mangling: &Sym", 1, "R21 opaque string")],
         "ensures": ["r == thunk_sym(mangling.view())"]},
        {"kind": "fn", "file": FN, "name": "cursor_mangling", "ret": "r",
         "attrs": "#[verifier::exec_allows_no_decreases_clause]",
         "subst": [
             ("Option<String>", "Option<Sym>", 1, "R21 opaque string"),
             ("while let Some(m) = manglings.pop() {", "loop "
              "invariant manglings@.len() <= ms0.len(), manglings@ == ms0.subrange(0, manglings@.len() as int), "
              "pick(is_itanium_abi, is_destructor, ms0, manglings@.len() as int) == pick(is_itanium_abi, is_destructor, ms0, ms0.len() as int), "
              "is_itanium_abi == (ctx.s_abi() == ABIKind::GenericItanium), is_destructor == (cursor.s_kind() == clang_sys::CXCursor_Destructor), "
              "ctx.spec_options().enable_mangling && !cursor.s_in_partial() && cursor.s_cxx_manglings() == Some(ms0) "
              "ensures pick(is_itanium_abi, is_destructor, ms0, ms0.len() as int).is_none() "
              "{ let m = match manglings.pop() { Some(m) => m, None => { break; } }; proof { lemma_lits(); }", 1, "R19 while-let"),
             ("if let Ok(mut manglings) = cursor.cxx_manglings() {", "if let Ok(mut manglings) = cursor.cxx_manglings() { let ghost ms0 = manglings@;", 1, "ghost: the list as libclang returned it"),
         ],
         "proof_start": "lemma_lits();",
         "proof_before": [("Some(mangling) }", "if is_itanium_abi && is_destructor && s_ends_with(cursor.s_mangling(), \"D0Ev\"@) { assert(mangling.view().subrange(mangling.view().len() - 4, mangling.view().len() as int) =~= \"D1Ev\"@); }")],
         "ensures": [
             "!ctx.spec_options().enable_mangling || cursor.s_in_partial() ==> r.is_none()",
             # C04 "the symbol the C++ compiler emits for THAT function": from libclang's list, the last symbol that is the function itself
             "ctx.spec_options().enable_mangling && !cursor.s_in_partial() && cursor.s_cxx_manglings().is_some() ==> ({ "
             "let it = ctx.s_abi() == ABIKind::GenericItanium; let d = cursor.s_kind() == clang_sys::CXCursor_Destructor; let ms = cursor.s_cxx_manglings().unwrap(); "
             "pick(it, d, ms, ms.len() as int).is_some() ==> r == pick(it, d, ms, ms.len() as int) })",
             # the single-symbol fallback never names the deleting destructor
             "r.is_some() && ctx.s_abi() == ABIKind::GenericItanium && cursor.s_kind() == clang_sys::CXCursor_Destructor ==> !s_ends_with(r.unwrap().view(), \"D0Ev\"@) || s_ends_with(r.unwrap().view(), \"D1Ev\"@)",
         ]},
    ],
}
