"""Unit `bitfield_limit` (C08): does ANY bit-field allocation unit exceed the 32-element derive limit."""
import os
ENV = os.path.join(os.path.dirname(os.path.dirname(os.path.abspath(__file__))), "env")
CP = "bindgen/ir/comp.rs"

SPEC = """
pub open spec fn too_large(f: Field) -> bool { match f { Field::DataMember(..) => false, Field::Bitfields(u) => u.layout.size > RUST_DERIVE_IN_ARRAY_LIMIT } }
"""

UNIT = {
    "name": "bitfield_limit",
    "env": [os.path.join(ENV, "bitfield_limit_env.rs")],
    "declared_trusted": {r"external_body": 8},
    "items": [
        {"kind": "const", "file": "bindgen/ir/ty.rs", "name": "RUST_DERIVE_IN_ARRAY_LIMIT"},
        {"kind": "enum", "file": CP, "name": "Field"},
        {"kind": "raw", "label": "spec", "text": SPEC},
        {"kind": "fn", "file": CP, "name": "has_too_large_bitfield_unit", "impl": r"^impl CompInfo$", "impl_header": "impl CompInfo", "impl_name": "CompInfo", "ret": "r",
         "subst": [
             ("self.fields().iter().any(|field| match *field {",
              "{ let mut it = SliceCursor::new(self.fields()); let mut found = false; while it.has_next() && !found "
              "invariant it.all() == self.s_fields() && 0 <= it.pos() <= it.all().len(), found == (exists|j: int| 0 <= j < it.pos() && too_large(#[trigger] self.s_fields()[j])) "
              "decreases it.all().len() - it.pos() { let field = it.next_item(); found = (match *field {", 1, "R25 Iterator::any"),
             ("} })", "} }); } found }", 1, "R25 (closing)"),
         ],
         "ensures": [
             # C08: "arrays beyond the 32-element limit": a bit-field unit is emitted as [u8; N]; EVERY unit counts
             "r == (self.s_has_bitfields() && exists|j: int| 0 <= j < self.s_fields().len() && too_large(#[trigger] self.s_fields()[j]))",
         ]},
    ],
}
