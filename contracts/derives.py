"""Unit `derives` (C08): codegen::derives_of_item -- which derives an item gets."""
import os
ENV = os.path.join(os.path.dirname(os.path.dirname(os.path.abspath(__file__))), "env")

CG = "bindgen/codegen/mod.rs"
CI = r"^impl CodeGenerator for CompInfo$"

UNIT = {
    "name": "derives",
    "env": [os.path.join(ENV, "derives_env.rs")],
    "declared_trusted": {r"external_body": 27},
    "items": [
        {"kind": "fn", "file": "bindgen/codegen/mod.rs", "name": "derives_of_item", "ret": "r",
         "ensures": [
             # property C08: "never when ... non-Copy packed types, ... user-excluded types ..., and never withheld"
             "r.copy == (item.s_copy(ctx) && !item.s_annotations().s_no_copy()) && r.clone == r.copy",
             "packed && !r.copy ==> r == dt_none()",
             "!(packed && !r.copy) ==> r.debug == (item.s_debug(ctx) && !item.s_annotations().s_no_debug())",
             "!(packed && !r.copy) ==> r.default_ == (item.s_default(ctx) && !item.s_annotations().s_no_default())",
             "!(packed && !r.copy) ==> (r.hash == item.s_hash(ctx) && r.partial_ord == item.s_partialord(ctx) && r.ord == item.s_ord(ctx) && r.partial_eq == item.s_partialeq(ctx) && r.eq == item.s_eq(ctx))",
         ]},
        # a forward-declared struct can only derive Debug - and only when Debug is not switched off by option, pattern or annotation
        # (found and repaired F34: the option and the pattern were ignored on this path)
        {"kind": "fn", "file": CG, "name": "comp_derivable_traits", "impl": CI, "ret": "r",
         "closure": {"enclosing": "codegen", "anchor": "let derivable_traits = if self.is_forward_declaration() {", "nth": 0, "stmt": "let",
                     "signature": "fn comp_derivable_traits(self_: &CompInfo, packed: bool, is_opaque: bool, is_union: bool, zero_sized: bool, forward_decl: bool, explicit_align: Option<usize>, ctx: &BindgenContext, item: &Item) -> (r: DerivableTraits)",
                     "prefix": "{", "suffix": "; derivable_traits }"},
         "subst": [("self", "self_", 1, "R18 captured self")],
         "ensures": [
             "self_.s_forward_decl() ==> r.debug == (ctx.spec_options().derive_debug && !ctx.s_no_debug_by_name(item) && !item.s_annotations().s_no_debug())",
             "self_.s_forward_decl() ==> !r.copy && !r.clone && !r.default_ && !r.hash && !r.partial_ord && !r.ord && !r.partial_eq && !r.eq",
         ]},
        {"kind": "enum", "file": "bindgen/ir/derive.rs", "name": "CanDerive", "prefix": "#[derive(Copy, Clone, PartialEq, Eq, Structural)]"},
        # hand-written impls (property C08: "Where bindgen writes an impl by hand instead ...", and a trait never
        # appears with "disabled derive options" / on "user-excluded types"): the four decisions, extracted as statements
        {"kind": "fn", "file": CG, "name": "needs_debug_impl", "impl": CI, "ret": "r_unit",
         "closure": {"enclosing": "codegen", "anchor": "if !derivable_traits.contains(DerivableTraits::DEBUG) {", "nth": 0, "stmt": True,
                     "signature": "fn needs_debug_impl(self_: &CompInfo, packed: bool, is_opaque: bool, is_union: bool, zero_sized: bool, forward_decl: bool, explicit_align: Option<usize>, ctx: &BindgenContext, item: &Item, derivable_traits: DerivableTraits, needs_debug_impl: &mut bool)",
                     "prefix": "{", "suffix": "}"},
         "subst": [("needs_debug_impl =", "*needs_debug_impl =", 1, "R18 captured by mutable reference"), ("self", "self_", 0, "R18 captured self (if used)")],
         "ensures": [
             "*final(needs_debug_impl) == (if derivable_traits.debug { *old(needs_debug_impl) } else { ctx.spec_options().derive_debug && ctx.spec_options().impl_debug && !ctx.s_no_debug_by_name(item) && !item.s_annotations().s_no_debug() })",
         ]},
        {"kind": "fn", "file": CG, "name": "needs_default_impl", "impl": CI, "ret": "r_unit",
         "closure": {"enclosing": "codegen", "anchor": "if !derivable_traits.contains(DerivableTraits::DEFAULT) {", "nth": 0, "stmt": True,
                     "signature": "fn needs_default_impl(self_: &CompInfo, packed: bool, is_opaque: bool, is_union: bool, zero_sized: bool, forward_decl: bool, explicit_align: Option<usize>, ctx: &BindgenContext, item: &Item, derivable_traits: DerivableTraits, needs_default_impl: &mut bool)",
                     "prefix": "{", "suffix": "}"},
         "subst": [("needs_default_impl =", "*needs_default_impl =", 1, "R18 captured by mutable reference"), ("self", "self_", 1, "R18 captured self")],
         "ensures": [
             "*final(needs_default_impl) == (if derivable_traits.default_ { *old(needs_default_impl) } else { ctx.spec_options().derive_default && !self_.s_forward_decl() && !ctx.s_no_default_by_name(item) && !item.s_annotations().s_no_default() })",
         ]},
        {"kind": "fn", "file": CG, "name": "needs_clone_impl", "impl": CI, "ret": "r_unit",
         "closure": {"enclosing": "codegen", "anchor": "if derivable_traits.contains(DerivableTraits::COPY)", "nth": 0, "stmt": True,
                     "signature": "fn needs_clone_impl(self_: &CompInfo, packed: bool, is_opaque: bool, is_union: bool, zero_sized: bool, forward_decl: bool, explicit_align: Option<usize>, ctx: &BindgenContext, item: &Item, derivable_traits: DerivableTraits, needs_clone_impl: &mut bool)",
                     "prefix": "{", "suffix": "}"},
         "subst": [("needs_clone_impl =", "*needs_clone_impl =", 1, "R18 captured by mutable reference"), ("self", "self_", 0, "R18 captured self (if used)")],
         "ensures": [
             "*final(needs_clone_impl) == (if derivable_traits.copy && !derivable_traits.clone { true } else { *old(needs_clone_impl) })",
         ]},
        {"kind": "fn", "file": CG, "name": "needs_partialeq_impl", "impl": CI, "ret": "r_unit",
         "closure": {"enclosing": "codegen", "anchor": "if !derivable_traits.contains(DerivableTraits::PARTIAL_EQ) {", "nth": 0, "stmt": True,
                     "signature": "fn needs_partialeq_impl(self_: &CompInfo, packed: bool, is_opaque: bool, is_union: bool, zero_sized: bool, forward_decl: bool, explicit_align: Option<usize>, ctx: &BindgenContext, item: &Item, derivable_traits: DerivableTraits, needs_partialeq_impl: &mut bool)",
                     "prefix": "{", "suffix": "}"},
         "subst": [("needs_partialeq_impl =", "*needs_partialeq_impl =", 1, "R18 captured by mutable reference"), ("self", "self_", 0, "R18 captured self (if used)")],
         "ensures": [
             "*final(needs_partialeq_impl) == (if derivable_traits.partial_eq { *old(needs_partialeq_impl) } else { ctx.spec_options().derive_partialeq && ctx.spec_options().impl_partialeq && ctx.s_peq_or_pord(item.s_id()) == CanDerive::Manually })",
         ]},
    ],
}
