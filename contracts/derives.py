"""Unit `derives` (C08): codegen::derives_of_item -- which derives an item gets."""
import os
ENV = os.path.join(os.path.dirname(os.path.dirname(os.path.abspath(__file__))), "env")

UNIT = {
    "name": "derives",
    "env": [os.path.join(ENV, "derives_env.rs")],
    "declared_trusted": {r"external_body": 15},
    "items": [
        {"kind": "fn", "file": "bindgen/codegen/mod.rs", "name": "derives_of_item", "ret": "r",
         "ensures": [
             # property C08: "never when ... non-Copy packed types, ... user-excluded types ..., and never withheld"
             "r.copy == (item.s_copy(ctx) && !item.s_annotations().s_no_copy()) && r.clone == r.copy",
             "packed && !r.copy ==> r == dt_none()",
             "!(packed && !r.copy) ==> r.debug == (item.s_debug(ctx) && !item.s_annotations().s_no_debug())",
             "!(packed && !r.copy) ==> r.default_ == (item.s_default(ctx) && !item.s_annotations().s_no_default())",
             "!(packed && !r.copy) ==> (r.hash == item.s_hash(ctx) && r.partial_ord == item.s_partialord(ctx) && r.ord == item.s_ord(ctx) && r.partial_eq == item.s_partialeq(ctx) && r.eq == item.s_eq(ctx))",
         ]},
    ],
}
