"""Unit `repr` (C02, C10): when does a generated struct carry #[repr(C, packed(N))]."""
import os
ENV = os.path.join(os.path.dirname(os.path.dirname(os.path.abspath(__file__))), "env")

UNIT = {
    "name": "repr",
    "env": [os.path.join(ENV, "repr_env.rs")],
    "declared_trusted": {r"external_body": 9},
    "items": [
        {"kind": "fn", "file": "bindgen/codegen/mod.rs", "name": "packed_repr_decision", "impl": r"^impl CodeGenerator for CompInfo$", "ret": "r_unit",
         "closure": {"enclosing": "codegen", "anchor": "if packed &&", "nth": 0, "stmt": True,
                     "signature": "fn packed_repr_decision(self_: &CompInfo, ctx: &BindgenContext, packed: bool, is_opaque: bool, explicit_align: Option<usize>, layout: Option<Layout>, attributes: &mut Vec<Tok>)",
                     "prefix": "{", "suffix": "}"},
         "subst": [
             ("self.already_packed(ctx)", "self_.already_packed(ctx)", 1, "R18 captured self"),
             ("layout.map_or(1, |l| l.align)", "layout_align_or_1(layout)", 1, "R7"),
             ('"packed".to_string()', "str_packed()", 1, "R4"),
             ('format!("packed({n})")', "str_packed_n(n)", 1, "R4"),
             ('attributes::repr_list(&["C", &packed_repr])', "attributes::repr_list_c(&packed_repr)", 1, "R4"),
             ('attributes::repr("C")', "attributes::repr_c()", 1, "R4"),
         ],
         "ensures": [
             "final(attributes)@.len() == old(attributes)@.len() + 1 && final(attributes)@.subrange(0, old(attributes)@.len() as int) == old(attributes)@",
             # packed is emitted exactly for packed, non-opaque records whose `packed` is not redundant next to an explicit align(N)
             # (an opaque blob always carries repr(align): rustc rejects packed + align, E0587)
             "attr_packed(final(attributes)@.last()).is_some() == (packed && !is_opaque && !(explicit_align.is_some() && self_.s_already_packed(ctx) == Some(true)))",
             "attr_packed(final(attributes)@.last()).is_some() ==> attr_packed(final(attributes)@.last()).unwrap() == (match layout { Some(l) => l.align as int, None => 1 })",
         ]},
    ],
}
