"""Unit `template_params` (C07): the instantiation rule of the used-template-parameter analysis."""
import os
ENV = os.path.join(os.path.dirname(os.path.dirname(os.path.abspath(__file__))), "env")
TP = "bindgen/ir/analysis/template_params.rs"

SPEC = """
pub open spec fn zip_len(a: &UsedTemplateParameters, inst: &TemplateInstantiation) -> int {
    let n1 = inst.s_args().len() as int; let n2 = a.ctx.s_type(inst.s_definition()).s_self_params(a.ctx).len() as int;
    if n1 <= n2 { n1 } else { n2 }
}
// argument i contributes what it uses, if the definition uses parameter i (and the argument is not the instantiation itself)
pub open spec fn contributes(a: &UsedTemplateParameters, this_id: ItemId, inst: &TemplateInstantiation, i: int, x: ItemId) -> bool {
    let params = a.ctx.s_type(inst.s_definition()).s_self_params(a.ctx);
    let arg = a.ctx.s_resolve(inst.s_args()[i]);
    &&& s_used(&a.used, inst.s_definition().0).unwrap().contains(params[i].0)
    &&& arg != this_id
    &&& s_used(&a.used, arg).unwrap().contains(x)
}
// what iteration k adds
pub open spec fn step_set(a: &UsedTemplateParameters, this_id: ItemId, inst: &TemplateInstantiation, k: int) -> Set<ItemId> {
    let params = a.ctx.s_type(inst.s_definition()).s_self_params(a.ctx);
    let arg = a.ctx.s_resolve(inst.s_args()[k]);
    if s_used(&a.used, inst.s_definition().0).unwrap().contains(params[k].0) && arg != this_id { s_used(&a.used, arg).unwrap() } else { Set::<ItemId>::empty() }
}
// everything the first k argument/parameter pairs contribute
pub open spec fn contrib_set(a: &UsedTemplateParameters, this_id: ItemId, inst: &TemplateInstantiation, k: int) -> Set<ItemId>
    decreases k
{
    if k <= 0 { Set::<ItemId>::empty() } else { contrib_set(a, this_id, inst, k - 1).union(step_set(a, this_id, inst, k - 1)) }
}
// the function's own expectations about the table
pub open spec fn table_ok(a: &UsedTemplateParameters, this_id: ItemId, inst: &TemplateInstantiation) -> bool {
    &&& s_used(&a.used, inst.s_definition().0).is_some()
    &&& forall|i: int| 0 <= i < zip_len(a, inst) && a.ctx.s_resolve(inst.s_args()[i]) != this_id ==> s_used(&a.used, #[trigger] a.ctx.s_resolve(inst.s_args()[i])).is_some()
}
"""

GET_DEF = ('self.used .get(&instantiation.template_definition().into()) .expect("Should have a used entry for instantiation\'s template definition") .as_ref() '
           '.expect("And it should be Some because only this_id\'s set is None, and an \\\n                     instantiation\'s template definition should never be the \\\n                     instantiation itself")')

UNIT = {
    "name": "template_params",
    "env": [os.path.join(ENV, "template_params_env.rs")],
    "declared_trusted": {r"external_body": 20},
    "items": [
        {"kind": "struct", "file": TP, "name": "UsedTemplateParameters"},
        {"kind": "raw", "label": "spec", "text": SPEC},
        {"kind": "fn", "file": TP, "name": "constrain_instantiation", "impl": r"^impl UsedTemplateParameters<'_>$", "impl_header": "impl<'ctx> UsedTemplateParameters<'ctx>", "impl_name": "UsedTemplateParameters", "ret": "r_unit",
         "r2_skip": True,
         "subst": [
             ("debug_assert!(this_id != instantiation.template_definition());", "", 1, "dropped: compares an ItemId with a TypeId through PartialEq impls; IR invariant"),
             (("let used_by_def = self.used", "instantiation itself\");"), "let used_by_def = used_set_of(&self.used, instantiation.template_definition().item());", 1, "R5 table lookup"),
             ("for (arg, param) in args.iter().zip(params.iter())", "let mut it = ZipCursor::new(args, params.as_slice()); while it.has_next()", 1, "R13 zip"),
             ("used_by_def.contains(&param.into())", "used_by_def.contains(&param.item())", 1, "R12"),
             (("let arg = arg .into_resolver()", ".id();"), "let arg = self.ctx.resolve_through(*arg);", 1, "R5 resolver chain"),
             (("let used_by_arg = self .used .get(&arg)", "used_by_this_id.extend(used_by_arg);"), "extend_from(used_by_this_id, used_set_of(&self.used, arg));", 1, "R5 table lookup + extend"),
         ],
         "requires": ["table_ok(self, this_id, instantiation)"],
         "ghost_start": "let ghost u0 = used_by_this_id.view(); let ghost n = zip_len(self, instantiation);",
         "loops": {0: {"body_start": "let (arg, param) = it.next_pair();", "decreases": "it.n() - it.pos()",
                       "invariant": [
                           "it.xs() == instantiation.s_args() && it.ys() == self.ctx.s_type(instantiation.s_definition()).s_self_params(self.ctx) && it.n() == n && 0 <= it.pos() <= n",
                           "table_ok(self, this_id, instantiation)",
                           "used_by_def.view() == s_used(&self.used, instantiation.s_definition().0).unwrap()",
                           "used_by_this_id.view() =~= u0.union(contrib_set(self, this_id, instantiation, it.pos()))",
                       ],
                       "proof": "assert(contrib_set(self, this_id, instantiation, it.pos()) == contrib_set(self, this_id, instantiation, it.pos() - 1).union(step_set(self, this_id, instantiation, it.pos() - 1)));"}},
         "ensures": [
             # the rule of the analysis (template_params.rs module docs): monotone in the table, independent of how much is already known
             "final(used_by_this_id).view() =~= old(used_by_this_id).view().union(contrib_set(self, this_id, instantiation, zip_len(self, instantiation)))",
         ]},
    ],
}
