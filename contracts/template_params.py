"""Unit `template_params` (C07): the instantiation rule of the used-template-parameter analysis."""
import os
ENV = os.path.join(os.path.dirname(os.path.dirname(os.path.abspath(__file__))), "env")
TP = "bindgen/ir/analysis/template_params.rs"

SPEC = """
pub open spec fn zip_len(a: &UsedTemplateParameters, inst: &TemplateInstantiation) -> int {
    let n1 = inst.s_args().len() as int; let n2 = a.ctx.s_type(inst.s_definition()).s_self_params(a.ctx).len() as int;
    if n1 <= n2 { n1 } else { n2 }
}
// argument i contributes what it uses, if the definition uses parameter i (and the argument is not the instantiation itself)
pub open spec fn contributes(a: &UsedTemplateParameters, this_id: ItemId, inst: &TemplateInstantiation, i: int, x: ItemId) -> bool {
    let params = a.ctx.s_type(inst.s_definition()).s_self_params(a.ctx);
    let arg = a.ctx.s_resolve(inst.s_args()[i]);
    &&& s_used(&a.used, inst.s_definition().0).unwrap().contains(params[i].0)
    &&& arg != this_id
    &&& s_used(&a.used, arg).unwrap().contains(x)
}
// what iteration k adds
pub open spec fn step_set(a: &UsedTemplateParameters, this_id: ItemId, inst: &TemplateInstantiation, k: int) -> Set<ItemId> {
    let params = a.ctx.s_type(inst.s_definition()).s_self_params(a.ctx);
    let arg = a.ctx.s_resolve(inst.s_args()[k]);
    if s_used(&a.used, inst.s_definition().0).unwrap().contains(params[k].0) && arg != this_id { s_used(&a.used, arg).unwrap() } else { Set::<ItemId>::empty() }
}
// everything the first k argument/parameter pairs contribute
pub open spec fn contrib_set(a: &UsedTemplateParameters, this_id: ItemId, inst: &TemplateInstantiation, k: int) -> Set<ItemId>
    decreases k
{
    if k <= 0 { Set::<ItemId>::empty() } else { contrib_set(a, this_id, inst, k - 1).union(step_set(a, this_id, inst, k - 1)) }
}
// the function's own expectations about the table
pub open spec fn table_ok(a: &UsedTemplateParameters, this_id: ItemId, inst: &TemplateInstantiation) -> bool {
    &&& s_used(&a.used, inst.s_definition().0).is_some()
    &&& forall|i: int| 0 <= i < zip_len(a, inst) && a.ctx.s_resolve(inst.s_args()[i]) != this_id ==> s_used(&a.used, #[trigger] a.ctx.s_resolve(inst.s_args()[i])).is_some()
}
"""


SPEC2 = """
// ---- the blocklisted-template rule: every argument's usage, except the instantiation's own ----
pub open spec fn bl_step(a: &UsedTemplateParameters, this_id: ItemId, inst: &TemplateInstantiation, k: int) -> Set<ItemId> {
    let arg = a.ctx.s_resolve(inst.s_args()[k]);
    if arg != this_id { s_used(&a.used, arg).unwrap() } else { Set::<ItemId>::empty() }
}
pub open spec fn bl_set(a: &UsedTemplateParameters, this_id: ItemId, inst: &TemplateInstantiation, k: int) -> Set<ItemId>
    decreases k
{
    if k <= 0 { Set::<ItemId>::empty() } else { bl_set(a, this_id, inst, k - 1).union(bl_step(a, this_id, inst, k - 1)) }
}
pub open spec fn bl_ok(a: &UsedTemplateParameters, this_id: ItemId, inst: &TemplateInstantiation) -> bool {
    forall|i: int| 0 <= i < inst.s_args().len() && a.ctx.s_resolve(inst.s_args()[i]) != this_id ==> s_used(&a.used, #[trigger] a.ctx.s_resolve(inst.s_args()[i])).is_some()
}
// ---- the join rule: the usage of every successor over an edge the analysis considers, except the item itself ----
pub open spec fn join_step(a: &UsedTemplateParameters, item: &Item, k: int) -> Set<ItemId> {
    let e = item.s_edges(a.ctx)[k];
    if e.0 != item.s_id() && UsedTemplateParameters::s_consider_edge(e.1) { s_used(&a.used, e.0).unwrap() } else { Set::<ItemId>::empty() }
}
pub open spec fn join_set(a: &UsedTemplateParameters, item: &Item, k: int) -> Set<ItemId>
    decreases k
{
    if k <= 0 { Set::<ItemId>::empty() } else { join_set(a, item, k - 1).union(join_step(a, item, k - 1)) }
}
pub open spec fn join_ok(a: &UsedTemplateParameters, item: &Item) -> bool {
    forall|i: int| 0 <= i < item.s_edges(a.ctx).len() && (#[trigger] item.s_edges(a.ctx)[i]).0 != item.s_id() && UsedTemplateParameters::s_consider_edge(item.s_edges(a.ctx)[i].1)
        ==> s_used(&a.used, item.s_edges(a.ctx)[i].0).is_some()
}
// ---- constrain: which rule applies to `id`, and what it adds ----
pub open spec fn rule_ok(a: &UsedTemplateParameters, id: ItemId) -> bool {
    let item = a.ctx.s_item(id);
    match item.s_type_kind() {
        Some(TypeKind::TypeParam) => true,
        Some(TypeKind::TemplateInstantiation(inst)) => if a.allowlisted_items.s_contains(inst.s_definition().0) { table_ok(a, id, &inst) } else { bl_ok(a, id, &inst) },
        _ => join_ok(a, &item),
    }
}
pub open spec fn rule_set(a: &UsedTemplateParameters, id: ItemId) -> Set<ItemId> {
    let item = a.ctx.s_item(id);
    match item.s_type_kind() {
        Some(TypeKind::TypeParam) => Set::<ItemId>::empty().insert(id),
        Some(TypeKind::TemplateInstantiation(inst)) => if a.allowlisted_items.s_contains(inst.s_definition().0) { contrib_set(a, id, &inst, zip_len(a, &inst)) } else { bl_set(a, id, &inst, inst.s_args().len() as int) },
        _ => join_set(a, &item, item.s_edges(a.ctx).len() as int),
    }
}
// the edges over which usage flows upwards (template_params.rs, consider_edge: each exclusion is argued in its comments)
impl UsedTemplateParameters<'_> {
    pub open spec fn s_consider_edge(kind: EdgeKind) -> bool {
        kind == EdgeKind::TemplateArgument || kind == EdgeKind::BaseMember || kind == EdgeKind::Field || kind == EdgeKind::Constructor || kind == EdgeKind::Destructor
        || kind == EdgeKind::VarType || kind == EdgeKind::FunctionReturn || kind == EdgeKind::FunctionParameter || kind == EdgeKind::TypeReference
    }
}
pub open spec fn same_but(a: &UsedTemplateParameters, b: &UsedTemplateParameters, id: ItemId) -> bool {
    &&& a.ctx == b.ctx && a.allowlisted_items == b.allowlisted_items
    &&& forall|j: ItemId| j != id ==> s_used(&a.used, j) == s_used(&b.used, j)
}
pub proof fn lemma_contrib_frame(a: &UsedTemplateParameters, b: &UsedTemplateParameters, id: ItemId, inst: &TemplateInstantiation, k: int)
    requires same_but(a, b, id), inst.s_definition().0 != id,
    ensures contrib_set(a, id, inst, k) == contrib_set(b, id, inst, k)
    decreases k
{ if k > 0 { lemma_contrib_frame(a, b, id, inst, k - 1); } }
pub proof fn lemma_bl_frame(a: &UsedTemplateParameters, b: &UsedTemplateParameters, id: ItemId, inst: &TemplateInstantiation, k: int)
    requires same_but(a, b, id),
    ensures bl_set(a, id, inst, k) == bl_set(b, id, inst, k)
    decreases k
{ if k > 0 { lemma_bl_frame(a, b, id, inst, k - 1); } }
pub proof fn lemma_join_frame(a: &UsedTemplateParameters, b: &UsedTemplateParameters, item: &Item, k: int)
    requires same_but(a, b, item.s_id()),
    ensures join_set(a, item, k) == join_set(b, item, k)
    decreases k
{ if k > 0 { lemma_join_frame(a, b, item, k - 1); } }
// the IR invariant `debug_assert!(this_id != instantiation.template_definition())` of constrain_instantiation
pub open spec fn def_is_not_self(a: &UsedTemplateParameters, id: ItemId) -> bool {
    match a.ctx.s_item(id).s_type_kind() { Some(TypeKind::TemplateInstantiation(inst)) => inst.s_definition().0 != id, _ => true }
}
pub proof fn lemma_rule_frame(a: &UsedTemplateParameters, b: &UsedTemplateParameters, id: ItemId)
    requires same_but(a, b, id), def_is_not_self(a, id), a.ctx.s_item(id).s_id() == id,
    ensures rule_set(a, id) == rule_set(b, id), rule_ok(a, id) ==> rule_ok(b, id)
{
    let item = a.ctx.s_item(id);
    match item.s_type_kind() {
        Some(TypeKind::TypeParam) => {}
        Some(TypeKind::TemplateInstantiation(inst)) => {
            lemma_contrib_frame(a, b, id, &inst, zip_len(a, &inst));
            lemma_bl_frame(a, b, id, &inst, inst.s_args().len() as int);
        }
        _ => { lemma_join_frame(a, b, &item, item.s_edges(a.ctx).len() as int); }
    }
}
"""

GET_DEF = ('self.used .get(&instantiation.template_definition().into()) .expect("Should have a used entry for instantiation\'s template definition") .as_ref() '
           '.expect("And it should be Some because only this_id\'s set is None, and an \\\n                     instantiation\'s template definition should never be the \\\n                     instantiation itself")')

UNIT = {
    "name": "template_params",
    "env": [os.path.join(ENV, "template_params_env.rs")],
    "declared_trusted": {r"external_body": 30},
    "items": [
        {"kind": "struct", "file": TP, "name": "UsedTemplateParameters"},
        {"kind": "raw", "label": "spec", "text": SPEC},
        {"kind": "fn", "file": TP, "name": "constrain_instantiation", "impl": r"^impl UsedTemplateParameters<'_>$", "impl_header": "impl<'ctx> UsedTemplateParameters<'ctx>", "impl_name": "UsedTemplateParameters", "ret": "r_unit",
         "r2_skip": True,
         "subst": [
             ("debug_assert!(this_id != instantiation.template_definition());", "", 1, "dropped: compares an ItemId with a TypeId through PartialEq impls; IR invariant"),
             (("let used_by_def = self.used", "instantiation itself\");"), "let used_by_def = used_set_of(&self.used, instantiation.template_definition().item());", 1, "R5 table lookup"),
             ("for (arg, param) in args.iter().zip(params.iter())", "let mut it = ZipCursor::new(args, params.as_slice()); while it.has_next()", 1, "R13 zip"),
             ("used_by_def.contains(&param.into())", "used_by_def.contains(&param.item())", 1, "R12"),
             (("let arg = arg .into_resolver()", ".id();"), "let arg = self.ctx.resolve_through(*arg);", 1, "R5 resolver chain"),
             (("let used_by_arg = self .used .get(&arg)", "used_by_this_id.extend(used_by_arg);"), "extend_from(used_by_this_id, used_set_of(&self.used, arg));", 1, "R5 table lookup + extend"),
         ],
         "requires": ["table_ok(self, this_id, instantiation)"],
         "ghost_start": "let ghost u0 = used_by_this_id.view(); let ghost n = zip_len(self, instantiation);",
         "loops": {0: {"body_start": "let (arg, param) = it.next_pair();", "decreases": "it.n() - it.pos()",
                       "invariant": [
                           "it.xs() == instantiation.s_args() && it.ys() == self.ctx.s_type(instantiation.s_definition()).s_self_params(self.ctx) && it.n() == n && 0 <= it.pos() <= n",
                           "table_ok(self, this_id, instantiation)",
                           "used_by_def.view() == s_used(&self.used, instantiation.s_definition().0).unwrap()",
                           "used_by_this_id.view() =~= u0.union(contrib_set(self, this_id, instantiation, it.pos()))",
                       ],
                       "proof": "assert(contrib_set(self, this_id, instantiation, it.pos()) == contrib_set(self, this_id, instantiation, it.pos() - 1).union(step_set(self, this_id, instantiation, it.pos() - 1)));"}},
         "ensures": [
             # the rule of the analysis (template_params.rs module docs): monotone in the table, independent of how much is already known
             "final(used_by_this_id).view() =~= old(used_by_this_id).view().union(contrib_set(self, this_id, instantiation, zip_len(self, instantiation)))",
         ]},

        {"kind": "enum", "file": "bindgen/ir/traversal.rs", "name": "EdgeKind", "prefix": "#[derive(Copy, Clone, PartialEq, Eq, Structural)]"},
        {"kind": "enum", "file": "bindgen/ir/analysis/mod.rs", "name": "ConstrainResult", "prefix": "#[derive(Copy, Clone, PartialEq, Eq, Structural)]"},
        {"kind": "raw", "label": "spec2", "text": SPEC2},
        {"kind": "fn", "file": TP, "name": "consider_edge", "impl": r"^impl UsedTemplateParameters<'_>$", "impl_header": "impl<'ctx> UsedTemplateParameters<'ctx>", "impl_name": "UsedTemplateParameters", "ret": "r",
         "ensures": ["r == Self::s_consider_edge(kind)"]},
        {"kind": "fn", "file": TP, "name": "take_this_id_usage_set", "impl": r"^impl UsedTemplateParameters<'_>$", "impl_header": "impl<'ctx> UsedTemplateParameters<'ctx>", "impl_name": "UsedTemplateParameters", "ret": "r",
         "subst": [
             ("<Id: Into<ItemId>>", "", 1, "R12 generic Into<ItemId> parameter at its only instantiation (ItemId)"),
             ("this_id: Id,", "this_id: ItemId,", 1, "R12 (same)"),
             ("let this_id = this_id.into();", "", 1, "R12 (same): identity conversion"),
             (("self.used .get_mut(&this_id)", "upon entry of `constrain`\", )"), "take_entry(&mut self.used, this_id)", 1, "R5 table entry take (the two .expect()s are the env fn's precondition)"),
         ],
         "requires": ["s_used(&old(self).used, this_id).is_some()"],
         "ensures": [
             "r.view() == s_used(&old(self).used, this_id).unwrap()",
             "s_used(&final(self).used, this_id).is_none()",
             "same_but(final(self), old(self), this_id)",
         ]},
        {"kind": "fn", "file": TP, "name": "constrain_instantiation_of_blocklisted_template", "impl": r"^impl UsedTemplateParameters<'_>$", "impl_header": "impl<'ctx> UsedTemplateParameters<'ctx>", "impl_name": "UsedTemplateParameters", "ret": "r_unit",
         "subst": [
             ("let args = instantiation .template_arguments() .iter() .map(|a| {",
              "let args_ = instantiation.template_arguments(); let ghost u0 = used_by_this_id.view(); let mut i_: usize = 0; while i_ < args_.len() "
              "invariant args_@ == instantiation.s_args(), 0 <= i_ <= args_.len(), bl_ok(self, this_id, instantiation), used_by_this_id.view() =~= u0.union(bl_set(self, this_id, instantiation, i_ as int)) "
              "decreases args_.len() - i_ { let a = &args_[i_]; i_ = i_ + 1; "
              "proof { assert(bl_set(self, this_id, instantiation, i_ as int) == bl_set(self, this_id, instantiation, i_ - 1).union(bl_step(self, this_id, instantiation, i_ - 1))); } let a = {", 1,
              "R26 iterator pipeline .iter().map(F).filter(G).flat_map(H) + extend -> index loop (head; F's body follows)"),
             (("a.into_resolver()", ".id()"), "self.ctx.resolve_through(*a)", 1, "R5 resolver chain"),
             (r"re:\}\)\s*\.filter\(\|a\|\s*([^)]+?)\)\s*\.flat_map\(\|a\|\s*\{", r"}; let keep_ = { let a = &a; \1 }; if keep_ {", 1, "R26 (G's body is the captured text; H's body follows)"),
             (("self.used .get(&a)", ".iter()"), "extend_from(used_by_this_id, used_set_of(&self.used, a));", 1, "R5 table lookup + R26 extend of H's result"),
             ("}); used_by_this_id.extend(args);", "} }", 1, "R26 (closing: the extend is inside the loop)"),
         ],
         "requires": ["bl_ok(self, this_id, instantiation)"],
         "ensures": [
             "final(used_by_this_id).view() =~= old(used_by_this_id).view().union(bl_set(self, this_id, instantiation, instantiation.s_args().len() as int))",
         ]},
        {"kind": "fn", "file": TP, "name": "constrain_join", "impl": r"^impl UsedTemplateParameters<'_>$", "impl_header": "impl<'ctx> UsedTemplateParameters<'ctx>", "impl_name": "UsedTemplateParameters", "ret": "r_unit",
         "subst": [
             ("item.trace( self.ctx, &mut |sub_id, edge_kind| {",
              "let edges_ = item.traced_edges(self.ctx); let ghost u0 = used_by_this_id.view(); let mut i_: usize = 0; while i_ < edges_.len() "
              "invariant edges_@ == item.s_edges(self.ctx), 0 <= i_ <= edges_.len(), join_ok(self, item), used_by_this_id.view() =~= u0.union(join_set(self, item, i_ as int)) "
              "decreases edges_.len() - i_ { let (sub_id, edge_kind) = edges_[i_]; i_ = i_ + 1; "
              "proof { assert(join_set(self, item, i_ as int) == join_set(self, item, i_ - 1).union(join_step(self, item, i_ - 1))); }", 1,
              "R27 `x.trace(ctx, &mut |sub, kind| BODY, &())` -> loop over the (successor, kind) pairs trace hands to its callback, BODY verbatim"),
             ("return;", "continue;", 1, "R27 (`return` from the callback = next edge)"),
             (("let used_by_sub_id = self .used .get(&sub_id)", "used_by_this_id.extend(used_by_sub_id);"), "extend_from(used_by_this_id, used_set_of(&self.used, sub_id));", 1, "R5 table lookup + extend"),
             ("}, &(), );", "}", 1, "R27 (closing)"),
         ],
         "requires": ["join_ok(self, item)"],
         "ensures": [
             "final(used_by_this_id).view() =~= old(used_by_this_id).view().union(join_set(self, item, item.s_edges(self.ctx).len() as int))",
         ]},
        {"kind": "fn", "file": TP, "name": "constrain", "impl": r"^impl<'ctx> MonotoneFramework for UsedTemplateParameters<'ctx>$", "impl_header": "impl<'ctx> UsedTemplateParameters<'ctx>", "impl_name": "UsedTemplateParameters", "ret": "r",
         "r2_skip": True,
         "subst": [
             (r"re:extra_assert!\(self\.used\.values\(\)\.all\(\|v\| v\.is_some\(\)\)\);", "", 2, "dropped: compiled only under the testing-only feature; the invariant it states is this contract's pre- and postcondition"),
             ("item.as_type().map(|ty| ty.kind())", "item.type_kind()", 1, "R5 accessor chain"),
             ("Some(&TypeKind::TypeParam)", "Some(TypeKind::TypeParam)", 1, "R24 ref pattern"),
             (".contains(&inst.template_definition().into())", ".contains(&inst.template_definition().item())", 1, "R12"),
             (("assert!( new_len >= original_len,", "terminate!\" );"), "assert_or_panic(new_len >= original_len);", 1, "assert! -> proof obligation (not panicking is proved)"),
             ("debug_assert!(self.used[&id].is_none());", "proof { assert(s_used(&self.used, id).is_none()); }", 1, "debug_assert -> proof obligation"),
             ("self.used.insert(id, Some(used_by_this_id));", "put_entry(&mut self.used, id, used_by_this_id);", 1, "R5 table insert"),
         ],
         "requires": [
             "s_used(&old(self).used, id).is_some()",
             "rule_ok(old(self), id)",
             "def_is_not_self(old(self), id)",
         ],
         "ghost_start": "let ghost a0 = *self;",
         "proof_before": [
             ("let ty_kind", "lemma_rule_frame(&a0, &*self, id);"),
             ("let new_len", "assert(used_by_this_id.view() =~= s_used(&a0.used, id).unwrap().union(rule_set(&*self, id))); vstd::set_lib::lemma_len_subset(s_used(&a0.used, id).unwrap(), used_by_this_id.view());"),
             ("if new_len", "if new_len == original_len { vstd::set_lib::lemma_subset_equality(s_used(&a0.used, id).unwrap(), s_used(&self.used, id).unwrap()); }"),
         ],
         "ensures": [
             # the rule: whatever is already known plus what the item's rule yields from the rest of the table
             "s_used(&final(self).used, id) == Some(s_used(&old(self).used, id).unwrap().union(rule_set(old(self), id)))",
             # nothing else changes; in particular every other entry stays Some (the table invariant)
             "same_but(final(self), old(self), id)",
             # Changed is reported exactly when the set grew (the driver re-queues the dependants on Changed only)
             "(r == ConstrainResult::Same) <==> s_used(&final(self).used, id).unwrap() =~= s_used(&old(self).used, id).unwrap()",
         ]},
    ],
}
