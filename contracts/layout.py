"""Unit `layout`: layout arithmetic of bindgen (C02, C10, C12).
Data only: which /repo items are extracted, rewrite rules, contract clauses."""
import os
ENV = os.path.join(os.path.dirname(os.path.dirname(os.path.abspath(__file__))), "env")
SL = "bindgen/codegen/struct_layout.rs"
LY = "bindgen/ir/layout.rs"
HP = "bindgen/codegen/helpers.rs"
CGM = "bindgen/codegen/mod.rs"

BIG = "0x1000_0000_0000_0000"   # 2^60: clang object-size limit is far below

TR = {"impl": r"^impl<'a> StructLayoutTracker<'a>$", "impl_header": "impl<'a> StructLayoutTracker<'a>", "impl_name": "StructLayoutTracker"}

TRACKER_SPEC = """
pub open spec fn valid_layout(l: Layout) -> bool {
    l.size < BIG && l.align < BIG && (l.align == 0 || is_pow2(l.align as int))
}
pub open spec fn layout_align1(l: Layout) -> int { if l.align == 0 { 1 } else { l.align as int } }
pub const BIG: usize = 0x1000_0000_0000_0000;

// ---- repr(C) placement (Rust reference, "The C representation"): a field of
// alignment `fa` that follows an optional padding field `p` after `end` bytes
pub open spec fn end_after(end: int, p: Option<Tok>) -> int {
    match p { Some(t) => align_up(end, ty_align(field_ty(t))) + ty_size(field_ty(t)), None => end }
}
pub open spec fn place_after(end: int, p: Option<Tok>, fa: int) -> int {
    align_up(end_after(end, p), fa)
}
// F4: a padding blob of alignment > 4 (`__BindgenOpaqueArray8<[u8; p]>`) is
// only exact when both its start and its length are multiples of 8
pub open spec fn f4_region(l: int, p: int, pa: int) -> bool {
    pa > 4 && (l % pa != 0 || p % pa != 0)
}

// padding alignment chosen by saw_field_with_layout (after the F4 repair):
// min(fa, 8), or 1 when forced or when an 8-aligned wrapper would be inexact
pub open spec fn pad_align_for(l: int, p: int, fa: int, force: bool) -> int {
    let pa0 = if force { 1 } else if fa <= 8 { fa } else { 8 };
    if pa0 > 4 && (l % pa0 != 0 || p % pa0 != 0) { 1 } else { pa0 }
}
pub open spec fn blob_size_i(p: int, pa: int) -> int {
    if pa <= 4 { (p / pa) * pa } else { align_up(p, pa) }
}

pub proof fn lemma_place_1(l: int, o: int, force: bool)
    requires 0 <= l <= o, o % 1 == 0,
    ensures ({
        let p = o - l;
        let emitted = (force || p >= 1) && p != 0;
        let pa = pad_align_for(l, p, 1, force);
        &&& (pa == 1 || pa == 1)
        &&& (if emitted {
            if pa == 1 { align_up(align_up(l, 1) + (p / 1) * 1, 1) == o }
            else if 1 <= 4 { align_up(align_up(l, 1) + (p / 1) * 1, 1) == o }
            else { align_up(align_up(l, 1) + align_up(p, 1), 1) == o }
        } else { align_up(l, 1) == o })
    }),
{
}

pub proof fn lemma_place_2(l: int, o: int, force: bool)
    requires 0 <= l <= o, o % 2 == 0,
    ensures ({
        let p = o - l;
        let emitted = (force || p >= 2) && p != 0;
        let pa = pad_align_for(l, p, 2, force);
        &&& (pa == 1 || pa == 2)
        &&& (if emitted {
            if pa == 1 { align_up(align_up(l, 1) + (p / 1) * 1, 2) == o }
            else if 2 <= 4 { align_up(align_up(l, 2) + (p / 2) * 2, 2) == o }
            else { align_up(align_up(l, 2) + align_up(p, 2), 2) == o }
        } else { align_up(l, 2) == o })
    }),
{
}

pub proof fn lemma_place_4(l: int, o: int, force: bool)
    requires 0 <= l <= o, o % 4 == 0,
    ensures ({
        let p = o - l;
        let emitted = (force || p >= 4) && p != 0;
        let pa = pad_align_for(l, p, 4, force);
        &&& (pa == 1 || pa == 4)
        &&& (if emitted {
            if pa == 1 { align_up(align_up(l, 1) + (p / 1) * 1, 4) == o }
            else if 4 <= 4 { align_up(align_up(l, 4) + (p / 4) * 4, 4) == o }
            else { align_up(align_up(l, 4) + align_up(p, 4), 4) == o }
        } else { align_up(l, 4) == o })
    }),
{
}

pub proof fn lemma_place_8(l: int, o: int, force: bool)
    requires 0 <= l <= o, o % 8 == 0,
    ensures ({
        let p = o - l;
        let emitted = (force || p >= 8) && p != 0;
        let pa = pad_align_for(l, p, 8, force);
        &&& (pa == 1 || pa == 8)
        &&& (if emitted {
            if pa == 1 { align_up(align_up(l, 1) + (p / 1) * 1, 8) == o }
            else if 8 <= 4 { align_up(align_up(l, 8) + (p / 8) * 8, 8) == o }
            else { align_up(align_up(l, 8) + align_up(p, 8), 8) == o }
        } else { align_up(l, 8) == o })
    }),
{
}

// fa > 8: the padding (always emitted when non-empty) ends exactly at o
pub proof fn lemma_place_big(l: int, o: int, force: bool, fa: int)
    requires 0 <= l <= o, fa > 8,
    ensures ({
        let p = o - l;
        let pa = pad_align_for(l, p, fa, force);
        &&& (pa == 1 || pa == 8)
        &&& (pa == 1 ==> align_up(l, 1) + (p / 1) * 1 == o)
        &&& (pa == 8 ==> align_up(l, 8) + align_up(p, 8) == o)
    }),
{
}

pub proof fn lemma_place(l: int, o: int, fa: int, force: bool)
    requires 0 <= l <= o, fa >= 1, o % fa == 0, fa == 1 || fa == 2 || fa == 4 || fa >= 8,
    ensures ({
        let p = o - l;
        let pa = pad_align_for(l, p, fa, force);
        let emitted = (force || p >= fa || fa > 8) && p != 0;
        if emitted { align_up(align_up(l, pa) + blob_size_i(p, pa), fa) == o } else { align_up(l, fa) == o }
    }),
{
    if fa == 1 { lemma_place_1(l, o, force); }
    else if fa == 2 { lemma_place_2(l, o, force); }
    else if fa == 4 { lemma_place_4(l, o, force); }
    else if fa == 8 { lemma_place_8(l, o, force); }
    else { lemma_place_big(l, o, force, fa); }
}

pub proof fn lemma_pad_1(l: int, size: int)
    requires 0 <= l <= size, size % 1 == 0, !(size - l >= 1 && f4_region(l, size - l, 1)),
    ensures ({
        let p = size - l;
        if p >= 1 && p != 0 {
            if 1 <= 4 { align_up(align_up(l, 1) + (p / 1) * 1, 1) == size }
            else { align_up(align_up(l, 1) + align_up(p, 1), 1) == size }
        } else { align_up(l, 1) == size }
    }),
{
}

pub proof fn lemma_pad_2(l: int, size: int)
    requires 0 <= l <= size, size % 2 == 0, !(size - l >= 2 && f4_region(l, size - l, 2)),
    ensures ({
        let p = size - l;
        if p >= 2 && p != 0 {
            if 2 <= 4 { align_up(align_up(l, 2) + (p / 2) * 2, 2) == size }
            else { align_up(align_up(l, 2) + align_up(p, 2), 2) == size }
        } else { align_up(l, 2) == size }
    }),
{
}

pub proof fn lemma_pad_4(l: int, size: int)
    requires 0 <= l <= size, size % 4 == 0, !(size - l >= 4 && f4_region(l, size - l, 4)),
    ensures ({
        let p = size - l;
        if p >= 4 && p != 0 {
            if 4 <= 4 { align_up(align_up(l, 4) + (p / 4) * 4, 4) == size }
            else { align_up(align_up(l, 4) + align_up(p, 4), 4) == size }
        } else { align_up(l, 4) == size }
    }),
{
}

pub proof fn lemma_pad_8(l: int, size: int)
    requires 0 <= l <= size, size % 8 == 0, !(size - l >= 8 && f4_region(l, size - l, 8)),
    ensures ({
        let p = size - l;
        if p >= 8 && p != 0 {
            if 8 <= 4 { align_up(align_up(l, 8) + (p / 8) * 8, 8) == size }
            else { align_up(align_up(l, 8) + align_up(p, 8), 8) == size }
        } else { align_up(l, 8) == size }
    }),
{
}

pub proof fn lemma_pad(l: int, size: int, sa: int)
    requires 0 <= l <= size, sa == 1 || sa == 2 || sa == 4 || sa == 8, size % sa == 0,
             !(size - l >= sa && f4_region(l, size - l, sa)),
    ensures ({
        let p = size - l;
        let bs = if sa <= 4 { (p / sa) * sa } else { align_up(p, sa) };
        if p >= sa && p != 0 { align_up(align_up(l, sa) + bs, sa) == size } else { align_up(l, sa) == size }
    }),
{
    if sa == 1 { lemma_pad_1(l, size); } else if sa == 2 { lemma_pad_2(l, size); } else if sa == 4 { lemma_pad_4(l, size); } else { lemma_pad_8(l, size); }
}

impl<'a> StructLayoutTracker<'a> {
    // region of the placement theorem (property C02: "every named data member
    // is at the same byte offset"): plain struct, clang gave the offset, the
    // field's alignment is one Rust can express without repr(align), and the
    // Rust struct built so far ends where the tracker thinks it does
    pub open spec fn place_region(&self, fl: Layout, fo: Option<usize>) -> bool {
        &&& !self.is_packed && !self.comp.spec_is_union()
        &&& fo.is_some() && fo.unwrap() % 8 == 0 && fo.unwrap() / 8 >= self.latest_offset
        &&& fl.align >= 1 && (fo.unwrap() / 8) as int % fl.align as int == 0
        &&& (self.latest_field_layout.is_some() ==> self.latest_offset as int % layout_align1(self.latest_field_layout.unwrap()) == 0)
    }
    // region of the size theorem for pad_struct (property C02: "exactly the size
    // ... the C compiler gives"): plain or packed(1) struct whose Rust alignment
    // is the C alignment `sa`, fields so far end at latest_offset
    pub open spec fn pad_region(&self, l: Layout) -> bool {
        &&& l.size >= self.latest_offset && l.align >= 1 && l.size as int % l.align as int == 0
        &&& !self.last_field_was_bitfield && l.align <= 8
        &&& (self.is_packed ==> l.align == 1)
    }
    pub open spec fn pad_f4(&self, l: Layout) -> bool {
        !self.is_packed && l.size - self.latest_offset >= l.align && f4_region(self.latest_offset as int, l.size - self.latest_offset, l.align as int)
    }
    // representation invariant of the tracker
    pub open spec fn inv(&self) -> bool {
        &&& self.max_field_align < BIG
        &&& (self.last_field_was_bitfield ==> self.latest_field_layout.is_some())
        &&& (self.latest_field_layout.is_some() ==> valid_layout(self.latest_field_layout.unwrap()))
        &&& (self.known_type_layout.is_some() ==> valid_layout(self.known_type_layout.unwrap()))
    }
    // magnitude side condition (clang object sizes are far below 2^60); it is a
    // precondition of every operation, not an invariant: offsets only grow
    pub open spec fn small(&self) -> bool {
        self.latest_offset < BIG && self.padding_count < BIG
    }
    // frame: configuration fields never change
    pub open spec fn same_config(&self, o: &Self) -> bool {
        &&& self.name == o.name && self.ctx == o.ctx && self.comp == o.comp
        &&& self.is_packed == o.is_packed && self.known_type_layout == o.known_type_layout
        &&& self.is_rust_union == o.is_rust_union && self.can_copy_union_fields == o.can_copy_union_fields
        &&& self.last_field_was_flexible_array == o.last_field_was_flexible_array
    }
}
"""

ALIGN_LEMMA = """
// ALIGNMENT THEOREM (C02) over the contracts of requires_explicit_align, comp_tail_layout and packed_repr_decision (unit repr):
// the alignment rustc gives the emitted struct (Rust reference, "The C representation" / "The alignment modifiers") is the C alignment.
//   repr(C) [+ repr(align(N))]: max(alignment of the fields, N);   repr(C, packed(N)): min(N, alignment of the fields); both together: rejected (E0587)
pub open spec fn rust_struct_align(packed_emitted: bool, explicit_align: Option<usize>, mfa: int) -> int {
    let natural = if mfa >= 1 { mfa } else { 1 };
    if packed_emitted { natural } else { match explicit_align { Some(n) => if n as int >= natural { n as int } else { natural }, None => natural } }
}
pub proof fn lemma_struct_alignment(is_packed: bool, mfa: int, la: usize, req: bool, packed1: bool, ea1: Option<usize>, already_packed: bool, packed_emitted: bool)
    requires
        la >= 1, mfa >= 0,
        // C: a struct that is not packed is at least as aligned as each member (CompInfo::is_packed detects the converse, unit packed)
        !is_packed ==> mfa <= la,
        // posts of requires_explicit_align
        mfa < la ==> req,
        is_packed && mfa >= la ==> !req,
        // posts of comp_tail_layout (struct arm), starting from packed = is_packed, explicit_align = None
        req ==> (if la == 1 { packed1 && ea1.is_none() } else { packed1 == is_packed && ea1 == Some(la) }),
        !req ==> packed1 == is_packed && ea1.is_none(),
        // post of packed_repr_decision (non-opaque)
        packed_emitted == (packed1 && !(ea1.is_some() && already_packed)),
        // not expressible in Rust, rejected by rustc (documented limitation): packed + a larger aligned(N) whose members are not naturally placed
        !(is_packed && mfa < la && !already_packed),
    ensures
        // packed(N) caps the natural alignment at N = la
        (if packed_emitted { if rust_struct_align(true, ea1, mfa) <= la { rust_struct_align(true, ea1, mfa) } else { la as int } } else { rust_struct_align(false, ea1, mfa) }) == la,
        !(packed_emitted && ea1.is_some()),
{
}
"""

UNIT = {
    "name": "layout",
    "env": [os.path.join(ENV, "layout_env.rs")],
    "declared_trusted": {r"external_body": 31, r"\bexternal\b": 0},
    "items": [
        {"kind": "const", "file": "bindgen/ir/ty.rs", "name": "RUST_DERIVE_IN_ARRAY_LIMIT"},
        {"kind": "const", "file": SL, "name": "MAX_GUARANTEED_ALIGN"},
        {"kind": "struct", "file": LY, "name": "Layout", "prefix": "#[derive(Clone, Copy, PartialEq, Eq)]"},
        {"kind": "raw", "label": "blob_spec", "text": """
// what the property demands of a blob for `layout` (exact when size % align == 0)
pub open spec fn blob_align(l: Layout) -> int { if l.align == 0 { 1 } else { l.align as int } }
pub open spec fn blob_size(l: Layout) -> int {
    if blob_align(l) <= 4 { (l.size as int / blob_align(l)) * blob_align(l) } else { align_up(l.size as int, blob_align(l)) }
}
pub proof fn lemma_blob(l: Layout)
    ensures l.size as int % blob_align(l) == 0 ==> blob_size(l) == l.size,
{
    let a = blob_align(l);
    vstd::arithmetic::div_mod::lemma_fundamental_div_mod(l.size as int, a);
    if l.size as int % a == 0 && a <= 4 {
        assert((l.size as int / a) * a == l.size) by (nonlinear_arith)
            requires l.size as int == a * (l.size as int / a) + l.size as int % a, l.size as int % a == 0;
    }
}
"""},

        # -------------------------------------------------- align_to
        {"kind": "fn", "file": SL, "name": "align_to", "ret": "r",
         "requires": ["size + align <= usize::MAX"],
         "ensures": [
             "r == (if align == 0 { size as int } else { align_up(size as int, align as int) })",
             "align > 0 ==> r >= size && r % align == 0 && r - size < align",
         ],
         "proof_start": "if align > 0 { lemma_align_up(size as int, align as int); }"},

        # -------------------------------------------------- Layout
        {"kind": "fn", "file": LY, "name": "known_type_for_size", "impl": r"^impl Layout$", "impl_header": "impl Layout", "impl_name": "Layout",
         "ret": "r",
         "prim_tokens": {"int": "ty_prim({bytes})"},
         "subst": [
             ("Option<syn::Type>", "Option<Tok>", 1, "R4"),
         ],
         "ensures": [
             "r.is_some() <==> (size == 1 || size == 2 || size == 4 || size == 8 || size == 16)",
             "r.is_some() ==> ty_size(r.unwrap()) == size && ty_align(r.unwrap()) == size",
         ]},
        {"kind": "fn", "file": LY, "name": "new", "impl": r"^impl Layout$", "impl_header": "impl Layout", "impl_name": "Layout",
         "ret": "r",
         "ensures": ["r.size == size && r.align == align && !r.packed"]},
        {"kind": "fn", "file": LY, "name": "for_size_internal", "impl": r"^impl Layout$", "impl_header": "impl Layout", "impl_name": "Layout",
         "ret": "r",
         "requires": ["0 < ptr_size <= 0x1000_0000"],
         "ensures": [
             "r.size == size && !r.packed",
             "is_pow2(r.align as int) && r.align <= ptr_size",
             "size as int % r.align as int == 0",
             # largest such power of two
             "2 * r.align <= ptr_size ==> size as int % (2 * r.align) as int != 0",
         ],
         "loops": {0: {
             "invariant": [
                 "is_pow2(next_align as int / 2) && next_align >= 2 && next_align % 2 == 0",
                 "next_align / 2 <= ptr_size && ptr_size <= 0x1000_0000",
                 "size as int % (next_align as int / 2) == 0",
             ],
             "decreases": "2 * ptr_size - next_align",
             "proof": "lemma_pow2_step(next_align as int);",
         }},
         "proof_start": "reveal_with_fuel(is_pow2, 2);"},
        {"kind": "fn", "file": LY, "name": "for_size", "impl": r"^impl Layout$", "impl_header": "impl Layout", "impl_name": "Layout",
         "ret": "r",
         "ensures": [
             "r.size == size && !r.packed && is_pow2(r.align as int) && r.align <= ctx.spec_ptr_size() && r.align <= 8",
             "size as int % r.align as int == 0",
         ]},

        # -------------------------------------------------- helpers::blob & co
        {"kind": "fn", "file": HP, "name": "blob", "ret": "r",
         "subst": [
             ("syn::Type", "Tok", 1, "R4"),
             ("syn::parse_quote! { [#ty; #len] }", "ty_array(&ty, len)", 1, "R4"),
             ("syn::parse_quote! { root::__BindgenOpaqueArray<[#ty; #len]> }", "ty_opaque_array(true, &ty, len)", 1, "R4"),
             ("syn::parse_quote! { __BindgenOpaqueArray<[#ty; #len]> }", "ty_opaque_array(false, &ty, len)", 1, "R4"),
             ('format_ident!("__BindgenOpaqueArray{align}")', "ident_opaque_array_n(align)", 1, "R4"),
             ("syn::parse_quote! { root::#ident<[u8; #size]> }", "ty_opaque_array_n(true, &ident, size)", 1, "R4"),
             ("syn::parse_quote! { #ident<[u8; #size]> }", "ty_opaque_array_n(false, &ident, size)", 1, "R4"),
             ("layout.align.max(1)", "cmp::max(layout.align, 1)", 1, "R6"),
         ],
         "requires": ["layout.align == 0 || is_pow2(layout.align as int)"],
         "ensures": [
             # property C02/C10: the blob has exactly the C size and alignment
             "ty_align(r) == blob_align(layout)",
             "ty_size(r) == blob_size(layout)",
             "layout.size as int % blob_align(layout) == 0 ==> ty_size(r) == layout.size",
         ],
         "proof_start": "reveal_with_fuel(is_pow2, 4); lemma_blob(layout);"},
        {"kind": "fn", "file": HP, "name": "integer_type", "ret": "r",
         "subst": [("Option<syn::Type>", "Option<Tok>", 1, "R4")],
         "ensures": [
             "r.is_some() <==> (layout.size == 1 || layout.size == 2 || layout.size == 4 || layout.size == 8 || layout.size == 16)",
             "r.is_some() ==> ty_size(r.unwrap()) == layout.size",
         ]},
        {"kind": "fn", "file": HP, "name": "bitfield_unit", "ret": "r",
         "subst": [
             ("syn::Type", "Tok", 1, "R4"),
             ("Ident::new(BITFIELD_UNIT, Span::call_site())", "ident_bitfield_unit()", 1, "R4"),
             ("syn::parse_quote! { #bitfield_unit_name<[u8; #size]> }", "ty_unit_of(&bitfield_unit_name, size)", 1, "R4"),
             ("syn::parse_quote! { root::#ty }", "ty_rooted(&ty)", 1, "R4"),
         ],
         "ensures": ["ty_size(r) == layout.size && ty_align(r) == 1"]},

        # -------------------------------------------------- StructLayoutTracker
        {"kind": "struct", "file": SL, "name": "StructLayoutTracker"},
        {"kind": "raw", "label": "tracker_spec", "text": TRACKER_SPEC},
        {"kind": "fn", "file": SL, "name": "padding_bytes", **TR, "ret": "r",
         "requires": ["self.latest_offset < 4 * BIG", "valid_layout(layout)"],
         "ensures": [
             "r as int == (if layout.align == 0 { 0 } else { align_up(self.latest_offset as int, layout.align as int) - self.latest_offset })",
             "layout.align > 0 ==> r < layout.align && (self.latest_offset + r) as int % layout.align as int == 0",
         ],
         "proof_start": "if layout.align > 0 { lemma_align_up(self.latest_offset as int, layout.align as int); }"},
        {"kind": "fn", "file": SL, "name": "align_to_latest_field", **TR, "ret": "merged",
         "requires": ["old(self).inv()", "old(self).small()", "valid_layout(new_field_layout)"],
         "ensures": [
             "final(self).inv() && final(self).same_config(old(self))",
             "final(self).latest_field_layout == old(self).latest_field_layout && final(self).last_field_was_bitfield == old(self).last_field_was_bitfield",
             "final(self).max_field_align == old(self).max_field_align && final(self).padding_count == old(self).padding_count",
             # either untouched, or rounded up to the previous field's alignment
             "final(self).latest_offset == old(self).latest_offset || (!merged && !old(self).is_packed && old(self).latest_field_layout.is_some() && final(self).latest_offset as int == align_up(old(self).latest_offset as int, layout_align1(old(self).latest_field_layout.unwrap())))",
             "merged ==> old(self).last_field_was_bitfield && final(self).latest_offset == old(self).latest_offset",
             "(old(self).is_packed || old(self).latest_field_layout.is_none()) ==> (!merged && final(self).latest_offset == old(self).latest_offset)",
             # exactly when the new field is merged into the slack of the preceding bit-field unit, and otherwise the running offset
             # IS rounded up to the previous field's alignment (what repr(C) does before the next field is placed)
             "!old(self).is_packed && old(self).latest_field_layout.is_some() ==> merged == (old(self).last_field_was_bitfield "
             "&& new_field_layout.align <= old(self).latest_field_layout.unwrap().size % layout_align1(old(self).latest_field_layout.unwrap()) as usize "
             "&& new_field_layout.size <= old(self).latest_field_layout.unwrap().size % layout_align1(old(self).latest_field_layout.unwrap()) as usize)",
             "!merged && !old(self).is_packed && old(self).latest_field_layout.is_some() ==> final(self).latest_offset as int == align_up(old(self).latest_offset as int, layout_align1(old(self).latest_field_layout.unwrap()))",
         ]},
        {"kind": "fn", "file": SL, "name": "padding_field", **TR, "ret": "r",
         "subst": [
             ("proc_macro2::TokenStream", "Tok", 1, "R4"),
             ("helpers::blob(", "blob(", 1, "R5"),
             ('Ident::new( &format!("__bindgen_padding_{padding_count}"), Span::call_site(), )', "padding_ident(padding_count)", 1, "R4"),
             ("super::access_specifier(self.visibility)", "access_specifier(self.visibility)", 1, "R5"),
             ("quote! { #vis #padding_field_name : #ty , }", "field_tok(&vis, &padding_field_name, &ty)", 1, "R4"),
         ],
         "requires": ["old(self).inv()", "old(self).padding_count < BIG", "valid_layout(layout)"],
         "ensures": [
             "final(self).inv() && final(self).same_config(old(self))",
             "final(self).latest_offset == old(self).latest_offset && final(self).latest_field_layout == old(self).latest_field_layout && final(self).last_field_was_bitfield == old(self).last_field_was_bitfield",
             "final(self).padding_count == old(self).padding_count + 1",
             "final(self).max_field_align == (if old(self).max_field_align >= layout.align { old(self).max_field_align } else { layout.align })",
             "ty_align(field_ty(r)) == blob_align(layout) && ty_size(field_ty(r)) == blob_size(layout)",
         ]},
        {"kind": "fn", "file": SL, "name": "saw_vtable", **TR,
         "requires": ["old(self).inv()", "old(self).small()"],
         "ensures": [
             "final(self).inv() && final(self).same_config(old(self))",
             "final(self).latest_offset == old(self).latest_offset + old(self).ctx.spec_ptr_size()",
             "final(self).latest_field_layout == Some(Layout { size: old(self).ctx.spec_ptr_size(), align: old(self).ctx.spec_ptr_size(), packed: false })",
             "final(self).max_field_align == old(self).ctx.spec_ptr_size()",
         ],
         "proof_start": "reveal_with_fuel(is_pow2, 5);"},
        {"kind": "fn", "file": SL, "name": "saw_base", **TR,
         "requires": ["old(self).inv()", "old(self).small()", "base_ty.spec_layout(old(self).ctx).is_some() ==> valid_layout(base_ty.spec_layout(old(self).ctx).unwrap())"],
         "ensures": [
             "final(self).inv() && final(self).same_config(old(self))",
             "base_ty.spec_layout(old(self).ctx).is_none() ==> *final(self) == *old(self)",
             "base_ty.spec_layout(old(self).ctx).is_some() ==> final(self).latest_field_layout == base_ty.spec_layout(old(self).ctx)",
             "final(self).max_field_align >= old(self).max_field_align",
             # a base subobject is a repr(C) field: rustc places it at the next multiple of its alignment after the previous
             # base, and the running offset - from which every later padding (in front of a bit-field unit too: C03) is
             # computed - must then be its end
             "base_ty.spec_layout(old(self).ctx).is_some() && !old(self).is_packed && base_ty.spec_layout(old(self).ctx).unwrap().align > 0 && !old(self).last_field_was_bitfield ==> "
             "final(self).latest_offset as int == align_up(if old(self).latest_field_layout.is_some() { align_up(old(self).latest_offset as int, layout_align1(old(self).latest_field_layout.unwrap())) } else { old(self).latest_offset as int }, "
             "base_ty.spec_layout(old(self).ctx).unwrap().align as int) + base_ty.spec_layout(old(self).ctx).unwrap().size",
         ]},
        # added by the F5 repair (/repo commit c363bfdc): padding up to the C offset of a bit-field unit
        {"kind": "fn", "file": SL, "name": "pad_to_bitfield_unit", **TR, "ret": "r",
         "subst": [("Option<proc_macro2::TokenStream>", "Option<Tok>", 1, "R4")],
         "requires": ["old(self).inv()", "old(self).small()", "unit_offset.is_some() ==> unit_offset.unwrap() / 8 < BIG"],
         "ensures": [
             "final(self).inv() && final(self).same_config(old(self))",
             "final(self).latest_field_layout == old(self).latest_field_layout && final(self).last_field_was_bitfield == old(self).last_field_was_bitfield",
             "(old(self).comp.spec_is_union() || unit_offset.is_none() || unit_offset.unwrap() / 8 <= old(self).latest_offset) ==> r.is_none() && final(self).latest_offset == old(self).latest_offset",
             # PLACEMENT THEOREM for bit-field units (C02/C03): the byte-aligned unit that follows lands at the C offset --
             # in packed records too (a `:0` separator opens a gap there as well): failed for packed on the unchanged tree, finding F15, repaired
             "(!old(self).comp.spec_is_union() && unit_offset.is_some() && unit_offset.unwrap() / 8 >= old(self).latest_offset) ==> place_after(old(self).latest_offset as int, r, 1) == unit_offset.unwrap() / 8 && final(self).latest_offset == unit_offset.unwrap() / 8",
         ],
         "proof_start": "reveal_with_fuel(is_pow2, 2);"},
        {"kind": "fn", "file": SL, "name": "saw_bitfield_unit", **TR,
         "requires": ["old(self).inv()", "old(self).small()", "valid_layout(layout)"],
         "ensures": [
             "final(self).inv() && final(self).same_config(old(self))",
             "final(self).latest_field_layout == Some(layout) && final(self).last_field_was_bitfield",
             "final(self).latest_offset >= old(self).latest_offset + layout.size",
             # the unit occupies exactly [old offset, old offset + size) when the running offset is aligned for the previous field
             "(old(self).is_packed || old(self).latest_field_layout.is_none() || old(self).latest_offset as int % layout_align1(old(self).latest_field_layout.unwrap()) == 0) ==> final(self).latest_offset == old(self).latest_offset + layout.size",
             "final(self).max_field_align == (if old(self).max_field_align >= layout.align { old(self).max_field_align } else { layout.align })",
         ]},
        {"kind": "fn", "file": SL, "name": "saw_field_with_layout", **TR, "ret": "r",
         "subst": [
             ("Option<proc_macro2::TokenStream>", "Option<Tok>", 1, "R4"),
             ("padding_layout.map(|layout| self.padding_field(layout))",
              "match padding_layout { Some(layout) => Some(self.padding_field(layout)), None => None }", 1, "R7"),
         ],
         "requires": [
             "old(self).inv()", "old(self).small()", "valid_layout(field_layout)",
             "field_offset.is_some() ==> field_offset.unwrap() / 8 < BIG",
         ],
         "ensures": [
             "final(self).inv() && final(self).same_config(old(self))",
             "final(self).latest_field_layout == Some(field_layout) && !final(self).last_field_was_bitfield",
             "final(self).max_field_align >= old(self).max_field_align && final(self).max_field_align >= field_layout.align",
             "(old(self).is_packed || old(self).comp.spec_is_union()) ==> r.is_none()",
             # PLACEMENT THEOREM (C02) on the whole region (F4 repaired by /repo commit 84ad6da6)
             "old(self).place_region(field_layout, field_offset) ==> (place_after(old(self).latest_offset as int, r, field_layout.align as int) == field_offset.unwrap() / 8 && final(self).latest_offset == field_offset.unwrap() / 8 + field_layout.size)",
             # a member clang reports no offset for (an anonymous struct/union): rustc places it at the next multiple of its alignment
             # after the previous field (repr(C)), and so must the running offset - unless it is merged into the slack of a bit-field unit
             "field_offset.is_none() && !old(self).is_packed && !old(self).comp.spec_is_union() && field_layout.align > 0 && old(self).latest_field_layout.is_some() "
             "&& !(old(self).last_field_was_bitfield && field_layout.align <= old(self).latest_field_layout.unwrap().size % layout_align1(old(self).latest_field_layout.unwrap()) as usize "
             "&& field_layout.size <= old(self).latest_field_layout.unwrap().size % layout_align1(old(self).latest_field_layout.unwrap()) as usize) "
             "==> final(self).latest_offset as int == align_up(align_up(old(self).latest_offset as int, layout_align1(old(self).latest_field_layout.unwrap())), field_layout.align as int) + field_layout.size",
         ],
         "proof_start": "reveal_with_fuel(is_pow2, 5); if self.latest_field_layout.is_some() { lemma_align_up(self.latest_offset as int, layout_align1(self.latest_field_layout.unwrap())); if field_layout.align > 0 { lemma_align_up(align_up(self.latest_offset as int, layout_align1(self.latest_field_layout.unwrap())), field_layout.align as int); } } if self.place_region(field_layout, field_offset) { lemma_place(self.latest_offset as int, field_offset.unwrap() as int / 8, field_layout.align as int, self.ctx.spec_options().force_explicit_padding); if self.latest_field_layout.is_some() { lemma_align_up(self.latest_offset as int, layout_align1(self.latest_field_layout.unwrap())); } }"},
        {"kind": "fn", "file": SL, "name": "add_tail_padding", **TR, "ret": "r",
         "subst": [("Option<proc_macro2::TokenStream>", "Option<Tok>", 1, "R4")],
         "requires": ["old(self).inv()", "old(self).small()", "valid_layout(comp_layout)"],
         "ensures": [
             "final(self).inv() && final(self).same_config(old(self))",
             "!old(self).ctx.spec_options().force_explicit_padding ==> r.is_none()",
             "r.is_some() ==> ty_size(field_ty(r.unwrap())) == comp_layout.size - old(self).latest_offset && ty_align(field_ty(r.unwrap())) == 1",
             # the running offset is the end of what has been emitted (C02: otherwise pad_struct pads the same bytes again) --
             # failed on the unchanged tree: finding F14, repaired
             "final(self).latest_offset as int == end_after(old(self).latest_offset as int, r)",
             "r.is_some() ==> final(self).latest_offset == comp_layout.size",
         ]},
        {"kind": "fn", "file": SL, "name": "pad_struct", **TR, "ret": "r",
         "subst": [("Option<proc_macro2::TokenStream>", "Option<Tok>", 1, "R4")],
         "requires": ["old(self).inv()", "old(self).small()", "valid_layout(layout)"],
         "ensures": [
             "final(self).inv() && final(self).same_config(old(self))",
             "layout.size < old(self).latest_offset ==> r.is_none()",
             "final(self).latest_offset == old(self).latest_offset",
             # SIZE THEOREM (C02), region minus F4: fields + returned padding, rounded to the struct alignment, give the C size
             "(old(self).pad_region(layout) && !old(self).pad_f4(layout)) ==> align_up(end_after(old(self).latest_offset as int, r), layout.align as int) == layout.size",
         ],
         "proof_start": "reveal_with_fuel(is_pow2, 4); if self.pad_region(layout) && !self.pad_f4(layout) { lemma_pad(self.latest_offset as int, layout.size as int, layout.align as int); }"},
        {"kind": "fn", "file": SL, "name": "requires_explicit_align", **TR, "ret": "r",
         "ensures": [
             # property: repr(align) present whenever the fields alone would under-align
             "self.max_field_align < layout.align ==> r",
             # ... and never next to a packed(N) that already yields N (rustc rejects packed + align, and the caller then
             # drops `packed`: defect F20); these two are the hypotheses of lemma_struct_alignment below
             "self.is_packed && self.max_field_align >= layout.align ==> !r",
             "!self.is_packed && self.max_field_align >= 16 ==> r",
             "r ==> (self.max_field_align >= 16 || self.max_field_align < layout.align)",
         ]},
        {"kind": "raw", "label": "lemma_struct_alignment", "text": ALIGN_LEMMA},
        # ---- the layout the tracker is given for a member (saw_field minus its final call, statements R18): the Rust field is as
        # aligned as the type BEHIND a typedef - a type alias cannot carry an `aligned` attribute (defect F25)
        {"kind": "fn", "file": SL, "name": "member_layout_for_tracker", **TR, "ret": "r",
         "closure": {"enclosing": "saw_field", "anchor": "let mut field_layout =", "nth": 0, "stmt": "rest",
                     "signature": "fn member_layout_for_tracker(self_: &StructLayoutTracker, field_name: &str, field_ty: &Type, field_offset: Option<usize>) -> (r: Option<Layout>)",
                     "prefix": "{", "suffix": "}"},
         "subst": [
             ("std::ptr::eq(canonical_ty, field_ty)", "type_ptr_eq(self_.ctx, canonical_ty, field_ty)", 0, "R21 pointer identity of IR types (if present)"),
             ("self.saw_field_with_layout(field_name, field_layout, field_offset)", "Some(field_layout)", 1, "R18: the layout handed to saw_field_with_layout is the result"),
             ("self", "self_", 1, "R18 captured self"),
         ],
         "proof_before": [("field_layout.size =", "assert(forall|a: int, b: int| 0 <= a < 0x8000_0000 && 0 <= b < 0x4000_0000 ==> #[trigger] (a * b) < 0x2000_0000_0000_0000) by (nonlinear_arith);")],
         "requires": ["field_ty.spec_layout(self_.ctx).is_some() ==> valid_layout(field_ty.spec_layout(self_.ctx).unwrap())",
                      # magnitudes (as everywhere in this unit): element sizes, alignments and array lengths below 2^30
                      "field_ty.spec_canonical(self_.ctx).spec_array().is_some() ==> ({ let a = field_ty.spec_canonical(self_.ctx).spec_array().unwrap(); let l = self_.ctx.spec_type(a.0).spec_layout(self_.ctx); "
                      "a.1 < 0x4000_0000 && (l.is_some() ==> l.unwrap().size < 0x4000_0000 && l.unwrap().align < 0x4000_0000) })"],
         "ensures": [
             "r.is_some() == field_ty.spec_layout(self_.ctx).is_some()",
             # not an over-aligned array element (the 'ultra hack' region is left alone): size as clang reports, alignment =
             # the smaller of the typedef's and the aliased type's
             "r.is_some() && field_ty.spec_canonical(self_.ctx).spec_array().is_none() ==> r.unwrap().size == field_ty.spec_layout(self_.ctx).unwrap().size "
             "&& r.unwrap().align == ({ let a = field_ty.spec_layout(self_.ctx).unwrap().align; let c = field_ty.spec_canonical(self_.ctx).spec_layout(self_.ctx); "
             "if !field_ty.spec_is_canonical(self_.ctx) && c.is_some() && c.unwrap().align != 0 && c.unwrap().align < a { c.unwrap().align } else { a } })",
             # an array of over-aligned elements (the 'ultra hack'): whenever the IR agrees with C about the array (sizeof is a multiple of
             # alignof for the element, the array is len elements), the tracker is still told the C size of the member - its running
             # offset, and with it the placement of every LATER member and bit-field unit (C03), depends on it - at alignment 8
             "r.is_some() && field_ty.spec_canonical(self_.ctx).spec_array().is_some() ==> ({ let a = field_ty.spec_canonical(self_.ctx).spec_array().unwrap(); let l = self_.ctx.spec_type(a.0).spec_layout(self_.ctx); "
             "l.is_some() && l.unwrap().align > 8 && l.unwrap().size as int % l.unwrap().align as int == 0 && field_ty.spec_layout(self_.ctx).unwrap().size == l.unwrap().size * a.1 "
             "==> r.unwrap().size == field_ty.spec_layout(self_.ctx).unwrap().size && r.unwrap().align == 8 })",
         ]},
        {"kind": "fn", "file": SL, "name": "is_rust_union", **TR, "ret": "r", "ensures": ["r == self.is_rust_union"]},
        # ---- the tail of <CompInfo as CodeGenerator>::codegen that completes size and alignment (statement, R18)
        {"kind": "fn", "file": CGM, "name": "comp_tail_layout", "impl": r"^impl CodeGenerator for CompInfo$", "ret": "r_unit",
         "closure": {"enclosing": "codegen", "anchor": "if is_opaque { match layout {", "nth": 0, "stmt": True,
                     "signature": "fn comp_tail_layout<'a>(ctx: &BindgenContext, is_opaque: bool, is_union: bool, zero_sized: bool, forward_decl: bool, layout: Option<Layout>, struct_layout: &mut StructLayoutTracker<'a>, fields: &mut Vec<Tok>, packed: &mut bool, explicit_align: &mut Option<usize>)",
                     "prefix": "{", "suffix": "}"},
         "subst": [
             ("helpers::blob(", "blob(", 2, "module path"),
             ("quote! { pub _bindgen_opaque_blob: #ty , }", "q_blob_field(&ty)", 1, "R4"),
             ("quote! { pub bindgen_union_field: #ty, }", "q_union_field(&ty)", 1, "R4"),
             ("layout.and_then(|layout| struct_layout.pad_struct(layout))", "(match layout { Some(layout) => struct_layout.pad_struct(layout), None => None })", 1, "R7"),
             (r"re:(?<![\w.])explicit_align(?![\w(:])", "(*explicit_align)", 1, "R18 captured by mutable reference (every occurrence of the name)"),
             (r"re:(?<![\w.])packed(?![\w(:])", "(*packed)", 1, "R18 captured by mutable reference (every occurrence of the name)"),
         ],
         "requires": ["old(struct_layout).inv()", "old(struct_layout).small()", "layout.is_some() ==> valid_layout(layout.unwrap())"],
         "ensures": [
             "final(struct_layout).inv() && final(struct_layout).same_config(old(struct_layout))",
             # opaque with a layout: exactly one more field, a blob of exactly the C size and alignment, plus repr(align)
             "is_opaque && layout.is_some() ==> final(fields)@.len() == old(fields)@.len() + 1 && final(fields)@.subrange(0, old(fields)@.len() as int) == old(fields)@ "
             "&& ty_align(field_ty(final(fields)@.last())) == blob_align(layout.unwrap()) && ty_size(field_ty(final(fields)@.last())) == blob_size(layout.unwrap()) "
             "&& *final(explicit_align) == Some(layout.unwrap().align) && *final(packed) == *old(packed)",
             # struct: alignment. repr(align(N)) (or packed for N == 1) whenever the fields alone would under-align
             "!is_opaque && !is_union && !zero_sized && layout.is_some() && final(struct_layout).max_field_align < layout.unwrap().align ==> "
             "(if layout.unwrap().align == 1 { *final(packed) } else { *final(explicit_align) == Some(layout.unwrap().align) })",
             # exactly one of the two is touched (hypothesis of lemma_struct_alignment: packed and align(N) never introduced together)
             "!is_opaque && !is_union && !zero_sized && layout.is_some() ==> (layout.unwrap().align == 1 ==> *final(explicit_align) == *old(explicit_align)) && (layout.unwrap().align != 1 ==> *final(packed) == *old(packed))",
             "!is_opaque && !is_union && !zero_sized && layout.is_some() && old(struct_layout).is_packed && final(struct_layout).max_field_align >= layout.unwrap().align ==> "
             "*final(packed) == *old(packed) && *final(explicit_align) == *old(explicit_align)",
             "!is_opaque && !is_union && !zero_sized && layout.is_some() && final(struct_layout).max_field_align >= layout.unwrap().align && final(struct_layout).max_field_align < 16 ==> "
             "*final(packed) == *old(packed) && *final(explicit_align) == *old(explicit_align)",
             # struct: size. The fields plus the padding appended here, rounded to the alignment, give the C size (size theorem of pad_struct)
             "!is_opaque && !is_union && !zero_sized && layout.is_some() && old(struct_layout).pad_region(layout.unwrap()) && !old(struct_layout).pad_f4(layout.unwrap()) ==> "
             "(final(fields)@.len() == old(fields)@.len() && align_up(old(struct_layout).latest_offset as int, layout.unwrap().align as int) == layout.unwrap().size) || "
             "(final(fields)@.len() == old(fields)@.len() + 1 && final(fields)@.subrange(0, old(fields)@.len() as int) == old(fields)@ && align_up(end_after(old(struct_layout).latest_offset as int, Some(final(fields)@.last())), layout.unwrap().align as int) == layout.unwrap().size)",
             # union: alignment attribute as for structs; a non-Rust union is one blob of exactly the C size and alignment
             "!is_opaque && (is_union || zero_sized) && is_union && !forward_decl && layout.is_some() && old(struct_layout).max_field_align < layout.unwrap().align ==> *final(explicit_align) == Some(layout.unwrap().align)",
             "!is_opaque && (is_union || zero_sized) && is_union && !forward_decl && layout.is_some() && !old(struct_layout).is_rust_union ==> final(fields)@.len() == old(fields)@.len() + 1 "
             "&& ty_align(field_ty(final(fields)@.last())) == blob_align(layout.unwrap()) && ty_size(field_ty(final(fields)@.last())) == blob_size(layout.unwrap())",
             # nothing else is touched
             "(!is_opaque && (is_union || zero_sized) && !(is_union && !forward_decl)) || layout.is_none() ==> final(fields)@ == old(fields)@ && *final(packed) == *old(packed) && *final(explicit_align) == *old(explicit_align)",
         ]},
        # ---- how the explicit alignment is realised (statement, R18)
        {"kind": "fn", "file": CGM, "name": "emit_explicit_align", "impl": r"^impl CodeGenerator for CompInfo$", "ret": "r_unit",
         "closure": {"enclosing": "codegen", "anchor": "if let Some(explicit) = explicit_align {", "nth": 0, "stmt": True,
                     "signature": "fn emit_explicit_align(has_bitfields: bool, explicit_align: Option<usize>, fields: &mut Vec<Tok>, attributes: &mut Vec<Tok>)",
                     "prefix": "{", "suffix": "}"},
         "subst": [
             ("self.has_bitfields()", "has_bitfields", 1, "R18 captured value"),
             ("quote! { u64 }", "q_uint(8)", 1, "R4"), ("quote! { u32 }", "q_uint(4)", 1, "R4"),
             ("quote! { u16 }", "q_uint(2)", 1, "R4"), ("quote! { u8 }", "q_uint(1)", 1, "R4"),
             ("quote! { pub _bindgen_align: [#align_ty; 0], }", "q_align_field(&align_ty)", 1, "R4"),
             ("let explicit = helpers::ast_ty::int_expr(explicit as i64);", "", 1, "R4 (the literal is the number)"),
             ("quote! { #[repr(align(#explicit))] }", "q_repr_align(explicit)", 1, "R4"),
         ],
         "proof_before": [("let align_ty = match explicit {", "reveal_with_fuel(is_pow2, 5);")],
         "requires": ["explicit_align.is_some() ==> is_pow2(explicit_align.unwrap() as int)"],
         "ensures": [
             "explicit_align.is_none() ==> final(fields)@ == old(fields)@ && final(attributes)@ == old(attributes)@",
             # the struct ends up aligned to exactly the requested value: a #[repr(align(N))] attribute, or a
             # leading zero-length array of a primitive whose alignment is N
             "explicit_align.is_some() ==> (final(attributes)@ == old(attributes)@.push(final(attributes)@.last()) && repr_align_of(final(attributes)@.last()) == Some(explicit_align.unwrap() as int) && final(fields)@ == old(fields)@) "
             "|| (final(attributes)@ == old(attributes)@ && final(fields)@.len() == old(fields)@.len() + 1 && final(fields)@ == old(fields)@.insert(0, final(fields)@[0]) "
             "&& zero_len_array_of(final(fields)@[0]).is_some() && ty_align(zero_len_array_of(final(fields)@[0]).unwrap()) == explicit_align.unwrap())",
         ]},
    ],
}
