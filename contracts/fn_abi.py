"""Unit `fn_abi` (C14): FunctionSig::abi -- the code-generation site that must
consult the Rust-target feature flags before emitting an `extern "<abi>"`."""
import os
ENV = os.path.join(os.path.dirname(os.path.dirname(os.path.abspath(__file__))), "env")
FN = "bindgen/ir/function.rs"
FS = {"impl": r"^impl FunctionSig$", "impl_header": "impl FunctionSig", "impl_name": "FunctionSig"}

SPEC = """
// the ABI that ends up in the bindings: an --override-abi match wins over what clang reported
pub open spec fn effective_abi(sig: &FunctionSig, ctx: &BindgenContext, name: Option<&str>) -> ClangAbi {
    let n = match name { Some(s) => s@, None => sig.name@ };
    match ctx.s_override(n) { Some(a) => ClangAbi::Known(a), None => sig.abi }
}
// property C14: no ABI newer than the selected Rust target
pub open spec fn abi_allowed(a: ClangAbi, f: RustFeatures) -> bool {
    &&& (a == ClangAbi::Known(Abi::ThisCall) ==> f.thiscall_abi)
    &&& (a == ClangAbi::Known(Abi::Vectorcall) ==> f.vectorcall_abi)
    &&& (a == ClangAbi::Known(Abi::CUnwind) ==> f.c_unwind_abi)
    &&& (a == ClangAbi::Known(Abi::EfiApi) ==> f.abi_efiapi)
}
"""

ABI_NAMES = ["C", "stdcall", "efiapi", "fastcall", "thiscall", "vectorcall", "aapcs", "win64", "C-unwind", "system"]
ABI_SPEC = """
// the ABI strings of the Rust reference for the calling conventions bindgen knows
pub open spec fn abi_string(a: Abi) -> Seq<char> {
    match a {
        Abi::C => "C"@, Abi::Stdcall => "stdcall"@, Abi::EfiApi => "efiapi"@, Abi::Fastcall => "fastcall"@,
        Abi::ThisCall => "thiscall"@, Abi::Vectorcall => "vectorcall"@, Abi::Aapcs => "aapcs"@,
        Abi::Win64 => "win64"@, Abi::CUnwind => "C-unwind"@, Abi::System => "system"@,
    }
}
"""
OVERRIDE_1 = "ctx .options() .abi_overrides .iter() .find(|(_, regex_set)| regex_set.matches(name))"
OVERRIDE_2 = "ctx .options() .abi_overrides .iter() .find(|(_, regex_set)| regex_set.matches(&self.name))"

UNIT = {
    "name": "fn_abi",
    "env": [os.path.join(ENV, "fn_abi_env.rs")],
    "declared_trusted": {r"external_body": 7},
    "items": [
        {"kind": "enum", "file": FN, "name": "Abi", "prefix": "#[derive(Copy, Clone, PartialEq, Eq, Structural)]"},
        {"kind": "enum", "file": FN, "name": "ClangAbi", "prefix": "#[derive(Copy, Clone, PartialEq, Eq, Structural)]"},
        {"kind": "struct", "file": FN, "name": "FunctionSig"},
        {"kind": "raw", "label": "fn_abi_spec", "text": SPEC},
        # C04 (call-compatible signature): the string written after `extern` is the Rust ABI string of the calling convention
        # (Rust reference, "ABI" of external blocks; table transcribed in ABI_SPEC): the `let s = match ..` statement of
        # <Abi as Display>::fmt (let-statement R18), which <Abi as ToTokens>::to_tokens prints
        {"kind": "raw", "label": "abi_names", "text": ABI_SPEC},
        {"kind": "fn", "file": FN, "name": "abi_name", "impl": r"^impl std::fmt::Display for Abi$", "ret": "r",
         "closure": {"enclosing": "fmt", "anchor_re": r"(?m)^\s*let s = match \*self \{", "nth": 0, "stmt": "let",
                     "signature": "fn abi_name(self_: &Abi) -> (r: &'static str)", "prefix": "{", "suffix": "; s }"},
         "subst": [(r"re:\bSelf::", "Abi::", 0, "Self is Abi"), (r"re:(?<![\w.:])self(?![\w(:])", "self_", 0, "R18 captured self")],
         "proof_start": " ".join('reveal_strlit("%s");' % n for n in ABI_NAMES),
         "ensures": ["r@ == abi_string(*self_)"]},
        {"kind": "fn", "file": FN, "name": "is_variadic", **FS, "ret": "r",
         "ensures": ["r == (self.is_variadic && self.argument_types@.len() != 0)"]},
        {"kind": "const", "file": FN, "name": "RUST_DERIVE_FUNPTR_LIMIT"},
        # C08: the ">12-argument function pointers" rule, for EVERY argument count (replaces the bounded Kani stand-in)
        {"kind": "fn", "file": FN, "name": "function_pointers_can_derive", **FS, "ret": "r",
         "ensures": ["r == (self.argument_types@.len() <= 12 && (self.abi == ClangAbi::Known(Abi::C) || self.abi is Unknown))"]},
        {"kind": "fn", "file": FN, "name": "abi", **FS, "ret": "r",
         "subst": [
             (OVERRIDE_1, "ctx.abi_override_for(name)", 1, "R5"),
             (OVERRIDE_2, "ctx.abi_override_for(self.name.as_str())", 1, "R5"),
         ],
         "ensures": [
             # no construct newer than the target: an accepted ABI is one the feature set allows
             "match r { Ok(a) => abi_allowed(a, ctx.spec_options().s_features()), Err(_) => true }",
             # and it is the effective one (override first), never something else
             "match r { Ok(a) => a == effective_abi(self, ctx, name), Err(_) => true }",
             # not withheld: an allowed, non-(variadic Win64) effective ABI that HAS a Rust spelling is accepted
             "(effective_abi(self, ctx, name) is Known && abi_allowed(effective_abi(self, ctx, name), ctx.spec_options().s_features()) && !(effective_abi(self, ctx, name) == ClangAbi::Known(Abi::Win64) && self.is_variadic && self.argument_types@.len() != 0)) ==> r.is_ok()",
             # C12: an accepted ABI can always be printed (ClangAbi::Unknown has no Rust spelling: its ToTokens impl and
             # Function::codegen panic on it) -- failed on the unchanged tree: finding F11, repaired
             "match r { Ok(a) => a is Known, Err(_) => true }",
         ]},
    ],
}
