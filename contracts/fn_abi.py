"""Unit `fn_abi` (C14): FunctionSig::abi -- the code-generation site that must
consult the Rust-target feature flags before emitting an `extern "<abi>"`."""
import os
ENV = os.path.join(os.path.dirname(os.path.dirname(os.path.abspath(__file__))), "env")
FN = "bindgen/ir/function.rs"
FS = {"impl": r"^impl FunctionSig$", "impl_header": "impl FunctionSig", "impl_name": "FunctionSig"}

SPEC = """
// the ABI that ends up in the bindings: an --override-abi match wins over what clang reported
pub open spec fn effective_abi(sig: &FunctionSig, ctx: &BindgenContext, name: Option<&str>) -> ClangAbi {
    let n = match name { Some(s) => s@, None => sig.name@ };
    match ctx.s_override(n) { Some(a) => ClangAbi::Known(a), None => sig.abi }
}
// property C14: no ABI newer than the selected Rust target
pub open spec fn abi_allowed(a: ClangAbi, f: RustFeatures) -> bool {
    &&& (a == ClangAbi::Known(Abi::ThisCall) ==> f.thiscall_abi)
    &&& (a == ClangAbi::Known(Abi::Vectorcall) ==> f.vectorcall_abi)
    &&& (a == ClangAbi::Known(Abi::CUnwind) ==> f.c_unwind_abi)
    &&& (a == ClangAbi::Known(Abi::EfiApi) ==> f.abi_efiapi)
}
"""

OVERRIDE_1 = "ctx .options() .abi_overrides .iter() .find(|(_, regex_set)| regex_set.matches(name))"
OVERRIDE_2 = "ctx .options() .abi_overrides .iter() .find(|(_, regex_set)| regex_set.matches(&self.name))"

UNIT = {
    "name": "fn_abi",
    "env": [os.path.join(ENV, "fn_abi_env.rs")],
    "declared_trusted": {r"external_body": 7},
    "items": [
        {"kind": "enum", "file": FN, "name": "Abi", "prefix": "#[derive(Copy, Clone, PartialEq, Eq, Structural)]"},
        {"kind": "enum", "file": FN, "name": "ClangAbi", "prefix": "#[derive(Copy, Clone, PartialEq, Eq, Structural)]"},
        {"kind": "struct", "file": FN, "name": "FunctionSig"},
        {"kind": "raw", "label": "fn_abi_spec", "text": SPEC},
        {"kind": "fn", "file": FN, "name": "is_variadic", **FS, "ret": "r",
         "ensures": ["r == (self.is_variadic && self.argument_types@.len() != 0)"]},
        {"kind": "const", "file": FN, "name": "RUST_DERIVE_FUNPTR_LIMIT"},
        # C08: the ">12-argument function pointers" rule, for EVERY argument count (replaces the bounded Kani stand-in)
        {"kind": "fn", "file": FN, "name": "function_pointers_can_derive", **FS, "ret": "r",
         "ensures": ["r == (self.argument_types@.len() <= 12 && (self.abi == ClangAbi::Known(Abi::C) || self.abi is Unknown))"]},
        {"kind": "fn", "file": FN, "name": "abi", **FS, "ret": "r",
         "subst": [
             (OVERRIDE_1, "ctx.abi_override_for(name)", 1, "R5"),
             (OVERRIDE_2, "ctx.abi_override_for(self.name.as_str())", 1, "R5"),
         ],
         "ensures": [
             # no construct newer than the target: an accepted ABI is one the feature set allows
             "match r { Ok(a) => abi_allowed(a, ctx.spec_options().s_features()), Err(_) => true }",
             # and it is the effective one (override first), never something else
             "match r { Ok(a) => a == effective_abi(self, ctx, name), Err(_) => true }",
             # not withheld: an allowed, non-(variadic Win64) effective ABI that HAS a Rust spelling is accepted
             "(effective_abi(self, ctx, name) is Known && abi_allowed(effective_abi(self, ctx, name), ctx.spec_options().s_features()) && !(effective_abi(self, ctx, name) == ClangAbi::Known(Abi::Win64) && self.is_variadic && self.argument_types@.len() != 0)) ==> r.is_ok()",
             # C12: an accepted ABI can always be printed (ClangAbi::Unknown has no Rust spelling: its ToTokens impl and
             # Function::codegen panic on it) -- failed on the unchanged tree: finding F11, repaired
             "match r { Ok(a) => a is Known, Err(_) => true }",
         ]},
    ],
}
