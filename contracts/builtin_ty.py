"""Unit `builtin_ty` (C02, C12): libclang builtin type kinds -> bindgen type kinds."""
import os
ENV = os.path.join(os.path.dirname(os.path.dirname(os.path.abspath(__file__))), "env")
CX = "bindgen/ir/context.rs"

SPEC = """
// C11 6.2.5 by name: which bindgen kind stands for which builtin C type
pub open spec fn builtin_kind(k: CXTypeKind, distinct_char16: bool) -> Option<TypeKind> {
    if k == CXType_NullPtr { Some(TypeKind::NullPtr) } else if k == CXType_Void { Some(TypeKind::Void) }
    else if k == CXType_Bool { Some(TypeKind::Int(IntKind::Bool)) }
    else if k == CXType_Int { Some(TypeKind::Int(IntKind::Int)) } else if k == CXType_UInt { Some(TypeKind::Int(IntKind::UInt)) }
    else if k == CXType_Char_S { Some(TypeKind::Int(IntKind::Char { is_signed: true })) } else if k == CXType_Char_U { Some(TypeKind::Int(IntKind::Char { is_signed: false })) }
    else if k == CXType_SChar { Some(TypeKind::Int(IntKind::SChar)) } else if k == CXType_UChar { Some(TypeKind::Int(IntKind::UChar)) }
    else if k == CXType_Short { Some(TypeKind::Int(IntKind::Short)) } else if k == CXType_UShort { Some(TypeKind::Int(IntKind::UShort)) }
    else if k == CXType_WChar { Some(TypeKind::Int(IntKind::WChar)) }
    else if k == CXType_Char16 { Some(TypeKind::Int(if distinct_char16 { IntKind::Char16 } else { IntKind::U16 })) }
    else if k == CXType_Char32 { Some(TypeKind::Int(IntKind::U32)) }
    else if k == CXType_Long { Some(TypeKind::Int(IntKind::Long)) } else if k == CXType_ULong { Some(TypeKind::Int(IntKind::ULong)) }
    else if k == CXType_LongLong { Some(TypeKind::Int(IntKind::LongLong)) } else if k == CXType_ULongLong { Some(TypeKind::Int(IntKind::ULongLong)) }
    else if k == CXType_Int128 { Some(TypeKind::Int(IntKind::I128)) } else if k == CXType_UInt128 { Some(TypeKind::Int(IntKind::U128)) }
    else { match float_of(k) { Some(f) => Some(TypeKind::Float(f)), None => None } }
}
pub open spec fn float_of(k: CXTypeKind) -> Option<FloatKind> {
    if k == CXType_Float16 || k == CXType_Half { Some(FloatKind::Float16) } else if k == CXType_Float { Some(FloatKind::Float) }
    else if k == CXType_Double { Some(FloatKind::Double) } else if k == CXType_LongDouble { Some(FloatKind::LongDouble) }
    else if k == CXType_Float128 { Some(FloatKind::Float128) } else { None }
}
"""

UNIT = {
    "name": "builtin_ty",
    "env": [os.path.join(ENV, "builtin_ty_env.rs")],
    "declared_trusted": {r"external_body": 10},
    "items": [
        {"kind": "enum", "file": "bindgen/ir/int.rs", "name": "IntKind", "prefix": "#[derive(Copy, Clone, PartialEq, Eq)]"},
        {"kind": "enum", "file": "bindgen/ir/ty.rs", "name": "FloatKind", "prefix": "#[derive(Copy, Clone, PartialEq, Eq)]"},
        {"kind": "enum", "file": "bindgen/ir/ty.rs", "name": "TypeKind"},
        {"kind": "raw", "label": "spec", "text": SPEC},
        {"kind": "fn", "file": CX, "name": "builtin_type_kind", "impl": r"^impl BindgenContext$", "ret": "r",
         "closure": {"enclosing": "build_builtin_ty", "anchor": "let type_kind = match ty.kind() {", "nth": 0, "stmt": "let",
                     "signature": "fn builtin_type_kind(self_: &BindgenContext, ty: &clang::Type) -> (r: Option<TypeKind>)", "prefix": "{", "suffix": "; Some(type_kind) }"},
         "subst": [
             ('ty.elem_type().expect("Not able to resolve complex type?")', "ty.elem_type().unwrap()", 1, "expect -> unwrap (message dropped)"),
             ('panic!( "Non floating-type complex? {ty:?}, {float_type:?}", )', "vstd::pervasive::unreached()", 0, "R15 panic! (if present)"),
             ("self", "self_", 1, "R18 captured self"),
         ],
         # libclang gives a complex type an element type
         "requires": ["clang::ffi_kind(*ty) == CXType_Complex ==> clang::ffi_elem(*ty).is_some()"],
         "ensures": [
             # C02: every builtin C type is given the bindgen kind of the same name (hence width and signedness)
             "clang::ffi_kind(*ty) != CXType_Complex ==> r == builtin_kind(clang::ffi_kind(*ty), self_.spec_options().use_distinct_char16_t)",
             # a complex type over a floating type is Complex(that float); over anything else (`_Complex int`, a GNU extension
             # clang accepts) it is not a builtin bindgen can express -- and is not a reason to panic (C12)
             "clang::ffi_kind(*ty) == CXType_Complex ==> r == (match float_of(clang::ffi_kind(clang::ffi_elem(*ty).unwrap())) { Some(f) => Some(TypeKind::Complex(f)), None => None })",
         ]},
    ],
}
