"""Unit `link_name` (C04): when may #[link_name] be omitted."""
import os
ENV = os.path.join(os.path.dirname(os.path.dirname(os.path.abspath(__file__))), "env")
CG = "bindgen/codegen/mod.rs"
FN = "bindgen/ir/function.rs"

SPEC = """
// Platform decoration of an undecorated C-level name, per calling convention (Microsoft
// "Decorated Names" for x86: __cdecl `_name`, __stdcall `_name@N`, __fastcall `@name@N`;
// Mach-O: every C symbol gets a leading `_`; ELF: none).  rustc applies the same decoration
// to the Rust item's name, so #[link_name] is unnecessary exactly when the compiler's symbol
// is the Rust name itself or a decoration of it.
pub open spec fn decoration_rule(cc: Option<ClangAbi>) -> Option<(u8, bool)> {
    match cc {
        None => Some((95u8, false)),                                   // globals: `_name`
        Some(ClangAbi::Known(Abi::C)) => Some((95u8, false)),
        Some(ClangAbi::Known(Abi::CUnwind)) => Some((95u8, false)),
        Some(ClangAbi::Known(Abi::Stdcall)) => Some((95u8, true)),     // `_name@<bytes>`
        Some(ClangAbi::Known(Abi::Fastcall)) => Some((64u8, true)),    // `@name@<bytes>`
        _ => None,
    }
}
pub open spec fn is_decoration_of(c: Seq<u8>, m: Seq<u8>, cc: Option<ClangAbi>) -> bool {
    match decoration_rule(cc) {
        None => false,
        Some((prefix, suffix)) => {
            &&& m.len() >= c.len() + 1
            &&& m[0] == prefix
            &&& m.subrange(1, c.len() as int + 1) == c
            &&& (if suffix {
                    let s = m.subrange(c.len() as int + 1, m.len() as int);
                    s.len() >= 2 && s[0] == 64u8 && (forall|i: int| 1 <= i < s.len() ==> is_digit(#[trigger] s[i]))
                 } else { m.len() == c.len() + 1 })
        }
    }
}
"""

UNIT = {
    "name": "link_name",
    "env": [os.path.join(ENV, "link_name_env.rs")],
    "declared_trusted": {r"external_body": 13},
    "items": [
        {"kind": "enum", "file": FN, "name": "Abi", "prefix": "#[derive(Copy, Clone, PartialEq, Eq, Structural)]"},
        {"kind": "enum", "file": FN, "name": "ClangAbi", "prefix": "#[derive(Copy, Clone, PartialEq, Eq, Structural)]"},
        {"kind": "raw", "label": "link_name_spec", "text": SPEC},
        {"kind": "fn", "file": CG, "name": "names_will_be_identical_after_mangling", "ret": "r",
         "subst": [
             ("canonical_name == mangled_name", "str_eq(canonical_name, mangled_name)", 1, "R21"),
             ("canonical_name.as_bytes()", "as_bytes(canonical_name)", 1, "R21"),
             ("mangled_name.as_bytes()", "as_bytes(mangled_name)", 1, "R21"),
             ("&mangled_name[1..=canonical_name.len()] != canonical_name", "slice_ne(slice_incl(mangled_name, 1, canonical_name.len()), canonical_name)", 1, "R21"),
             ("&mangled_name[canonical_name.len() + 1..]", "slice_from(mangled_name, canonical_name.len() + 1)", 1, "R21"),
             ("!suffix[1..].iter().all(u8::is_ascii_digit)", "!all_ascii_digit(slice_from(suffix, 1))", 1, "R21"),
         ],
         "proof_before": [("if suffix[0] != b'@'", """
                let ghost s = suffix@; let ghost t = s.subrange(1, s.len() as int);
                assert((forall|i: int| 0 <= i < t.len() ==> is_digit(#[trigger] t[i])) == (forall|i: int| 1 <= i < s.len() ==> is_digit(#[trigger] s[i]))) by {
                    if forall|i: int| 0 <= i < t.len() ==> is_digit(#[trigger] t[i]) {
                        assert forall|i: int| 1 <= i < s.len() implies is_digit(#[trigger] s[i]) by { assert(t[i - 1] == s[i]); }
                    }
                    if forall|i: int| 1 <= i < s.len() ==> is_digit(#[trigger] s[i]) {
                        assert forall|i: int| 0 <= i < t.len() implies is_digit(#[trigger] t[i]) by { assert(s[i + 1] == t[i]); }
                    }
                }
         """)],
         "ensures": [
             # C04: "link_name emission only when the platform mangling of the Rust name would differ"
             "r == (bytes_of(canonical_name) == bytes_of(mangled_name) || is_decoration_of(bytes_of(canonical_name), bytes_of(mangled_name), call_conv))",
         ]},
    ],
}

# the call site for global variables (let-statement, R18): found and repaired F13 (an overridden link name was not spelled out)
UNIT["items"].append(
    {"kind": "fn", "file": CG, "name": "var_symbol", "impl": r"^impl CodeGenerator for Var$", "ret": "r",
     "closure": {"enclosing": "codegen", "anchor": "let symbol: &str = if let Some(link_name) = self.link_name() {", "nth": 0, "stmt": "let",
                 "signature": "fn var_symbol<'a>(self_: &'a Var, canonical_name: &'a String, attrs: &mut Vec<Tok>) -> (r: &'a str)", "prefix": "{", "suffix": "; symbol }"},
     "subst": [
         ("attributes::link_name::<false>(", "attr_link_name(", 1, "R4"),
         ("self.mangled_name().unwrap_or_else(|| self.name())", "(match self_.mangled_name() { Some(m) => m, None => self_.name() })", 1, "R7"),
         ("utils::names_will_be_identical_after_mangling( &canonical_name,", "names_will_be_identical_after_mangling( string_as_str(canonical_name),", 1, "module path; &String -> &str"),
         ("canonical_name.as_str()", "string_as_str(canonical_name)", 1, "R21"),
         ("self", "self_", 1, "R18 captured self"),
     ],
     "ensures": [
         # C04: the binding refers to the symbol it is supposed to: an overridden link name is always spelled out ...
         "self_.s_link_name().is_some() ==> r == self_.s_link_name().unwrap() && final(attrs)@.len() == old(attrs)@.len() + 1 "
         "&& final(attrs)@.subrange(0, old(attrs)@.len() as int) == old(attrs)@ && link_name_of(final(attrs)@.last()) == bytes_of(self_.s_link_name().unwrap())",
         # ... otherwise the compiler's symbol is named unless it is the Rust name or its platform decoration
         "self_.s_link_name().is_none() ==> ({ let ln = (match self_.s_mangled_name() { Some(m) => m, None => self_.s_name() }); "
         "let same = bytes_of_string(canonical_name) == bytes_of(ln) || is_decoration_of(bytes_of_string(canonical_name), bytes_of(ln), None); "
         "if same { final(attrs)@ == old(attrs)@ && bytes_of(r) == bytes_of_string(canonical_name) } "
         "else { r == ln && final(attrs)@.len() == old(attrs)@.len() + 1 && link_name_of(final(attrs)@.last()) == bytes_of(ln) } })",
     ]})

# Known finding F9 (witness): the decision has no idea of the target.  On an object format that adds no
# prefix (ELF), `_name` is NOT the decoration of `name`: the only name rustc links without #[link_name]
# is the Rust name itself.  This contract is expected to FAIL on the unchanged tree.
import copy as _copy
_w = _copy.deepcopy(next(i for i in UNIT["items"] if i.get("name") == "names_will_be_identical_after_mangling"))
_w["rename"] = "names_will_be_identical_after_mangling__elf"
_w["rename_tag"] = "@undecorated_target_F9"
_w["witness"] = True
_w["ensures"] = ["r ==> bytes_of(canonical_name) == bytes_of(mangled_name)"]
UNIT["items"].append(_w)
