"""Unit `cexpr_tokens` (C05): the tokens of a macro body reach the evaluator complete and under their own kind."""
import os
ENV = os.path.join(os.path.dirname(os.path.dirname(os.path.abspath(__file__))), "env")

UNIT = {
    "name": "cexpr_tokens",
    "env": [os.path.join(ENV, "cexpr_tokens_env.rs")],
    "declared_trusted": {r"external_body": 3},
    "items": [
        # C05 ("a macro that bindgen cannot evaluate faithfully must be omitted rather than emitted with a different value"): the
        # expression cexpr evaluates is the macro's own token sequence - every token clang reports except comments, under the kind
        # clang reports, with its spelling.  Dropping an operator keyword (`sizeof`, a cast's type) would leave a DIFFERENT
        # well-formed expression.
        {"kind": "fn", "file": "bindgen/clang.rs", "name": "as_cexpr_token", "impl": r"^impl ClangToken$", "impl_header": "impl ClangToken", "impl_name": "ClangToken", "ret": "r",
         "subst": [("self.spelling().to_vec().into_boxed_slice()", "boxed_bytes(self.spelling())", 0, "R21 owned copy of a byte slice (if present)")],
         "ensures": [
             "self.kind == CXToken_Comment ==> r.is_none()",
             "self.kind == CXToken_Punctuation ==> r.is_some() && r.unwrap().kind == cexpr::token::Kind::Punctuation",
             "self.kind == CXToken_Keyword ==> r.is_some() && r.unwrap().kind == cexpr::token::Kind::Keyword",
             "self.kind == CXToken_Identifier ==> r.is_some() && r.unwrap().kind == cexpr::token::Kind::Identifier",
             "self.kind == CXToken_Literal ==> r.is_some() && r.unwrap().kind == cexpr::token::Kind::Literal",
             "r.is_some() ==> r.unwrap().raw@ == self.s_spelling()",
         ]},
    ],
}
