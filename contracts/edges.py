"""Unit `edges`: per-edge-kind predicates (C07 subscriptions, C09 traversal)."""
import os
ENV = os.path.join(os.path.dirname(os.path.dirname(os.path.abspath(__file__))), "env")
TV = "bindgen/ir/traversal.rs"
AN = "bindgen/ir/analysis/"

SPEC = """
// edge kinds whose target is always a type (from the Trace impls: ir/ty.rs,
// comp.rs, template.rs, function.rs, item.rs)
pub open spec fn is_type_edge(k: EdgeKind) -> bool {
    k == EdgeKind::TemplateParameterDefinition || k == EdgeKind::TemplateArgument || k == EdgeKind::TemplateDeclaration
    || k == EdgeKind::BaseMember || k == EdgeKind::Field || k == EdgeKind::InnerType || k == EdgeKind::FunctionReturn
    || k == EdgeKind::FunctionParameter || k == EdgeKind::VarType || k == EdgeKind::TypeReference
}
// READ-SETS (hand-derived from each analysis' `constrain`, see DESIGN §3 C07):
// the kinds of edge along which the rule looks up a neighbour's fact.
//   Pointer/Reference/Array/Vector/BlockPointer/Alias/ResolvedTypeRef/TemplateAlias inner -> TypeReference
//   CompInfo::base_members -> BaseMember ; CompInfo::fields -> Field
//   TemplateInstantiation::template_definition -> TemplateDeclaration ; ::template_arguments -> TemplateArgument
pub open spec fn reads_has_vtable(k: EdgeKind) -> bool {
    k == EdgeKind::TypeReference || k == EdgeKind::BaseMember || k == EdgeKind::TemplateDeclaration
}
pub open spec fn reads_has_destructor(k: EdgeKind) -> bool {
    k == EdgeKind::TypeReference || k == EdgeKind::BaseMember || k == EdgeKind::Field
    || k == EdgeKind::TemplateDeclaration || k == EdgeKind::TemplateArgument
}
pub open spec fn reads_has_float(k: EdgeKind) -> bool {
    k == EdgeKind::TypeReference || k == EdgeKind::BaseMember || k == EdgeKind::Field
    || k == EdgeKind::TemplateDeclaration || k == EdgeKind::TemplateArgument
}
pub open spec fn reads_type_param_in_array(k: EdgeKind) -> bool { reads_has_float(k) }
pub open spec fn reads_sizedness(k: EdgeKind) -> bool {
    k == EdgeKind::TypeReference || k == EdgeKind::BaseMember || k == EdgeKind::TemplateDeclaration
}
// CannotDerive::constrain reads through consider_edge_comp / _typeref / _tmpl_inst; their
// union over all traits (proved against the real fns by Kani in-crate, C07/C08):
pub open spec fn reads_cannot_derive(k: EdgeKind) -> bool {
    k == EdgeKind::BaseMember || k == EdgeKind::Field || k == EdgeKind::TypeReference
    || k == EdgeKind::TemplateArgument || k == EdgeKind::TemplateDeclaration
}
"""


def ce(file, impl, rename, reads):
    return {"kind": "fn", "file": AN + file, "name": "consider_edge", "impl": impl, "ret": "r",
            "rename": rename, "rename_tag": "", "label": rename,
            "ensures": ["%s(kind) ==> r" % reads, "kind == EdgeKind::Generic ==> !r"]}


UNIT = {
    "name": "edges",
    "env": [os.path.join(ENV, "edges_env.rs")],
    "declared_trusted": {r"external_body": 12},
    "items": [
        {"kind": "enum", "file": TV, "name": "EdgeKind", "prefix": "#[derive(Copy, Clone, PartialEq, Eq, Structural)]"},
        {"kind": "struct", "file": TV, "name": "Edge", "prefix": "#[derive(Copy, Clone)]"},
        {"kind": "raw", "label": "edges_spec", "text": SPEC},
        # ---- C09 ----
        {"kind": "fn", "file": TV, "name": "all_edges", "ret": "r", "ensures": ["r"]},
        {"kind": "fn", "file": TV, "name": "only_inner_type_edges", "ret": "r",
         "ensures": ["r == (edge.kind == EdgeKind::InnerType)"]},
        {"kind": "fn", "file": TV, "name": "codegen_edges", "ret": "r",
         "ensures": [
             # "everything those items transitively need": every type edge is followed iff types are generated
             "is_type_edge(edge.kind) ==> r == ctx.spec_options().codegen_config.s_types()",
             "edge.kind == EdgeKind::InnerVar ==> r == ctx.spec_options().codegen_config.s_vars()",
             "edge.kind == EdgeKind::Method ==> r == ctx.spec_options().codegen_config.s_methods()",
             "edge.kind == EdgeKind::Constructor ==> r == ctx.spec_options().codegen_config.s_constructors()",
             "edge.kind == EdgeKind::Destructor ==> r == ctx.spec_options().codegen_config.s_destructors()",
             "edge.kind == EdgeKind::Generic ==> r == ctx.spec_item(edge.to).s_enabled(ctx)",
         ]},
        # ---- C07 (ii): every edge kind a rule reads along is subscribed ----
        {"kind": "fn", "file": AN + "derive.rs", "name": "consider_edge_default", "ret": "r",
         "ensures": ["reads_cannot_derive(kind) ==> r", "kind == EdgeKind::Generic ==> !r"]},
        ce("has_vtable.rs", r"^impl HasVtableAnalysis<'_>$", "has_vtable_consider_edge", "reads_has_vtable"),
        ce("has_destructor.rs", r"^impl HasDestructorAnalysis<'_>$", "has_destructor_consider_edge", "reads_has_destructor"),
        ce("has_float.rs", r"^impl HasFloat<'_>$", "has_float_consider_edge", "reads_has_float"),
        ce("has_type_param_in_array.rs", r"^impl HasTypeParameterInArray<'_>$", "has_type_param_in_array_consider_edge", "reads_type_param_in_array"),
        ce("sizedness.rs", r"^impl SizednessAnalysis<'_>$", "sizedness_consider_edge", "reads_sizedness"),
    ],
}
