"""Unit `codegen_guards` (C12): two places where a header clang accepts used to abort generation (F29, F30)."""
import os
ENV = os.path.join(os.path.dirname(os.path.dirname(os.path.abspath(__file__))), "env")

UNIT = {
    "name": "codegen_guards",
    "env": [os.path.join(ENV, "codegen_guards_env.rs")],
    "declared_trusted": {r"external_body": 21},
    "items": [
        # BindgenContext::instantiate_template: splitting the flattened argument list never reaches below its start
        # (statements R18, `until` mode; the subtraction and Vec::drain are the obligations)
        {"kind": "fn", "file": "bindgen/ir/context.rs", "name": "take_sub_args", "impl": r"^impl BindgenContext$", "impl_nth": 0, "ret": "r",
         "closure": {"enclosing": "instantiate_template", "anchor": "let args_len = args.len();", "nth": 0, "stmt": "until", "until": "sub_args.reverse();",
                     "signature": "fn take_sub_args(args: &mut Vec<TypeId>, num_expected_template_args: usize) -> (r: Option<Vec<TypeId>>)",
                     "prefix": "{", "suffix": "Some(sub_args) }"},
         "subst": [(r"re:args\s*\.drain\(([^;]*?)\.\.\)\s*\.collect\(\)", r"vec_drain_from(args, \1)", 1, "R21 Vec::drain(from..).collect()")],
         "ensures": ["r.is_some() == (old(args)@.len() >= num_expected_template_args)",
                     "r.is_some() ==> r.unwrap()@.len() == num_expected_template_args"]},
        # Method::codegen_method: the signature of a method is a function type - or the method is left out, never a panic
        # (a member function declared through a typedef of a function type has an alias as signature)
        {"kind": "fn", "file": "bindgen/codegen/mod.rs", "name": "method_signature", "impl": r"^impl Method$", "ret": "r",
         "closure": {"enclosing": "codegen_method", "anchor": "let TypeKind::Function(ref signature) =", "nth": 0, "stmt": "let",
                     "signature": "fn method_signature<'a>(signature_item: &'a Item, function: &Function) -> (r: Option<&'a FunctionSig>)",
                     "prefix": "{", "suffix": "; Some(signature) }"},
         "subst": [("return;", "return None;", 0, "R18: `return` from the enclosing function = no signature (if present)"),
                   (r're:panic!\(\s*"[^"]*"\s*\)', "vstd::pervasive::unreached()", 0, "R15 panic! (if present)")],
         "ensures": ["r.is_some() == (signature_item.s_type().s_kind() is Function)"]},
        # Type::from_clang_ty, constant-array arm: an element type that cannot be expressed does not abort
        {"kind": "fn", "file": "bindgen/ir/ty.rs", "name": "constant_array_arm", "impl": r"^impl Type$", "impl_nth": 1, "ret": "r",
         "closure": {"enclosing": "from_clang_ty", "anchor": "CXType_ConstantArray => {", "nth": 0,
                     "signature": "fn constant_array_arm(ty: &clang::Type, location: clang::Cursor, ctx: &mut BindgenContext) -> (r: TypeKind)"},
         "subst": [
             (r"re:(?s)Item::from_ty\((.*?)\)\s*\.unwrap_or_else\(\|_\|\s*\{(.*?)\}\)\s*;", r"match Item::from_ty(\1) { Ok(t_) => t_, Err(_) => {\2} };", 0, "R7 Result::unwrap_or_else (if present)"),
             (r're:\.expect\(\s*"[^"]*"\s*\)', ".unwrap()", 0, "expect -> unwrap (message dropped; if present)"),
         ],
         # libclang: a constant array type has an element type and a length
         "requires": ["clang::s_elem(*ty).is_some()", "clang::s_num_elements(*ty).is_some()"],
         "ensures": ["r is Array"]},
        {"kind": "fn", "file": "bindgen/ir/ty.rs", "name": "incomplete_array_arm", "impl": r"^impl Type$", "impl_nth": 1, "ret": "r",
         "closure": {"enclosing": "from_clang_ty", "anchor": "CXType_IncompleteArray => {", "nth": 0,
                     "signature": "fn incomplete_array_arm(ty: &clang::Type, location: clang::Cursor, ctx: &mut BindgenContext) -> (r: TypeKind)"},
         "subst": [
             (r"re:(?s)Item::from_ty\((.*?)\)\s*\.unwrap_or_else\(\|_\|\s*\{(.*?)\}\)\s*;", r"match Item::from_ty(\1) { Ok(t_) => t_, Err(_) => {\2} };", 0, "R7 Result::unwrap_or_else (if present)"),
             (r're:\.expect\(\s*"[^"]*"\s*\)', ".unwrap()", 0, "expect -> unwrap (message dropped; if present)"),
         ],
         "requires": ["clang::s_elem(*ty).is_some()"],
         "ensures": ["r is Array"]},
        {"kind": "fn", "file": "bindgen/ir/ty.rs", "name": "variable_array_arm", "impl": r"^impl Type$", "impl_nth": 1, "ret": "r",
         "closure": {"enclosing": "from_clang_ty", "anchor": "CXType_VariableArray | CXType_DependentSizedArray => {", "nth": 0,
                     "signature": "fn variable_array_arm(ty: &clang::Type, location: clang::Cursor, ctx: &mut BindgenContext) -> (r: TypeKind)"},
         "subst": [
             (r"re:(?s)Item::from_ty\((.*?)\)\s*\.unwrap_or_else\(\|_\|\s*\{(.*?)\}\)\s*;", r"match Item::from_ty(\1) { Ok(t_) => t_, Err(_) => {\2} };", 0, "R7 Result::unwrap_or_else (if present)"),
             (r're:\.expect\(\s*"[^"]*"\s*\)', ".unwrap()", 0, "expect -> unwrap (message dropped; if present)"),
         ],
         "requires": ["clang::s_elem(*ty).is_some()"],
         "ensures": ["r is Pointer"]},
        # BindgenContext::process_replacements, the statement that records a replacement (if-let statement R18; `continue` of the
        # enclosing loop = return from the statement): a `replaces="X"` annotation is honoured only when its item exists in the
        # item table (else its type could not be parsed) AND is a declared type - struct/union, enum, typedef (an annotation
        # on a function lands on the signature type, which may mention X: found and repaired F44); ids become type ids only then
        {"kind": "fn", "file": "bindgen/ir/context.rs", "name": "record_replacement", "impl": r"^impl BindgenContext$", "impl_nth": 0,
         "closure": {"enclosing": "process_replacements", "anchor_re": r"(?m)^\s*if let Some\(replacement\) = replacement \{", "nth": 0, "stmt": True,
                     "signature": "fn record_replacement(self_: &BindgenContext, id: ItemId, replacement: Option<&ItemId>, replacements: &mut Vec<(TypeId, TypeId)>)",
                     "prefix": "{", "suffix": "}"},
         "subst": [(r"re:(?<![\w.])self(?![\w(:])", "self_", 0, "R18 captured self"),
                   (r"re:\bcontinue\b", "return", 0, "R18 `continue` of the enclosing loop ends the statement")],
         # `id` comes from the iteration over the item table and was seen to be a type
         "requires": ["self_.s_exists(id) && self_.s_is_type(id)"],
         "ensures": [
             "final(replacements)@.len() <= old(replacements)@.len() + 1",
             "final(replacements)@.len() == old(replacements)@.len() + 1 ==> replacement.is_some() && self_.s_exists(*replacement.unwrap()) && self_.s_declared_type(*replacement.unwrap()) && final(replacements)@.last() == (TypeId(id), TypeId(*replacement.unwrap()))",
             # and every declared type named by an annotation IS recorded
             "replacement.is_some() && *replacement.unwrap() != id && self_.s_exists(*replacement.unwrap()) && self_.s_declared_type(*replacement.unwrap()) ==> final(replacements)@.len() == old(replacements)@.len() + 1",
         ]},
    ],
}
