"""Unit `enum_consts` (C12): naming the constants of an unnamed / constified enum never unwraps a missing parent name."""
import os
ENV = os.path.join(os.path.dirname(os.path.dirname(os.path.abspath(__file__))), "env")
CG = "bindgen/codegen/mod.rs"
EI = r"^impl CodeGenerator for Enum$"

UNIT = {
    "name": "enum_consts",
    "env": [os.path.join(ENV, "enum_consts_env.rs")],
    "declared_trusted": {r"external_body": 13},
    "items": [
        # the parent's name is looked up for every enum that is not at the top level
        {"kind": "fn", "file": CG, "name": "parent_name_of_enum", "impl": EI, "ret": "r",
         "closure": {"enclosing": "codegen", "anchor": "let parent_canonical_name =", "nth": 0, "stmt": "let",
                     "signature": "fn parent_name_of_enum(ctx: &BindgenContext, item: &Item, enum_ty: &Type, is_toplevel: bool) -> (r: Option<PName>)",
                     "prefix": "{", "suffix": "; parent_canonical_name }"},
         "ensures": ["!is_toplevel ==> r.is_some()"]},
        # a repeated value in a Rust-style enum: the alias constant's name
        {"kind": "fn", "file": CG, "name": "duplicate_value_constant_name", "impl": EI, "ret": "r",
         "closure": {"enclosing": "codegen", "anchor": "let mangled_name =", "nth": 0, "stmt": "let",
                     "signature": "fn duplicate_value_constant_name(ctx: &BindgenContext, item: &Item, enum_ty: &Type, is_toplevel: bool, parent_canonical_name: &Option<PName>, variant_name: Name) -> (r: Name)",
                     "prefix": "{", "suffix": "; mangled_name }"},
         "subst": [('Cow::Owned(format!("{parent_name}_{variant_name}"))', "prefixed_name(parent_name, &variant_name)", 1, "R4 string construction")],
         # what parent_name_of_enum establishes
         "requires": ["!is_toplevel ==> parent_canonical_name.is_some()"]},
        # an unnamed or constified variant: the constant's name
        {"kind": "fn", "file": CG, "name": "variant_constant_name", "impl": EI, "ret": "r",
         "closure": {"enclosing": "codegen", "anchor": "let mangled_name =", "nth": 1, "stmt": "let",
                     "signature": "fn variant_constant_name(ctx: &BindgenContext, item: &Item, enum_ty: &Type, is_toplevel: bool, parent_canonical_name: &Option<PName>, variant_name: Name) -> (r: Name)",
                     "prefix": "{", "suffix": "; mangled_name }"},
         "subst": [(('Ident::new( &format!("{parent_name}_{variant_name}"),', "Span::call_site(), )"), "prefixed_name(parent_name, &variant_name)", 1, "R4 identifier construction")],
         "requires": ["!is_toplevel ==> parent_canonical_name.is_some()"]},
    ],
}
