#!/usr/bin/env python3
"""False-alarm self-test: behaviour-preserving edits (mutants/benign.json) applied to a
scratch copy of /repo must never produce a VIOLATION (exit 0, or exit 2 = lost anchor)."""
import json
import os
import re
import shutil
import subprocess
import sys
import tempfile

ben = json.load(open("/verif/mutants/benign.json"))
only = set(sys.argv[1:])
base = tempfile.mkdtemp(prefix="verif_ben_")
bad = 0
try:
    for m in ben:
        if only and m["id"] not in only:
            continue
        repo = os.path.join(base, "repo")
        shutil.rmtree(repo, ignore_errors=True)
        shutil.copytree("/repo", repo, ignore=shutil.ignore_patterns("target", ".git"))
        p = os.path.join(repo, m["file"])
        t = open(p).read()
        if t.count(m["old"]) != 1:
            print(m["id"], "anchor found %d times (edit skipped)" % t.count(m["old"]))
            continue
        open(p, "w").write(t.replace(m["old"], m["new"]))
        env = dict(os.environ, VERIF_REPO=repo, VERIF_OUT_DIR=os.path.join(base, "out"))
        r = subprocess.run(["/verif/check", m["property"]], cwd="/verif", env=env, capture_output=True, text=True)
        lines = [l[:200] for l in r.stdout.splitlines() if re.match(r"VIOLATION|UNDECIDED", l)]
        verdict = {0: "quiet", 1: "FALSE ALARM", 2: "undecided (lost anchor / tool limit)"}.get(r.returncode, "exit %d" % r.returncode)
        bad += r.returncode == 1
        print(m["id"], m["property"], verdict, "-", m["note"], lines[:1])
finally:
    shutil.rmtree(base, ignore_errors=True)
    tag = re.sub(r"[^A-Za-z0-9]+", "_", os.path.join(base, "repo"))[-40:]
    shutil.rmtree(os.path.join("/verif/.work", "alt_" + tag), ignore_errors=True)
sys.exit(1 if bad else 0)
