"""Run Verus on an extracted unit, map diagnostics to named obligations."""
import importlib.util
import autoenv
import json
import os
import re

import vextract
from core import (WITNESS, CANARY, CONTRACT, DISCHARGED, FAILED, LEMMA, REPO, ROOT, UNDECIDED, WORK, Ob, run)
from rsparse import LostAnchor

SEMANTIC = [
    (r"postcondition not satisfied", "post"),
    (r"precondition not satisfied", "pre@callee"),
    (r"invariant not satisfied", "inv"),
    (r"possible arithmetic underflow/overflow", "overflow"),
    (r"possible division by zero", "div0"),
    (r"assertion failed", "assert"),
    (r"decreases not satisfied", "decreases"),
    (r"possible bit shift underflow/overflow", "overflow"),
    (r"recommendation not met", None),      # not an error class we count
    (r"index out of bounds|possible out.of.bounds", "bounds"),
    (r"unwrap.*None|called.*on.*None", "unwrap"),
]


def load_spec(unit):
    path = os.path.join(ROOT, "contracts", unit + ".py")
    sp = importlib.util.spec_from_file_location("contracts_" + unit, path)
    mod = importlib.util.module_from_spec(sp)
    sp.loader.exec_module(mod)
    return mod.UNIT


def _run_verus(path, rlimit=30, timeout=900):
    cmd = ["verus", path, "--output-json", "--time", "--multiple-errors", "20", "--error-format=json",
           "--rlimit", str(rlimit), "--no-report-long-running"]
    rc, out, wall, to = run(cmd, cwd=os.path.dirname(path), timeout=timeout)
    diags, js = [], None
    # stdout (json blob) and stderr (one json diagnostic per line) are interleaved in `out`
    buf = []
    depth = 0
    for line in out.splitlines():
        if depth == 0 and line.startswith('{"$message_type"'):
            try:
                diags.append(json.loads(line))
            except ValueError:
                pass
            continue
        if depth == 0 and line.strip() == "{":
            buf = [line]
            depth = 1
            continue
        if depth:
            buf.append(line)
            if line.rstrip() == "}":
                try:
                    js = json.loads("\n".join(buf))
                    depth = 0
                except ValueError:
                    pass
    return rc, out, wall, to, diags, js, " ".join(cmd)


def _fn_times(js):
    t = {}
    try:
        for mod in js["times-ms"]["smt"]["smt-run-module-times"]:
            for f in mod.get("function-breakdown", []):
                t[f["function"].split("::", 1)[-1]] = (f["time-micros"] / 1e6, f.get("success", True))
    except (KeyError, TypeError):
        pass
    return t


def verify_unit(unit, lemma_items=(), want_canary=True):
    """-> (obligations, checker_cmd, extraction_log, unit_path)"""
    spec = load_spec(unit)
    obs = []
    os.makedirs(os.path.join(WORK, "verus"), exist_ok=True)
    path = os.path.join(WORK, "verus", unit + ".rs")
    try:
        b = vextract.build_unit(spec, REPO)
    except (LostAnchor, OSError) as e:
        obs.append(Ob("%s::extraction" % unit, CONTRACT, UNDECIDED, "verus/z3", detail="lost anchor: %s" % e))
        return obs, "verus (not run: lost anchor)", [], path
    text = b.text()
    with open(path, "w") as f:
        f.write(text)
    rc, out, wall, to, diags, js, cmd = _run_verus(path)
    # rule R30: getters the env does not offer are added as uninterpreted accessors (appended, so byte offsets keep their meaning)
    auto_log = []
    auto_text = ""
    for _attempt in range(3):
        missing = autoenv.missing_methods(diags)
        if not missing:
            break
        extra, elog = autoenv.make(REPO, [mm for mm in missing if ("R30 auto accessor %s::%s" % mm) not in [e["item"] for e in auto_log]])
        if not extra:
            break
        auto_log += elog
        auto_text += extra
        with open(path, "a") as f:
            f.write(extra)
        rc, out, wall, to, diags, js, cmd = _run_verus(path)
    times = _fn_times(js)
    errs = [d for d in diags if d.get("level") == "error" and not d["message"].startswith("aborting")]
    # classify ---------------------------------------------------------------
    failed = {}        # (item, clause) -> list of diag summaries
    undecided = []     # tool-level problems (whole unit)
    undecided_items = {}   # tool-level problems confined to one function (rlimit)
    for d in errs:
        msg = d["message"]
        kind = None
        for rx, k in SEMANTIC:
            if re.search(rx, msg):
                kind = k
                break
        spans = d.get("spans", [])
        prim = [s for s in spans if s.get("is_primary")] or spans
        item = None
        where = []
        clause = None
        for s in prim + [s for s in spans if not s.get("is_primary")]:
            o = b.origin_at(s["byte_start"])
            it = b.item_at(s["byte_start"])
            if it and item is None and (kind != "pre@callee" or s.get("is_primary")):
                item = it
            if o[0] == "repo":
                where.append("%s:%d" % (o[1], o[2]))
            elif o[0] == "rewrite":
                where.append("%s:%d (rewritten by %s)" % (o[3], o[4], o[2]))
            elif o[0] == "contract":
                where.append("contract %s %s" % (o[1], o[2]))
                if kind in ("post", "inv", "decreases") and clause is None and re.match(r"(post|inv|decreases)", o[2]):
                    clause = o[2]
                    if kind == "post":
                        # the failing clause names the function under contract
                        item = next((i for i in b.items if i["item"] == o[1]), item)
        if kind is None or item is None:
            # a tool-level problem: confined to one function if the span says which
            it0 = None
            for sp in prim:
                it0 = it0 or b.item_at(sp["byte_start"])
            if it0 is not None and re.search(r"rlimit|Resource limit|timed out", msg):
                undecided_items.setdefault(it0["item"], []).append("%s [%s]" % (msg, "; ".join(where)))
            else:
                undecided.append("%s [%s]" % (msg, "; ".join(where)))
            continue
        if kind == "post":
            cl = clause or "post"
        elif kind == "inv":
            cl = (clause.split(".")[0] if clause else "inv")
        elif kind == "decreases":
            cl = clause or "decreases"
        else:
            cl = "safety"
        failed.setdefault((item["item"], cl), []).append({"description": msg, "kind": kind, "where": where,
                                                          "rendered": (d.get("rendered") or "")[:1500]})
    tool_fail = to or js is None or (js and js["verification-results"].get("encountered-vir-error")) or \
        (rc != 0 and not errs) or bool(undecided)
    vr = (js or {}).get("verification-results", {})
    # obligations ------------------------------------------------------------
    lemma_set = set(lemma_items)
    for it in b.items:
        tm, ok = times.get(it["fn_name"], times.get(it["item"], (0.0, None)))
        n = max(1, len(it["clauses"]))
        for cl in it["clauses"]:
            name = "%s::%s::%s" % (unit, it["item"], cl)
            fn = "%s:%d %s" % (it["file"], it["repo_line"], it["item"])
            kind = WITNESS if it.get("witness") else (LEMMA if it["item"] in lemma_set else CONTRACT)
            key = (it["item"], cl)
            # an `inv#k.i` failure is reported under inv#k
            fl = failed.get(key) or (failed.get((it["item"], cl.split(".")[0])) if cl.startswith("inv") else None)
            if fl:
                obs.append(Ob(name, kind, FAILED, "verus/z3", time_s=tm / n, fn=fn,
                              detail="\n".join(x["rendered"] for x in fl),
                              location="; ".join(fl[0]["where"]),
                              failed_checks=[{"description": x["description"], "where": x["where"]} for x in fl]))
            elif it["item"] in undecided_items:
                obs.append(Ob(name, kind, UNDECIDED, "verus/z3", fn=fn, detail="; ".join(undecided_items[it["item"]])[:600]))
            elif tool_fail:
                obs.append(Ob(name, kind, UNDECIDED, "verus/z3", fn=fn,
                              detail=("timeout" if to else "verus could not decide the unit: " + "; ".join(undecided)[:600] or out[-400:])))
            else:
                obs.append(Ob(name, kind, DISCHARGED, "verus/z3", time_s=tm / n, fn=fn))
    # failures attributed to something that is not an item clause we enumerate
    known_keys = {(it["item"], cl) for it in b.items for cl in it["clauses"]} | \
                 {(it["item"], cl.split(".")[0]) for it in b.items for cl in it["clauses"]}
    for (item, cl), fl in failed.items():
        if (item, cl) not in known_keys:
            obs.append(Ob("%s::%s::%s" % (unit, item, cl), CONTRACT, FAILED, "verus/z3",
                          detail="\n".join(x["rendered"] for x in fl), location="; ".join(fl[0]["where"]),
                          failed_checks=[{"description": x["description"], "where": x["where"]} for x in fl]))
    # env lemmas/spec proofs: errors outside any item make the unit undecided
    meta = {"verified_fns": vr.get("verified"), "errors": vr.get("errors"), "wall_s": round(wall, 2),
            "unit_file": path, "unit_sha": __import__("hashlib").sha256(text.encode()).hexdigest()[:16]}
    # vacuity canary -----------------------------------------------------------
    if want_canary and not tool_fail:
        obs.append(_canary(unit, spec, b, auto_text))
    # assumption scan ------------------------------------------------------------
    scan = {k: len(re.findall(k, text)) for k in (r"\bassume\(", r"\badmit\(", r"external_body", r"assume_specification", r"\bexternal\b")}
    meta["assumption_scan"] = scan
    declared = spec.get("declared_trusted", {})
    for k, n in scan.items():
        if n > declared.get(k, 0):
            obs.append(Ob("%s::assumption_scan" % unit, CANARY, FAILED, "scan",
                          detail="undeclared trusted construct %s: %d found, %d declared" % (k, n, declared.get(k, 0))))
    if auto_log:
        meta["R30_auto_accessors"] = [e["item"] for e in auto_log]
    return obs, cmd, b.log + auto_log + [meta], path


def _canary(unit, spec, b, extra_text=""):
    """every function under contract, with `ensures false` added, must FAIL:
    shows its requires are satisfiable and the end of its body is reachable"""
    import copy
    sp2 = copy.deepcopy(spec)
    names = []
    items2 = []
    for it in sp2["items"]:
        items2.append(it)
        if it["kind"] == "fn" and not it.get("no_canary") and not it.get("witness"):
            c = copy.deepcopy(it)
            c["ensures"] = list(c.get("ensures", [])) + ["false"]
            c["rename"] = (it.get("rename") or it["name"]) + "__canary"
            c["rename_tag"] = "#canary"
            items2.append(c)
            names.append(it.get("label", (it.get("impl_name", "") + "::" if it.get("impl_name") else "") + it["name"]) + "#canary")
    sp2["items"] = items2
    try:
        b2 = vextract.build_unit(sp2, REPO)
    except LostAnchor as e:
        return Ob("%s::canary" % unit, CANARY, FAILED, "verus/z3", detail=str(e))
    path = os.path.join(WORK, "verus", unit + "_canary.rs")
    with open(path, "w") as f:
        f.write(b2.text() + extra_text)
    rc, out, wall, to, diags, js, cmd = _run_verus(path, rlimit=10)
    hit = set()
    for d in diags:
        if d.get("level") == "error" and "postcondition not satisfied" in d["message"]:
            for s in d.get("spans", []):
                o = b2.origin_at(s["byte_start"])
                if o[0] == "contract" and o[2].startswith("post#") and s.get("text") and "false" in s["text"][0]["text"]:
                    hit.add(o[1])
    missing = [n for n in names if n not in hit]
    if missing:
        return Ob("%s::canary" % unit, CANARY, FAILED, "verus/z3", time_s=wall,
                  detail="`ensures false` was NOT refuted for: %s (contradictory requires or unreachable end)" % ", ".join(missing))
    return Ob("%s::canary" % unit, CANARY, DISCHARGED, "verus/z3", time_s=wall,
              extra={"functions_with_reachable_post": len(names)})
