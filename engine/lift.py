"""Rule L1 (only for bitfield_unit.rs): lift `<const BIT_OFFSET: usize, const
BIT_WIDTH: u8>` of the four const-generic entry points to two value parameters
placed directly after the receiver.  Bodies stay byte-identical (checked).
A symbolic const generic cannot be given to a model checker; a value
parameter with the same name can.  `N` stays a real const generic.
"""
import difflib
import hashlib
import os
import re

from rsparse import LostAnchor

SIG = re.compile(
    r"fn\s+(?P<name>get_const|set_const|raw_get_const|raw_set_const)\s*<\s*"
    r"const\s+BIT_OFFSET\s*:\s*usize\s*,\s*const\s+BIT_WIDTH\s*:\s*u8\s*,?\s*>\s*\(\s*"
    r"(?P<recv>&self|&mut self|this\s*:\s*\*const\s+Self|this\s*:\s*\*mut\s+Self)\s*,?"
)


def lift(src_path, out_path):
    src = open(src_path, encoding="utf-8").read()
    names = []

    def repl(m):
        names.append(m.group("name"))
        # keep the line count so diagnostics map 1:1 onto the original file
        return "fn %s(%s, BIT_OFFSET: usize, BIT_WIDTH: u8,%s" % (
            m.group("name"), m.group("recv"), "\n" * m.group(0).count("\n"))

    out = SIG.sub(repl, src)
    if sorted(names) != sorted(["get_const", "set_const", "raw_get_const", "raw_set_const"]):
        raise LostAnchor("L1: expected the 4 const-generic entry points in %s, matched %r" % (src_path, names))
    # every changed line must lie in a signature (no `{`-body line differs)
    a, b = src.splitlines(), out.splitlines()
    changed = [l for l in difflib.unified_diff(a, b, lineterm="", n=0) if l[:1] in "+-" and l[:3] not in ("+++", "---")]
    for l in changed:
        t = l[1:].strip()
        if not re.match(r"^(pub |const |unsafe |fn |&self|&mut self|this:|const BIT_|>\(|\) ->|\)|[A-Za-z_]+: [a-z0-9]+,?|\) \{|-> u64 \{)", t) and t not in ("", ">(", ") {", ") -> u64 {"):
            raise LostAnchor("L1: unexpected changed line outside a signature: %r" % l)
    os.makedirs(os.path.dirname(out_path), exist_ok=True)
    with open(out_path, "w", encoding="utf-8") as f:
        f.write(out)
    return {
        "rule": "L1 const-generic lift",
        "matches": len(names),
        "changed_lines": len(changed),
        "src_sha256": hashlib.sha256(src.encode()).hexdigest()[:16],
        "out_sha256": hashlib.sha256(out.encode()).hexdigest()[:16],
    }


if __name__ == "__main__":
    import json
    import sys
    print(json.dumps(lift(sys.argv[1], sys.argv[2])))
