"""Per-property assembly: which units run, with which meta data."""
import time

import units_path
import units_verus
from core import finish

GLOBAL_TRUST = [
    "rustc / Kani 0.68 / CBMC 6.11 / CaDiCaL; Verus 0.2026.09.13 / Z3",
    "host = target = x86_64 little-endian, usize = 64 bit (cfg!(target_endian=\"big\") branches and the 32-bit usize path are unverified)",
]


def c03(tier, seed):
    t0 = time.time()
    ns = [2, 9, 16] if tier == "quick" else list(range(1, 17))
    spec = units_path.bitfield_spec(ns)
    obs, cmd, prep = units_path.run_spec(spec, timeout=3000 if tier == "quick" else 7200)
    meta = {
        "checker_cmd": cmd,
        "trusted_base": GLOBAL_TRUST + [
            "reference model: storage [u8;N] as little-endian u128 (N<=16), field = (X>>off)&mask, store = splice (kani_path/src/bitfield_contracts.rs)",
            "rule L1 (engine/lift.py): const generics BIT_OFFSET/BIT_WIDTH lifted to value parameters, bodies byte-identical (checked per run)",
            "kani::Arbitrary for __BindgenBitfieldUnit<[u8;N]> = arbitrary storage bytes (needed by stub_verified havoc)",
        ],
        "functions_under_contract": [
            "bindgen/codegen/bitfield_unit.rs: get, set, raw_get, raw_set, get_bit, set_bit, raw_get_bit, raw_set_bit, extract_bit, change_bit (via callers), get_const, set_const, raw_get_const, raw_set_const",
        ],
        "extraction": [prep],
        "assumptions": [
            "preconditions = the functions' own debug_assert!s (bit_width<=64, bit_offset/8 < len, (off+w+7)/8 <= len); that bitfields_to_allocation_units (ir/comp.rs) establishes them is NOT verified",
            "region split: contracts are claimed on (bit_offset%8)+bit_width <= 64; the complement is known finding F1 (witness harnesses)",
            "complete for N in the listed set: all inputs kani::any(); loops bounded by operand width (<=9 iterations) with unwinding assertions on (unwind 18)",
            "storage sizes checked this run: N in %r (quick: subset; thorough: 1..=16); units longer than 16 bytes are not covered" % ns,
        ],
        "unverified": [
            "ir/comp.rs bitfields_to_allocation_units (unit allocation from clang offsets)",
            "codegen/mod.rs accessor emission: cast chain, transmute, sign extension of signed bit-fields",
            "big-endian branches; 32-bit usize fast path",
        ],
    }
    return finish("C03", tier, seed, obs, meta, t0, replay_fn=units_path.replay("C03"))


def c14(tier, seed):
    t0 = time.time()
    obs, cmd, prep = units_path.run_spec(units_path.features_spec(), timeout=3000)
    meta = {
        "checker_cmd": cmd,
        "trusted_base": GLOBAL_TRUST + [
            "gating oracle transcribed from the Rust release notes (kani_path/src/features_contracts.rs), dated: newest gated release 1.82, editions 2018/2021/2024",
        ],
        "functions_under_contract": [
            "bindgen/features.rs: RustTarget::stable, RustTarget::minor, RustTarget::is_compatible, RustFeatures::new, RustFeatures::new_with_latest_edition, RustEdition::is_available, RustTarget::latest_edition, RustEdition::from_str (literal inputs), LATEST_STABLE_RUST, EARLIEST_STABLE_RUST",
        ],
        "extraction": [{"mode": "path", "file": "bindgen/features.rs", "rewrites": 0}],
        "assumptions": [
            "complete: minor, patch range over all of u64, edition over all 3 values, nightly flag; loops are over <=3 editions / 4-byte string literals (unwind 8 with unwinding assertions)",
            "RustTarget::from_str and RustTarget::default() (rustc --version probing) are not under contract",
        ],
        "unverified": [
            "that each code-generation site consults its flag (codegen/mod.rs, helpers.rs raw_type, ir/function.rs FunctionSig::abi)",
            "edition validation inside Builder::generate (lib.rs)",
        ],
    }
    return finish("C14", tier, seed, obs, meta, t0, replay_fn=units_path.replay("C14"))


LAYOUT_TRUST = [
    "extraction rules R1-R10 (engine/vextract.py): logging blanked, token macros -> env constructors (R4 table in contracts/layout.py), pub(crate)->pub, private fields->pub",
    "env/layout_env.rs: Rust reference layout rules for the emitted type tokens (u8..u128, [T;n], #[repr(C)] wrapper, #[repr(C, align(N))] wrapper), transcribed",
    "uninterpreted context reads: ctx.options(), ctx.target_pointer_size() in {2,4,8}, comp.is_union(), Type::layout (sound: proved for every value)",
    "cmp::max/min = the obvious functions (env mod cmp)",
    "magnitudes: sizes, offsets, alignments < 2^60; alignments reported by libclang are 0 or powers of two (valid_layout)",
]
LAYOUT_FNS = ["bindgen/codegen/struct_layout.rs: align_to, StructLayoutTracker::{padding_bytes, align_to_latest_field, padding_field, saw_vtable, saw_base, saw_bitfield_unit, saw_field_with_layout, add_tail_padding, pad_struct, requires_explicit_align}",
              "bindgen/ir/layout.rs: Layout::{known_type_for_size, new, for_size_internal, for_size}",
              "bindgen/codegen/helpers.rs: blob, integer_type, bitfield_unit"]


def _replay(prop):
    kr, vr = units_path.replay(prop), units_verus.replay(prop)

    def f(ob):
        return kr(ob) if ob.backend.startswith("kani") else vr(ob)
    return f


def _verus_prop(prop, tier, seed, unit_filters, meta_extra, extra_obs=None):
    t0 = time.time()
    obs, cmds, logs = [], [], []
    for unit, fn_rx, cl_rx in unit_filters:
        o, cmd, log, path = units_verus.run_unit(unit)
        obs += units_verus.select(o, fn_rx, cl_rx)
        cmds.append(cmd)
        logs += [dict(l, unit=unit) for l in log]
    if extra_obs:
        eo, ecmd = extra_obs()
        obs += eo
        cmds.append(ecmd)
    meta = {"checker_cmd": " ; ".join(cmds), "extraction": logs}
    meta.update(meta_extra)
    meta["trusted_base"] = GLOBAL_TRUST + meta.get("trusted_base", [])
    return finish(prop, tier, seed, obs, meta, t0, replay_fn=_replay(prop))


def c02(tier, seed):
    return _verus_prop("C02", tier, seed, [("layout", None, None)], {
        "trusted_base": LAYOUT_TRUST,
        "functions_under_contract": LAYOUT_FNS,
        "assumptions": [
            "placement theorem (saw_field_with_layout post#4) region: not packed, not a union, clang reported the field offset (multiple of 8 bits, >= running offset, multiple of the field alignment), the Rust struct built so far ends at the tracker's running offset and that is a multiple of the previous field's alignment; the Rust type of the field has the alignment clang reports",
            "size theorem (pad_struct post#3) region: C size >= running offset and multiple of the C alignment <= 8, last field not a bit-field, packed only with alignment 1, and NOT (padding >= 8 emitted with alignment 8 from an offset/length that is not a multiple of 8) -- that sub-region is unverified (no real input known that reaches it)",
            "libclang's numbers (Type::layout, field offsets) are the C compiler's",
        ],
        "unverified": [
            "CompInfo::codegen: the order of saw_* calls, repr/packed attribute selection (CompInfo::is_packed, already_packed), that returned padding tokens are emitted in place",
            "StructLayoutTracker::saw_field (array 'ultra hack', needs live IR), ::new",
            "packed structs, unions and fields after a bit-field unit are covered by invariant + safety only",
            "int_kind_rust_type / float_kind_rust_type / Enum::codegen repr (need a live context); C++ tail-padding reuse",
        ]})


def c10(tier, seed):
    return _verus_prop("C10", tier, seed, [("layout", r"::(blob|Layout::known_type_for_size|Layout::for_size_internal|Layout::for_size|integer_type|bitfield_unit|Layout::new|align_to)::", None)], {
        "trusted_base": LAYOUT_TRUST,
        "functions_under_contract": ["bindgen/codegen/helpers.rs: blob, integer_type, bitfield_unit", "bindgen/ir/layout.rs: Layout::{known_type_for_size, new, for_size_internal, for_size}"],
        "assumptions": [
            "opaque-blob half of C10 only: for every Layout with size % max(align,1) == 0 (what libclang reports for a complete type) the emitted blob type has exactly that size and alignment (blob post#0-#2), on both the ffi_safe and the padding path",
        ],
        "unverified": [
            "Item::is_blocklisted, IsOpaque, that opaque items stop tracing, blocklisted_type_implements_trait (IR/regex-bound): the blocklist half of C10 is not decided",
        ]})


def _from_str_witnesses():
    spec = [dict(harness="features_contracts::" + h, name="features::RustTarget::from_str::witness(%s)" % h.split("witness_")[1],
                 kind="bounded", fn="bindgen/features.rs:RustTarget::from_str (concrete inputs only)")
            for h in ("from_str_witness_nightly_underflow", "from_str_witness_nightly_underflow_patch", "from_str_witness_accepts")]
    obs, cmd, prep = units_path.run_spec(spec, timeout=900)
    return obs, cmd


def c12(tier, seed):
    units = [("layout", None, r"^(safety|decreases.*)$")]
    return _verus_prop("C12", tier, seed, units, {
        "trusted_base": LAYOUT_TRUST + ["alloc::fmt::format stubbed in the from_str witness harnesses (message text irrelevant)"],
        "functions_under_contract": LAYOUT_FNS,
        "assumptions": [
            "panic-freedom (no arithmetic overflow/underflow, division by zero, unwrap on None, failed precondition of a callee) and loop termination of the functions under contract, under the preconditions inv() && small() && valid_layout(..)",
            "RustTarget::from_str: three concrete-input witness harnesses only (bounded, not counted as proved)",
        ],
        "bounds": "from_str witnesses: concrete strings \"1.0-nightly\", \"1.0.0-nightly\", \"1.83.1-nightly\", \"nightly\", \"1.71\"",
        "unverified": [
            "the several hundred expect/unwrap/unreachable!/assert! sites whose preconditions are shapes of the libclang AST; termination and stack depth of the IR walkers; error paths of Builder::generate (file system, libclang)",
        ]}, extra_obs=_from_str_witnesses)


PROPS = {"C02": c02, "C03": c03, "C10": c10, "C12": c12, "C14": c14}
