"""Per-property assembly: which units run, with which meta data."""
import time

import units_path
from core import finish

GLOBAL_TRUST = [
    "rustc / Kani 0.68 / CBMC 6.11 / CaDiCaL; Verus 0.2026.09.13 / Z3",
    "host = target = x86_64 little-endian, usize = 64 bit (cfg!(target_endian=\"big\") branches and the 32-bit usize path are unverified)",
]


def c03(tier, seed):
    t0 = time.time()
    ns = [2, 9, 16] if tier == "quick" else list(range(1, 17))
    spec = units_path.bitfield_spec(ns)
    obs, cmd, prep = units_path.run_spec(spec, timeout=3000 if tier == "quick" else 7200)
    meta = {
        "checker_cmd": cmd,
        "trusted_base": GLOBAL_TRUST + [
            "reference model: storage [u8;N] as little-endian u128 (N<=16), field = (X>>off)&mask, store = splice (kani_path/src/bitfield_contracts.rs)",
            "rule L1 (engine/lift.py): const generics BIT_OFFSET/BIT_WIDTH lifted to value parameters, bodies byte-identical (checked per run)",
            "kani::Arbitrary for __BindgenBitfieldUnit<[u8;N]> = arbitrary storage bytes (needed by stub_verified havoc)",
        ],
        "functions_under_contract": [
            "bindgen/codegen/bitfield_unit.rs: get, set, raw_get, raw_set, get_bit, set_bit, raw_get_bit, raw_set_bit, extract_bit, change_bit (via callers), get_const, set_const, raw_get_const, raw_set_const",
        ],
        "extraction": [prep],
        "assumptions": [
            "preconditions = the functions' own debug_assert!s (bit_width<=64, bit_offset/8 < len, (off+w+7)/8 <= len); that bitfields_to_allocation_units (ir/comp.rs) establishes them is NOT verified",
            "region split: contracts are claimed on (bit_offset%8)+bit_width <= 64; the complement is known finding F1 (witness harnesses)",
            "complete for N in the listed set: all inputs kani::any(); loops bounded by operand width (<=9 iterations) with unwinding assertions on (unwind 18)",
            "storage sizes checked this run: N in %r (quick: subset; thorough: 1..=16); units longer than 16 bytes are not covered" % ns,
        ],
        "unverified": [
            "ir/comp.rs bitfields_to_allocation_units (unit allocation from clang offsets)",
            "codegen/mod.rs accessor emission: cast chain, transmute, sign extension of signed bit-fields",
            "big-endian branches; 32-bit usize fast path",
        ],
    }
    return finish("C03", tier, seed, obs, meta, t0, replay_fn=units_path.replay("C03"))


def c14(tier, seed):
    t0 = time.time()
    obs, cmd, prep = units_path.run_spec(units_path.features_spec(), timeout=3000)
    meta = {
        "checker_cmd": cmd,
        "trusted_base": GLOBAL_TRUST + [
            "gating oracle transcribed from the Rust release notes (kani_path/src/features_contracts.rs), dated: newest gated release 1.82, editions 2018/2021/2024",
        ],
        "functions_under_contract": [
            "bindgen/features.rs: RustTarget::stable, RustTarget::minor, RustTarget::is_compatible, RustFeatures::new, RustFeatures::new_with_latest_edition, RustEdition::is_available, RustTarget::latest_edition, RustEdition::from_str (literal inputs), LATEST_STABLE_RUST, EARLIEST_STABLE_RUST",
        ],
        "extraction": [{"mode": "path", "file": "bindgen/features.rs", "rewrites": 0}],
        "assumptions": [
            "complete: minor, patch range over all of u64, edition over all 3 values, nightly flag; loops are over <=3 editions / 4-byte string literals (unwind 8 with unwinding assertions)",
            "RustTarget::from_str and RustTarget::default() (rustc --version probing) are not under contract",
        ],
        "unverified": [
            "that each code-generation site consults its flag (codegen/mod.rs, helpers.rs raw_type, ir/function.rs FunctionSig::abi)",
            "edition validation inside Builder::generate (lib.rs)",
        ],
    }
    return finish("C14", tier, seed, obs, meta, t0, replay_fn=units_path.replay("C14"))


PROPS = {"C03": c03, "C14": c14}
