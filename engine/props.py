"""Per-property assembly: which units run, with which meta data."""
import os
import re
import time

import units_incrate
import units_path
import units_verus
from core import finish

GLOBAL_TRUST = [
    "rustc / Kani 0.68 / CBMC 6.11 / CaDiCaL; Verus 0.2026.09.13 / Z3",
    "host = target = x86_64 little-endian, usize = 64 bit (cfg!(target_endian=\"big\") branches and the 32-bit usize path are unverified)",
]


def c03(tier, seed):
    t0 = time.time()
    ns = [2, 9, 16] if tier == "quick" else list(range(1, 17))
    spec = units_path.bitfield_spec(ns)
    obs, cmd, prep = units_path.run_spec(spec, timeout=3000 if tier == "quick" else 7200)
    vo, vcmd, vlog, _ = units_verus.run_unit("bf_alloc")
    obs += vo
    lo, lcmd, llog, _ = units_verus.run_unit("layout")
    obs += units_verus.select(lo, r"::(pad_to_bitfield_unit|saw_bitfield_unit|padding_field|bitfield_unit|align_to_latest_field|saw_field_with_layout|member_layout_for_tracker|saw_base)::", None, keep_meta=False)
    po, pcmd, plog, _ = units_verus.run_unit("packed")
    obs += units_verus.select(po, r"::CompInfo::is_packed::", None, keep_meta=False)
    so, scmd, slog, _ = units_verus.run_unit("bf_unit_start")
    obs += so
    ao, acmd, alog, _ = units_verus.run_unit("bf_accessors")
    obs += ao
    go_, gcmd_, glog_, _ = units_verus.run_unit("bf_getters")
    obs += go_
    bo_, bcmd_, blog_, _ = units_verus.run_unit("base_fields")
    obs += bo_
    cmd = cmd + " ; " + vcmd + " ; " + lcmd + " ; " + pcmd + " ; " + scmd + " ; " + acmd + " ; " + gcmd_ + " ; " + bcmd_
    prep = dict(prep, bf_alloc_unit=[dict(l, unit="bf_alloc") for l in vlog])
    meta = {
        "checker_cmd": cmd,
        "trusted_base": GLOBAL_TRUST + [
            "reference model: storage [u8;N] as little-endian u128 (N<=16), field = (X>>off)&mask, store = splice (kani_path/src/bitfield_contracts.rs)",
            "rule L1 (engine/lift.py): const generics BIT_OFFSET/BIT_WIDTH lifted to value parameters, bodies byte-identical (checked per run)",
            "kani::Arbitrary for __BindgenBitfieldUnit<[u8;N]> = arbitrary storage bytes (needed by stub_verified havoc)",
            "unit bf_alloc: generics instantiated (R12: I = Vec<RawField>, E = FieldSink), `for` over a by-value Vec desugared to a cursor (R13, 3 trusted env functions), `assert!(ctx.collected_typerefs())` taken as precondition (R2), a type annotation on `vec![]` (R14); env RawField/Bitfield/BitfieldUnit/Field carry only the data the function touches",
            "ABI rule placed_ok transcribed from the Itanium C++ ABI / SysV psABI bit-field text; bit-field base types have alignment in {1,2,4,8,16}, size <= 16 and width <= 8*size (C11 6.7.2.1)",
        ],
        "functions_under_contract": [
            "bindgen/codegen/bitfield_unit.rs: get, set, raw_get, raw_set, get_bit, set_bit, raw_get_bit, raw_set_bit, extract_bit, change_bit (via callers), get_const, set_const, raw_get_const, raw_set_const",
            "bindgen/ir/comp.rs: bitfields_to_allocation_units (+ nested flush_allocation_unit), three contracts: (1) no clang offsets (class templates): every emitted bit-field satisfies the ABI placement rule, fields keep their order without overlap, offset_into_unit + width <= 8 * unit size; (2) clang offsets, every field ends at or after the earlier ones (structs): offset_into_unit + width <= 8 * unit size; (3) clang offsets otherwise (unions): witness of known finding F7",
            "bindgen/ir/comp.rs: CompInfo::is_packed (whether bit-fields are allocated with packed rules; callback iteration desugared by rule R16)",
            "bindgen/codegen/struct_layout.rs: StructLayoutTracker::pad_to_bitfield_unit, saw_bitfield_unit (unit layout; the unit lands at the clang offset of its first bit-field), align_to_latest_field and saw_field_with_layout (the running offset that placement is computed from: never rounded up inside a packed record), the prelude of saw_field (member_layout_for_tracker, statements R18: the size a plain member adds to the running offset is its C size, also for an array of over-aligned elements - a later bit-field unit is padded from that offset), saw_base (after a base class the running offset is the end of that base placed at its own alignment)",
            "bindgen/codegen/mod.rs: the accessor-emitting statement of <Bitfield as FieldCodegen>::codegen and Bitfield::extend_ctor_impl (unit bf_accessors, rule R4q): getter, setter, raw getter, raw setter (wrapper-union and const-generic forms) and the constructor step all address the bit-field's own unit field, offset_into_unit and width, in that order",
            "bindgen/codegen/mod.rs: the body of the base-class loop of <CompInfo as CodeGenerator>::codegen (unit base_fields, block R18): the layout tracker hears of a base class exactly when a field is emitted for it - an empty or virtual base does not move the running offset that the padding in front of a later bit-field unit is computed from",
            "bindgen/ir/comp.rs: CompInfo::compute_bitfield_units (unit bf_getters): the allocation of bit-field units runs with exactly the packing CompInfo::is_packed reports",
            "bindgen/ir/comp.rs: Bitfield::{offset, bitfield_width, is_public, offset_into_unit, width} (unit bf_getters): code generation reads the stored clang offset, width and offset-into-unit unchanged - for zero-width separators too",
            "bindgen/codegen/mod.rs: the unit-start closure of <BitfieldUnit as FieldCodegen>::codegen (unit bf_unit_start, rule R18 brace-less closure: unit start = clang offset of the field - its offset into the unit)",
        ],
        "extraction": [prep],
        "assumptions": [
            "preconditions = the functions' own debug_assert!s (bit_width<=64, bit_offset/8 < len, (off+w+7)/8 <= len); bitfields_to_allocation_units is proved to establish offset+width <= 8*size in the no-clang-offset mode; in the clang-offset mode it is proved for non-decreasing offsets that are already ABI-placed (assumed of libclang) when every field ends at or after the earlier ones; the complement (unions) is known finding F7",
            "region split: contracts are claimed on (bit_offset%8)+bit_width <= 64; the complement is known finding F1 (witness harnesses)",
            "complete for N in the listed set: all inputs kani::any(); loops bounded by operand width (<=9 iterations) with unwinding assertions on (unwind 18)",
            "storage sizes checked this run: N in %r (quick: subset; thorough: 1..=16); units longer than 16 bytes are not covered" % ns,
        ],
        "unverified": [
            "ir/comp.rs bitfields_to_allocation_units in the clang-offset mode; raw_fields_to_fields_and_bitfield_units (grouping of consecutive bit-fields)",
            "codegen/mod.rs accessor emission: the cast chain / transmute inside the templates beyond 'no template sign-extends' (known finding F18), the names of the accessors; that the unit-start closure is applied to the unit's FIRST bit-field (`bfields.first()`, slice API outside the extracted closure)",
            "big-endian branches; 32-bit usize fast path",
        ],
    }
    sens, sob = _sens("C03", tier)
    if sens is not None:
        meta["sensitivity"] = sens
    return finish("C03", tier, seed, obs + sob, meta, t0, replay_fn=_replay("C03"))


def c14(tier, seed):
    t0 = time.time()
    obs, cmd, prep = units_path.run_spec(units_path.features_spec(), timeout=3000)
    vo, vcmd, vlog, _ = units_verus.run_unit("fn_abi")
    obs += vo
    so, scmd, slog, _ = units_verus.run_unit("var_string")
    obs += so
    ro, rcmd, rlog, _ = units_verus.run_unit("raw_type")
    obs += ro
    eo, ecmd, elog, _ = units_verus.run_unit("edition")
    obs += eo
    go, gcmd, glog, _ = units_verus.run_unit("gates")
    obs += go
    lo, lcmd, llog, _ = units_verus.run_unit("layout_tests")
    obs += units_verus.select(lo, r"::field_offset_check::", r"^(post#2|safety)$")
    fo, fcmd, flog, _ = units_verus.run_unit("flexarray")
    obs += fo
    cmd = cmd + " ; " + vcmd + " ; " + scmd + " ; " + rcmd + " ; " + ecmd + " ; " + gcmd + " ; " + lcmd + " ; " + fcmd
    prep = [prep] + [dict(l, unit="fn_abi") for l in vlog] + [dict(l, unit="var_string") for l in slog]
    meta = {
        "checker_cmd": cmd,
        "trusted_base": GLOBAL_TRUST + [
            "gating oracle transcribed from the Rust release notes (kani_path/src/features_contracts.rs), dated: newest gated release 1.82, editions 2018/2021/2024",
        ],
        "functions_under_contract": [
            "bindgen/features.rs: RustTarget::stable, RustTarget::minor, RustTarget::is_compatible, RustFeatures::new, RustFeatures::new_with_latest_edition, RustEdition::is_available, RustTarget::latest_edition, RustEdition::from_str (literal inputs), LATEST_STABLE_RUST, EARLIEST_STABLE_RUST",
            "bindgen/ir/function.rs: FunctionSig::abi, FunctionSig::is_variadic (Verus unit fn_abi: the ABI gating site; override lookup = one uninterpreted accessor)",
            "bindgen/options/mod.rs: Builder::rust_edition (unit edition; found inside the options! macro invocation, rule R34 for `mut self`): the edition asked for is recorded as given, whatever the target is at that moment",
            "bindgen/lib.rs: BindgenOptions::set_rust_target (unit edition): choosing a target leaves the chosen edition (and the features) alone, so Builder::generate sees the pair the user asked for in whatever order the two builder calls were made",
            "bindgen/lib.rs: the feature-synchronisation / edition-validation expression of Builder::generate (Verus unit edition, block extracted by rule R18): unsupported edition -> BindgenError::UnsupportedEdition, otherwise RustFeatures::new(target, edition) / new_with_latest_edition(target)",
            "bindgen/codegen/helpers.rs: ast_ty::raw_type (Verus unit raw_type: ::core::ffi::X only when core_ffi_c)",
            "bindgen/codegen/mod.rs: the `let safety = ..` statements of <Var as CodeGenerator>::codegen and <Function as CodeGenerator>::codegen (Verus unit gates, let-statements extracted by rule R18): `unsafe extern` exactly when the target has unsafe_extern_blocks",
            "bindgen/codegen/mod.rs: CompInfo::generate_flexarray (unit flexarray, whole function; every quote! template becomes the generic env constructor of rule R4u whose feature flags are computed from the template's own text against the table of gated std APIs): the --flexarray-dst helpers spell to_raw_parts / from_raw_parts(_mut) / Layout::for_value_raw only when the target has ptr_metadata resp. layout_for_ptr",
            "bindgen/codegen/mod.rs: the `let compile_time = ..` statement of <CompInfo as CodeGenerator>::codegen (unit gates, R18): true only when the target has offset_of; and the per-member closure of the layout assertions (unit layout_tests, field_offset_check): the `offset_of!` spelling only in the compile_time form",
            "bindgen/codegen/mod.rs: the VarType::String arm of <Var as CodeGenerator>::codegen (Verus unit var_string: block extracted by rule R18; each token template is an env constructor recording the gated feature its text uses) + BindgenContext::trait_prefix",
        ],
        "extraction": [{"mode": "path", "file": "bindgen/features.rs", "rewrites": 0}] + prep,
        "assumptions": [
            "complete: minor, patch range over all of u64, edition over all 3 values, nightly flag; loops are over <=3 editions / 4-byte string literals (unwind 8 with unwinding assertions)",
            "RustTarget::from_str and RustTarget::default() (rustc --version probing) are not under contract",
        ],
        "unverified": [
            "any code-generation site outside the units listed above; the table of gated std API names of unit flexarray (transcribed from the std docs: ptr_metadata = to_raw_parts, from_raw_parts(_mut), metadata, Pointee, DynMetadata; layout_for_ptr = for_value_raw, size_of_val_raw, align_of_val_raw)",
            "RustTarget::default() (rustc --version probing)",
        ],
    }
    sens, sob = _sens("C14", tier)
    if sens is not None:
        meta["sensitivity"] = sens
    return finish("C14", tier, seed, obs + sob, meta, t0, replay_fn=_replay("C14"))


LAYOUT_TRUST = [
    "extraction rules R1-R10 (engine/vextract.py): logging blanked, token macros -> env constructors (R4 table in contracts/layout.py), pub(crate)->pub, private fields->pub",
    "env/layout_env.rs: Rust reference layout rules for the emitted type tokens (u8..u128, [T;n], #[repr(C)] wrapper, #[repr(C, align(N))] wrapper), transcribed",
    "uninterpreted context reads: ctx.options(), ctx.target_pointer_size() in {2,4,8}, comp.is_union(), Type::layout (sound: proved for every value)",
    "cmp::max/min = the obvious functions (env mod cmp)",
    "magnitudes: sizes, offsets, alignments < 2^60; alignments reported by libclang are 0 or powers of two (valid_layout)",
]
LAYOUT_FNS = ["bindgen/codegen/struct_layout.rs: align_to, StructLayoutTracker::{padding_bytes, align_to_latest_field, padding_field, saw_vtable, saw_base, saw_bitfield_unit, saw_field_with_layout, add_tail_padding, pad_struct, requires_explicit_align}",
              "bindgen/ir/layout.rs: Layout::{known_type_for_size, new, for_size_internal, for_size}",
              "bindgen/codegen/helpers.rs: blob, integer_type, bitfield_unit"]


def _sens(prop, tier):
    """thorough tier only: sensitivity self-test on scratch copies (engine/sensitivity.py)"""
    if tier != "thorough" or os.environ.get("VERIF_REPO"):
        return None, []
    import sensitivity
    from core import CANARY, DISCHARGED, FAILED, Ob
    res = sensitivity.run(prop)
    missed = [r["id"] for r in res if r["result"] == "MISSED"]
    ob = Ob("%s::sensitivity_selftest" % prop, CANARY, FAILED if missed else DISCHARGED, "selftest",
            detail=("seeded edits no longer detected: " + ", ".join(missed)) if missed else "",
            extra={"edits_tried": len(res), "detected": sum(1 for r in res if r["result"].startswith("detected"))})
    return res, [ob]


def _replay(prop):
    kr, ki, vr = units_path.replay(prop), units_incrate.replay(prop), units_verus.replay(prop)

    def f(ob):
        if ob.backend.startswith("kani"):
            h = ob.extra.get("harness", "")
            return ki(ob) if "verif_kani" in h else kr(ob)
        return vr(ob)
    return f


def _verus_prop(prop, tier, seed, unit_filters, meta_extra, extra_obs=None):
    t0 = time.time()
    obs, cmds, logs = [], [], []
    for unit, fn_rx, cl_rx in unit_filters:
        o, cmd, log, path = units_verus.run_unit(unit)
        obs += units_verus.select(o, fn_rx, cl_rx)
        cmds.append(cmd)
        logs += [dict(l, unit=unit) for l in log]
    if extra_obs:
        eo, ecmd = extra_obs()
        obs += eo
        cmds.append(ecmd)
    meta = {"checker_cmd": " ; ".join(cmds), "extraction": logs}
    meta.update(meta_extra)
    meta["trusted_base"] = GLOBAL_TRUST + meta.get("trusted_base", [])
    sens, sob = _sens(prop, tier)
    if sens is not None:
        meta["sensitivity"] = sens
    return finish(prop, tier, seed, obs + sob, meta, t0, replay_fn=_replay(prop))


def c02(tier, seed):
    return _verus_prop("C02", tier, seed, [("layout", None, None), ("prim_types", None, None), ("packed", None, None), ("repr", None, None), ("clang_layout", None, None), ("union_repr", None, None), ("builtin_ty", None, None), ("bf_alloc", r"::bitfields_to_allocation_units(@clang_offsets)?::", None), ("type_layout", None, None), ("known_layouts", None, None), ("base_fields", None, None), ("bf_getters", r"::CompInfo::compute_bitfield_units::", None)], {
        "trusted_base": LAYOUT_TRUST,
        "functions_under_contract": LAYOUT_FNS + [
            "bindgen/codegen/helpers.rs: ast_ty::int_kind_rust_type, ast_ty::float_kind_rust_type (unit prim_types: fixed-width kinds get a Rust integer of the same width and sign; platform kinds the std::os::raw alias documented as equivalent; wchar_t / long double / __float128 a type of exactly the C size)",
            "bindgen/codegen/mod.rs: the `packed` representation-hint decision of CompInfo::codegen (unit repr, statement extracted by rule R18: packed(N) exactly for packed, non-opaque records whose packed is not redundant next to an explicit align)",
            "bindgen/codegen/mod.rs: the tail of CompInfo::codegen that completes size and alignment (unit layout, statements extracted by rule R18 and verified against the contracts of pad_struct / requires_explicit_align / blob): an opaque record is one blob of exactly the C size/alignment with repr(align); a struct gets the padding of the size theorem appended in place and repr(align(N)) (packed for N == 1) whenever its fields under-align; a non-Rust union is one blob of exactly the C size/alignment; and the realisation of the explicit alignment (repr(align(N)), or a leading zero-length array of a primitive whose alignment is exactly N for bit-field records with N <= 8)",
            "bindgen/clang.rs: Cursor::offset_of_field, Type::{clang_size_of, clang_align_of, size, align, fallible_size, fallible_align, fallible_layout} (unit clang_layout: the numbers handed to the IR are libclang's 64-bit values, unchanged, for every non-negative value; negative codes are errors; the two documented work-arounds)",
            "bindgen/codegen/mod.rs: utils::type_from_named (unit prim_types: the <stdint.h>/<stddef.h> typedef names map to the Rust primitive of the same width and signedness)",
            "bindgen/ir/context.rs: the kind-mapping statement of BindgenContext::build_builtin_ty (unit builtin_ty, let-statement R18): every libclang builtin type kind gets the bindgen kind of the same C type; complex only over floating types (found and repaired F12)",
            "bindgen/codegen/mod.rs: the body of the base-class loop of <CompInfo as CodeGenerator>::codegen (unit base_fields, shared with C03): a base without storage gets no field and leaves the tracker alone; one with storage gets exactly one field and one saw_base",
            "bindgen/ir/comp.rs: CompInfo::compute_bitfield_units (unit bf_getters, shared with C03): bit-field units are allocated with exactly the packing CompInfo::is_packed reports (a #pragma pack(2) struct is packed although its alignment is 2)",
            "bindgen/ir/comp.rs: CompInfo::each_known_field_layout (unit known_layouts; the FnMut callback is a sink, rule R16): the #pragma pack detection of is_packed is handed the layout of EVERY member whose layout is known, in order - zero-sized members (flexible arrays) included, they still carry an alignment",
            "bindgen/ir/ty.rs: Type::layout (unit type_layout, shared with C06; rule R31): the layout every padding / alignment / blob computation starts from is clang's whenever clang computed one, and otherwise only an exact derivation",
            "bindgen/ir/comp.rs: CompInfo::is_rust_union and bindgen/codegen/mod.rs: wrap_union_field_if_needed (unit union_repr): a Rust `union` only for defined unions with --untagged-union whose members are all Copy or may be ManuallyDrop-wrapped; in it every member keeps the size/alignment of its C type; otherwise members are zero-sized markers over the blob of the tail statement",
            "bindgen/ir/comp.rs: bitfields_to_allocation_units (unit bf_alloc, shared with C03: its two struct contracts): a bit-field unit is as large as the bits allocated to it demand, which is what places the members that follow it",
            "bindgen/ir/comp.rs: CompInfo::already_packed (unit packed: Some(true) exactly when dropping `packed` moves no field), CompInfo::is_packed (attribute, or a member more aligned than the record, or a vtable in a 1-aligned record)"],
        "assumptions": [
            "placement theorem (saw_field_with_layout post#4) region: not packed, not a union, clang reported the field offset (multiple of 8 bits, >= running offset, multiple of the field alignment), the Rust struct built so far ends at the tracker's running offset and that is a multiple of the previous field's alignment; the Rust type of the field has the alignment clang reports",
            "size theorem (pad_struct post#3) region: C size >= running offset and multiple of the C alignment <= 8, last field not a bit-field, packed only with alignment 1, and NOT (padding >= 8 emitted with alignment 8 from an offset/length that is not a multiple of 8) -- that sub-region is unverified (no real input known that reaches it)",
            "libclang's numbers (Type::layout, field offsets) are the C compiler's",
        ],
        "unverified": [
            "CompInfo::codegen: the order of saw_* calls in the field loop and that the padding tokens returned there are emitted in place (the tail after the loop IS under contract)",
            "StructLayoutTracker::new; how CompInfo::from_ty discovers members (closures handed to libclang's visit: which cursor is a field, which unnamed record is a member of its own - seed S109 is missed there)",
            "packed structs, unions and fields after a bit-field unit are covered by invariant + safety only",
            "raw_type's prefix/core/std selection (trusted to name the alias), Enum::codegen repr translation; the zero-sized/_address statement of CompInfo::codegen; C++ tail-padding reuse",
        ]})


def c10(tier, seed):
    return _verus_prop("C10", tier, seed, [("layout", r"::(blob|Layout::known_type_for_size|Layout::for_size_internal|Layout::for_size|integer_type|bitfield_unit|Layout::new|align_to|comp_tail_layout)::", None), ("opaque", None, None), ("opaque_alias", None, None), ("module_lines", None, None), ("union_repr", r"::union_field_can_copy::", None), ("vouch", None, None), ("impl_debug", r"::(array_arm|instantiation_arm)::", None), ("base_storage", None, None), ("trace_impls", r"::Type::should_be_traced_unconditionally::", None), ("lattice_constrain", r"::HasVtableAnalysis::", None), ("prim_types", r"::(BindgenContext::is_stdint_type|type_from_named)::", None),
                                           ("constrain", r"::CannotDerive::constrain_type::", None), ("blocklist", None, None), ("repr", None, None)], {
        "trusted_base": LAYOUT_TRUST,
        "functions_under_contract": ["bindgen/ir/ty.rs: Type::should_be_traced_unconditionally (unit trace_impls, shared with C09): pointers, references, arrays, functions, compounds, instantiations and resolved references are traced even when the item is opaque, so an opaque type reachable only through an array is still emitted as a blob", "bindgen/ir/context.rs: BindgenContext::lookup_sizedness and bindgen/ir/comp.rs: Base::requires_storage, Base::is_virtual (unit base_storage): a base class gets a field of its own unless it is virtual or zero-sized, and a type outside the analysed set (a blocklisted class) counts as zero-sized only when the C compiler gives it no size or it is an empty class - so the use of a blocklisted type as a base still names it (found and repaired F28)", "bindgen/codegen/helpers.rs: blob, integer_type, bitfield_unit", "bindgen/ir/layout.rs: Layout::{known_type_for_size, new, for_size_internal, for_size}",
                                     "bindgen/codegen/mod.rs: the --module-raw-line statement of <Module as CodeGenerator>::codegen (unit module_lines, if-let statement R18): every line the user gave for a module is emitted in order and makes the module count as non-empty, so the user's definition of a blocklisted type survives in a namespace whose items are all blocklisted",
                                     "bindgen/ir/comp.rs: the per-member test of CompInfo::is_rust_union (unit union_repr, brace-less closure R18): whether a union member may sit bare in a Rust `union` is asked of its DECLARED type - a blocklisted typedef is not assumed Copy because the type it aliases is",
                                     "bindgen/codegen/mod.rs: the aliased-type statement of the TemplateAlias | Alias arm of <Type as CodeGenerator>::codegen (unit opaque_alias, let-statement R18): an opaque typedef is an alias for the blob of the typedef's OWN layout (an `aligned` attribute on the typedef changes size and alignment) with no template parameters; a typedef of an inexpressible type falls back to the same blob",
                                     "bindgen/codegen/mod.rs: Item::process_before_codegen and <Item as CodeGenerator>::codegen (unit blocklist): nothing at all is emitted for a blocklisted item, for an item disabled for code generation, or a second time for the same item - whatever the per-kind generators would do",
                                     "bindgen/ir/item.rs: Item::is_blocklisted; <Item as IsOpaque>::is_opaque, <Type as IsOpaque>::is_opaque (unit opaque: opaque exactly by annotation, by an --opaque-type name match, or through the type: Opaque kind, opaque instantiation / compound / referenced type)",
                                     "bindgen/codegen/mod.rs: the tail of CompInfo::codegen (unit layout, statement R18): an opaque record with a known layout gets exactly one field, a blob of exactly the C size and alignment, and repr(align)",
                                     "bindgen/codegen/mod.rs: the `packed` decision of CompInfo::codegen (an opaque blob never carries `packed` next to its repr(align))",
                                     "bindgen/ir/analysis/has_vtable.rs: HasVtableAnalysis::{insert, forward, constrain} (unit lattice_constrain, as under C07): whether a type gets a vtable pointer is decided by the documented rule for EVERY type, opaque or not - a class deriving from an opaque polymorphic base must not get a second vtable pointer ('types that contain it keep their correct layout')",
                                     "bindgen/codegen/impl_debug.rs: the array arm of <Item as ImplDebug>::impl_debug (unit impl_debug, block R18): a hand-written Debug impl prints an array member only when its element type takes part in Debug impls - not for a blocklisted element type (found and repaired F19)",
                                     "bindgen/ir/context.rs: the two nested closures of BindgenContext::blocklisted_type_implements_trait (unit vouch, R18): a trait is derivable through a blocklisted type only when somebody vouched - bindgen itself for the <stdint.h> names when no callback is registered, otherwise the user's callback; no name or no answer means No",
                                     "bindgen/ir/context.rs: BindgenContext::is_stdint_type and bindgen/codegen/mod.rs: utils::type_from_named (unit prim_types): the names bindgen vouches for itself are exactly the <stdint.h>/<stddef.h> names it maps to a primitive whether or not they are blocklisted",
                                     "bindgen/ir/analysis/derive.rs: CannotDerive::constrain_type (first rule: an item outside the allowlisted set gets exactly what blocklisted_type_implements_trait says, before any other rule)"],
        "assumptions": [
            "blocklist test (Item::is_blocklisted == hidden || in a blocklisted file || generic item list || the list of its own kind || replaced type), with regex matching and path computation uninterpreted",
            "trait half: a blocklisted type derives a trait only as far as the user's callback vouches (constrain_type post#0), whatever else is true of it (opaque, excluded, ...)",
            "opaque-blob half of C10: for every Layout with size % max(align,1) == 0 (what libclang reports for a complete type) the emitted blob type has exactly that size and alignment (blob post#0-#2), on both the ffi_safe and the padding path",
        ],
        "unverified": [
            "that the per-kind generators are reached only through <Item as CodeGenerator>::codegen (Method::codegen_method calls process_before_codegen itself), IsOpaque, that opaque items stop tracing, the body of blocklisted_type_implements_trait (IR/regex-bound): 'never defined yet still named' is not decided",
        ]})


def _from_str_witnesses():
    spec = [dict(harness="features_contracts::" + h, name="features::RustTarget::from_str::witness(%s)" % h.split("witness_")[1],
                 kind="bounded", fn="bindgen/features.rs:RustTarget::from_str (concrete inputs only)")
            for h in ("from_str_witness_nightly_underflow", "from_str_witness_nightly_underflow_patch", "from_str_witness_accepts")]
    obs, cmd, prep = units_path.run_spec(spec, timeout=900)
    return obs, cmd


def _changed_clauses(unit):
    """TERMINATION (C12 'never loops forever'): the clauses of a unit's contracts that tie the answer `Changed` to a strict
    move of the fact (the worklist driver re-queues dependants on Changed only; a `Changed` without progress never stops)."""
    import verus as _v
    sel = []
    for it in _v.load_spec(unit)["items"]:
        if it.get("kind") != "fn":
            continue
        idx = [i for i, c in enumerate(it.get("ensures", [])) if "ConstrainResult::Changed" in c or "ConstrainResult::Same" in c]
        if idx:
            name = it.get("label", ((it.get("impl_name") + "::") if it.get("impl_name") else "") + it["name"])
            sel.append((unit, "::" + re.escape(name) + "::", r"^post#(%s)$" % "|".join(str(i) for i in idx)))
    return sel


def c12(tier, seed):
    term = []
    for u in ("lattice_insert", "lattice_constrain", "has_float", "has_tp_array", "has_destructor", "constrain", "template_params"):
        term += _changed_clauses(u)
    units = term + [("gen_errors", None, None), ("layout", None, r"^(safety|decreases.*)$"), ("bf_alloc", None, r"^(safety|decreases.*)$"), ("macro_type", None, r"^safety$"),
             ("edges", None, r"^safety$"), ("derive_gate", None, r"^safety$"), ("derives", None, r"^safety$"), ("fn_abi", None, r"^(safety|post#3)$"), ("constrain", None, r"^safety$"), ("prim_types", None, r"^safety$"), ("packed", None, r"^(safety|decreases.*)$"), ("blocklist", None, r"^safety$"), ("has_float", None, r"^safety$"), ("has_tp_array", None, r"^safety$"), ("has_destructor", None, r"^safety$"), ("lattice_insert", None, r"^safety$"),
             ("lattice_constrain", r"::constrain::", r"^safety$"), ("link_name", r"::names_will_be_identical_after_mangling::", r"^safety$"), ("eval_int", None, r"^safety$"), ("bf_unit_start", None, r"^safety$"), ("resolver", None, None), ("builtin_ty", None, r"^safety$"), ("char_macro", None, r"^safety$"), ("clang_layout", None, r"^safety$"), ("traversal", None, r"^safety$"), ("trace_impls", None, r"^safety$"), ("enum_consts", None, None), ("template_params", None, r"^safety$"), ("codegen_guards", None, None), ("rust_mangle", None, None), ("typedef_methods", None, None)]
    return _verus_prop("C12", tier, seed, units, {
        "trusted_base": LAYOUT_TRUST + ["alloc::fmt::format stubbed in the from_str witness harnesses (message text irrelevant)"],
        "functions_under_contract": ["bindgen/lib.rs: the input-path checks of Bindings::generate (missing -> NotExist, directory -> FolderAsHeader, unreadable -> InsufficientPermissions; file system uninterpreted) and the per-diagnostic step of parse() (severity Error or Fatal -> ClangDiagnostic error) -- blocks extracted by rule R18, unit gen_errors"] + LAYOUT_FNS + ["bindgen/ir/comp.rs: bitfields_to_allocation_units (no-clang-offset mode)", "and the functions of units macro_type, edges, derive_gate, derives, fn_abi (see C05, C07-C09, C14)",
                                     "bindgen/ir/analysis/*.rs: every insert / forward / constrain of the seven analyses under contract answers `Changed` exactly when the fact it owns strictly moved up its lattice (the `Changed`/`Same` clauses of units lattice_insert, lattice_constrain, has_float, has_tp_array, has_destructor, constrain, template_params): with the driver theorem of unit analyze this is the termination argument of the fix-point loops",
                                     "bindgen/ir/context.rs: ItemResolver::resolve (unit resolver): the reference/alias-following loop TERMINATES on every finite IR, cyclic or not (decreases: items not yet seen), never indexes outside the item table, and returns an item of the table",
                                     "bindgen/codegen/mod.rs: <Vtable as CodeGenerator>::codegen under --vtable-generation (unit typedef_methods: the guard closure of the `if` and the signature lookup of the slot generator, R18): every virtual method the guard lets through has a function type of its own, so the lookup finds one - no panic (found and repaired F40); the pointee lookup of the block-pointer arm of <Type as CodeGenerator>::codegen (--generate-block; F42) and the signature lookup of <Function as CSerialize>::serialize (--wrap-static-fns; F43) look behind typedefs, where the IR invariant gives a function type; that `iter().all(guard)` covers what `filter_map` visits is std's meaning, not under contract", "bindgen/ir/context.rs: the recording statement of BindgenContext::process_replacements (unit codegen_guards, if-let statement R18): a replaces= annotation is honoured only when its item exists in the item table and is a declared type (struct/union, enum, typedef) - never the signature type of an annotated function (found and repaired F44: stack overflow); ids become type ids only then", "bindgen/ir/context.rs: BindgenContext::rust_mangle (unit rust_mangle; rule R32: &str / String as character sequences, the keyword list one uninterpreted predicate): the string that reaches proc_macro2::Ident::new (which panics on a non-identifier) contains no `@`, `?` or `$` at any position, whatever the C name contains; names that need no mangling are unchanged", "bindgen/ir/context.rs: the kind-mapping statement of build_builtin_ty does not panic on any builtin kind (found and repaired F12: `_Complex int`)",
                                     "bindgen/ir/function.rs: FunctionSig::abi never accepts an ABI that cannot be printed (ClangAbi::Unknown -> UnsupportedAbi; found and repaired F11: Function::codegen and <ClangAbi as ToTokens> panicked on it); bindgen/ir/var.rs: the character-literal arm of Var::parse (found and repaired F10)",
                                     "bindgen/codegen/mod.rs: the signature statement of Method::codegen_method and bindgen/ir/ty.rs: the constant-array arm of Type::from_clang_ty (unit codegen_guards): a method whose signature is not a function type (declared through a typedef) is left out, an array whose element type cannot be expressed gets opaque elements - neither aborts (found and repaired F29, F30)",
                                     "bindgen/codegen/mod.rs: the three naming statements of <Enum as CodeGenerator>::codegen (unit enum_consts, let-statements R18): the parent's canonical name is None exactly for top-level enums and neither `parent_canonical_name.as_ref().unwrap()` is reached with None; bindgen/ir/analysis/template_params.rs: UsedTemplateParameters::constrain and its helpers (unit template_params): the table `.expect()`s and the monotonicity `assert!` cannot fire given the table invariant",
                                     "bindgen/codegen/mod.rs: utils::names_will_be_identical_after_mangling (every slice index / range in bounds, for all name lengths); bindgen/ir/analysis/{has_vtable,sizedness}.rs: constrain (the two unreachable!() arms of SizednessAnalysis::constrain are unreachable given 'TypeKind::Opaque types are opaque' and 'no UnresolvedTypeRef after parsing'); clang::EvalResult::as_int; the bit-field unit-start closure (no underflow given offset_into_unit <= offset)"],
        "assumptions": [
            "error values: the two specific-error mechanisms of the property (input path, clang diagnostics) as postconditions over an uninterpreted file system / libclang",
            "panic-freedom (no arithmetic overflow/underflow, division by zero, unwrap on None, failed precondition of a callee) and loop termination of the functions under contract, under the preconditions inv() && small() && valid_layout(..)",
            "RustTarget::from_str: three concrete-input witness harnesses only (bounded, not counted as proved)",
        ],
        "bounds": "from_str witnesses: concrete strings \"1.0-nightly\", \"1.0.0-nightly\", \"1.83.1-nightly\", \"nightly\", \"1.71\"",
        "unverified": [
            "the several hundred expect/unwrap/unreachable!/assert! sites whose preconditions are shapes of the libclang AST; termination and stack depth of the IR walkers; everything libclang does (seed S19: a visitor callback in clang.rs)",
        ]}, extra_obs=_from_str_witnesses)


INCRATE_TRUST = ["in-crate harness modules pulled in by cfg(kani) hook lines; TypeId built by transmute::<usize,TypeId> (two single-field newtypes)"]


def c04(tier, seed):
    def extra():
        return units_incrate.run_spec(units_incrate.abi_spec())
    return _verus_prop("C04", tier, seed, [("fnsig", None, None), ("ptr_lowering", None, None), ("fn_abi", r"::(FunctionSig::(abi|is_variadic)|abi_name)::", None), ("link_name", None, None), ("method_wrapper", None, None), ("var_const", None, None), ("attrs", None, None), ("fn_args", None, None), ("mangling", None, None), ("builtin_ty", None, None), ("char_macro", r"::var_value@nonconst_initialised_F39::", None), ("typedef_methods", r"::fn_decl_signature::", None), ("prim_types", r"::(type_from_named|float_kind_rust_type)::", None)], {
        "trusted_base": INCRATE_TRUST + ["calling-convention oracle: clang-c/Index.h CXCallingConv values x Rust reference ABI strings (kani_incrate/function_abi.rs)"],
        "functions_under_contract": ["bindgen/ir/function.rs: get_abi (Kani in-crate), FunctionSig::abi, FunctionSig::is_variadic (Verus unit fn_abi)",
                                     "bindgen/codegen/mod.rs: utils::fnsig_argument_type, utils::fnsig_return_ty_internal (Verus unit fnsig); the Pointer/Reference arm of <Type as TryToRustTy>::try_to_rust_ty (Verus unit ptr_lowering, block extracted by rule R18)",
                                     "bindgen/codegen/mod.rs: the receiver and constructor statements of Method::codegen_method (Verus unit method_wrapper, statements R18): the C++ `this` argument becomes `&self` (const method) or `&mut self`; static methods and constructors get no receiver; a constructor drops `this` and returns Self",
                                     "bindgen/ir/var.rs: the mutability decision of Var::parse (unit var_const: nested fn is_const_through_arrays + let-statement, termination by type depth): a global is immutable exactly when its type, as spelled or behind typedefs, is const through every array dimension (found and repaired F16)",
                                     "bindgen/codegen/mod.rs: the `let symbol = ..` statement of <Var as CodeGenerator>::codegen (Verus unit link_name, let-statement R18, verified against the contract of names_will_be_identical_after_mangling): an overridden link name is always spelled out with #[link_name] (found and repaired F13), otherwise the compiler's symbol is named unless it is the Rust name or its platform decoration",
                                     "bindgen/ir/function.rs: cursor_declares_other_function, args_from_ty_and_cursor (iterator pipeline turned into an index loop, rule R29), and the parameter-visitor closure, the `is_own_cursor` and the `args` statements of FunctionSig::from_ty (unit fn_args): ARITY - a function prototype gets exactly the parameters it declares, each of the declared type, and the parameters of an enclosing declaration (function returning a function pointer, pointer to such a function) are never taken for its own (found and repaired F21); the child visitor never recurses",
                                     "bindgen/ir/function.rs: cursor_mangling, is_itanium_thunk and bindgen/clang.rs: the ABI-kind statement of TargetInfo::new (unit mangling; while-let R19, str operations as Seq-specified env functions R21): of the symbols libclang lists for a C++ function the binding names the last one that is the function itself - for a destructor under the Itanium ABI the complete-object destructor (never the deleting one), never a this-adjusting or covariant-return thunk (found and repaired F23); the Microsoft rules apply only to *-msvc targets",
                         "bindgen/codegen/mod.rs: the signature lookup of <Function as CodeGenerator>::codegen (unit typedef_methods, statements R18): a non-static member function declared through a typedef of a function type - whose function type has no `this` - is not declared at all (found and repaired F41: it was declared without its receiver)",
            "bindgen/ir/function.rs: the name statement of <Abi as Display>::fmt (unit fn_abi, let-statement R18): the string written after `extern` is the Rust ABI string of the calling convention (win64 is \"win64\", not \"system\"); table transcribed from the Rust reference",
            "bindgen/codegen/mod.rs: utils::type_from_named (unit prim_types, shared with C10): a parameter, return value or global spelled with a <stdint.h>/<stddef.h> name gets the Rust primitive of the same width AND sign (ssize_t is isize, not usize)",
            "bindgen/codegen/helpers.rs: ast_ty::float_kind_rust_type (unit prim_types, shared with C02): a floating parameter or return value is a Rust FLOAT of the C size wherever Rust has one (an 8-byte long double is f64, not u64: it travels in floating-point registers)",
            "bindgen/ir/var.rs: the value statement of Var::parse (unit char_macro, witness only): a non-const global must not become a Rust constant - known finding F39",
            "bindgen/ir/context.rs: the kind-mapping statement of BindgenContext::build_builtin_ty (unit builtin_ty, shared with C02): a parameter or return value of a builtin C/C++ type gets the bindgen kind of that very type (char32_t is 32 bits wide, not 16)",
                                     "bindgen/clang.rs: the per-token predicate of Cursor::has_attrs (unit attrs, closure R18): a token of an unexposed attribute names `noreturn` / `_Noreturn` / `warn_unused_result` only when it is of the attribute's token kind and spells exactly that name",
                                     "bindgen/codegen/mod.rs: utils::names_will_be_identical_after_mangling (Verus unit link_name, all name lengths; std str/slice operations replaced by Seq-specified env functions, rule R21)"],
        "assumptions": ["get_abi: every u32 CXCallingConv value (loop-free, full domain)",
                        "FunctionSig::abi: the ABI emitted is the --override-abi match if any, else what clang reported, or an error; never something else",
                        "pointer lowering: wrong-sized pointer types are an error; a pointer to (a typedef of) a function type or to an ObjC interface adds no pointer level; C++ references become NonNull when asked; every other pointee gets *const/*mut by the pointee's constness",
                        "link_name omission: #[link_name] is omitted exactly when the compiler's symbol is the Rust name itself or its platform decoration for the calling convention (`_name`; `_name@N` stdcall; `@name@N` fastcall), the decoration table transcribed from the Microsoft decorated-names / Mach-O conventions; slice indexing in the function never goes out of bounds",
                        "argument lowering: array parameters decay to a pointer to the element (const iff element or array is const), ObjC interface pointers are named, everything else keeps its type; return lowering: noreturn -> !, void (through typedefs) -> (), else the type. The type tokens themselves (to_rust_ty_or_opaque) are uninterpreted",],
        "unverified": ["cursor_mangling / mangled names from libclang; the call site of names_will_be_identical_after_mangling in Function::codegen (seed S34 missed: statement order) and whether rustc decorates as the table says; the other arms of try_to_rust_ty; fnsig_arguments_iter naming; the rest of Method::codegen_method (MaybeUninit protocol, name de-duplication); merge_extern_blocks (seed S06 missed); ABI classification by rustc/LLVM vs clang"],
    }, extra_obs=extra)


def c05(tier, seed):
    return _verus_prop("C05", tier, seed, [("macro_type", None, None), ("eval_int", None, None), ("char_macro", r"^(?!.*@nonconst_initialised_F39)", None), ("builtin_ty", None, None), ("cexpr_tokens", None, None), ("prim_types", r"::type_from_named::", None), ("enum_variant_expr", None, None)], {
        "trusted_base": ["extraction rules R1-R11; env/macro_type_env.rs: uninterpreted option reads; assume_specification for i64::from(u8|u16|u32) (lossless widening)",
                         "C-model table kind_bits/kind_signed written from the kinds' names (contracts/macro_type.py)",
                         "env/eval_int_env.rs: each libclang evaluator entry point is a distinct uninterpreted function of the result handle (rule R20: `unsafe { f(x) }` -> `{ f(x) }`, FFI functions are safe stubs); an out-of-range `u64 as i64` cast is the same (unspecified but fixed) function on both sides of the contract"],
        "functions_under_contract": ["bindgen/ir/var.rs: the function-like-macro guard of Var::parse (unit char_macro, statements R18 up to the use of the evaluated value: a function-like macro never reaches the expression evaluator, with or without callbacks; found and repaired F31) and the `is_float` statement (a floating-point constant only for float / double variables; found and repaired F32)", "bindgen/codegen/mod.rs: the value-expression statements of EnumBuilder::with_variant (unit enum_variant_expr, statements R18) and EnumBuilder::is_rust_enum: an enumerator of a bool-underlying enum is the integer 0/1 only as the discriminant of a Rust enum and the literal true/false in every other style, where the constant's type is bool; signed / unsigned enumerators are literals of their own value", "bindgen/codegen/mod.rs: utils::type_from_named (unit prim_types, shared with C04/C10): a constant or enum declared through a <stdint.h>/<stddef.h> name gets the Rust primitive of the same width and SIGN (ptrdiff_t is isize)", "bindgen/clang.rs: ClangToken::as_cexpr_token (unit cexpr_tokens): every token of a macro body except comments reaches the cexpr evaluator, under the kind libclang reports and with its spelling - dropping an operator keyword would leave a different well-formed expression", "bindgen/ir/var.rs: the value statement of Var::parse (unit char_macro, let-statement R18): the constant a variable's initialiser becomes has the shape of the variable's type (an integer or bool for integer types, a float for float / double, otherwise at most a string)", "bindgen/ir/var.rs: default_macro_constant_type", "bindgen/ir/int.rs: IntKind::is_signed, IntKind::known_size",
                                     "bindgen/ir/context.rs: the kind-mapping statement of BindgenContext::build_builtin_ty (unit builtin_ty, shared with C02/C04): the type of a const variable and the underlying type of an enum get the bindgen integer kind of that very C type, so the Rust type has its width and sign (char32_t: 32 bits, unsigned)",
                                     "bindgen/clang.rs: EvalResult::kind, EvalResult::as_int (which libclang getter supplies the value of a const initialiser / fallback macro); Cursor::enum_val_signed / enum_val_unsigned / enum_val_boolean (enumerator values: the getter matching the signedness)",
                                     "bindgen/codegen/mod.rs: the repr-translation statement of <Enum as CodeGenerator>::codegen (unit macro_type, let-statement R18): the translated integer type has the enum's width and signedness",
                                     "bindgen/ir/enum_ty.rs: the value-selection statement of Enum::from_ty (let-statement, R18): bool enums their truth value, signed enums the signed getter, unsigned enums the unsigned getter",
                                     "bindgen/ir/var.rs: the character-literal arm of Var::parse (unit char_macro, block R18): the constant is the literal's byte value as u8; an escape that does not fit is omitted (found and repaired F10: it panicked)",
                                     "bindgen/codegen/mod.rs: the integer-literal arm of <Var as CodeGenerator>::codegen (block, R18): the literal denotes the value in the signedness of the variable's C type"],
        "assumptions": ["all i64 macro values, both option reads uninterpreted: the chosen kind holds the value, has the sign the property demands, is the narrowest such kind under fit-macro-constant-types and 32/64 bit otherwise"],
        "unverified": ["cexpr macro evaluation, libclang's evaluator itself, EvalResult::new, the clang-macro-fallback plumbing; how Enum::from_ty derives is_signed/is_bool from the underlying type; how Enum::codegen obtains (signed, size) and EnumBuilder; float_expr; proc_macro2::Literal printing"],
    })


def c06(tier, seed):
    return _verus_prop("C06", tier, seed, [("layout_tests", None, None), ("clang_layout", None, None), ("target_sel", None, None), ("field_data", None, None), ("type_layout", None, None)], {
        "trusted_base": ["extraction rules incl. R18 (closure and statement extraction) and span substitutions; env/layout_tests_env.rs: each assertion template (const-block / #[test] fn, offset_of! / addr_of! form) is an env constructor that records WHAT it asserts (field, number); message strings irrelevant",
                         "libclang's numbers (record size/alignment, field bit offsets) are the C compiler's for the selected target"],
        "functions_under_contract": ["bindgen/ir/ty.rs: Type::layout (unit type_layout; rule R31: its recursive calls are checked against the callee contract): the size and alignment handed to both assertion generators are clang's for the type whenever clang computed them, and otherwise only an exact derivation (the compound's own computation, a zero-length array, a pointer, the target of a resolved reference) - never the numbers of a different type such as the definition of an instantiation clang did not complete", "bindgen/ir/context.rs: the statement of BindgenContext::instantiate_template that builds the instantiation's type (unit type_layout, let-statement R18): the stored layout - the numbers the instantiation's assertion states - is what clang computes for the instantiation's own type, not for the cursor it was found at (e.g. a pointer to it)", "bindgen/ir/comp.rs: RawField::new and the getters of FieldData (unit field_data): the bit offset (and bit-field width) clang reported for a member is stored as given and handed to code generation as stored", "bindgen/lib.rs: the `is_host_build` statement and the `--target=` insertion statement of Bindings::generate (unit target_sel, statements R18): libclang is told the effective target, in front of the other arguments, whenever no explicit target was given and the effective target is not the host triple itself (so every number it reports is for the target the assertions are emitted for)", "bindgen/clang.rs: Cursor::offset_of_field and Type::fallible_{size,align,layout} (unit clang_layout: the asserted numbers are libclang's, without truncation)",
                                     "bindgen/codegen/mod.rs: the per-member offset-assertion generator (filter_map closure) and the layout-assertion block of <CompInfo as CodeGenerator>::codegen (both extracted by rule R18); <TemplateInstantiation as CodeGenerator>::codegen (whole function)"],
        "assumptions": [
            "for structs/unions generated by CompInfo::codegen: with layout tests on, a known layout and no forward declaration exactly one assertion item is emitted; it asserts the size and the alignment libclang reported and embeds one offset assertion for every named data member with a known offset (= clang's bit offset / 8), none for bit-field units, none at all for opaque types; with layout tests off, nothing is emitted",
            "template instantiations: a size+alignment assertion (libclang's numbers) is emitted exactly when layout tests are on, the instantiation is not opaque, uses no unbound template parameter and has a layout",
            "the block is reached only when the item has no template parameters (the surrounding `if all_template_params.is_empty()` is not part of the extracted statement)",
        ],
        "unverified": ["how CompInfo::from_ty discovers members and which clang offset it records for each (closures handed to libclang's visit: seeds S109, S134 are missed there); that the field list handed to the closure is complete; targets other than the host (the numbers are whatever libclang reports for the target); that rustc evaluates the emitted const expressions as intended"],
    })


def c07(tier, seed):
    def extra():
        o1, c1 = units_incrate.run_spec(units_incrate.lattice_spec() + units_incrate.subscriptions_spec())
        return o1, c1
    return _verus_prop("C07", tier, seed, [("edges", r"consider_edge", None), ("has_float", None, None), ("has_tp_array", None, None),
                                           ("has_destructor", None, None), ("lattice_insert", None, None), ("analyze", None, None), ("lattice_constrain", r"::constrain::", None), ("constrain", r"::CannotDerive::(constrain|insert)::", None), ("trace_impls", None, None), ("deps", None, None), ("template_params", None, None)], {
        "trusted_base": INCRATE_TRUST + ["read-sets of each analysis' constrain (contracts/edges.py, hand-derived from the constrain bodies and the Trace impls)",
                                        "declared lattice orders taken from the enums' doc comments"],
        "functions_under_contract": ["bindgen/ir/derive.rs: CanDerive::join, BitOr, BitOrAssign", "bindgen/ir/analysis/has_vtable.rs: HasVtableResult::join(+ops), HasVtableAnalysis::consider_edge",
                                     "bindgen/ir/analysis/sizedness.rs: SizednessResult::join(+ops), SizednessAnalysis::consider_edge",
                                     "bindgen/ir/analysis/{has_destructor,has_float,has_type_param_in_array}.rs: consider_edge",
                                     "bindgen/ir/analysis/derive.rs: consider_edge_default, DeriveTrait::consider_edge_comp/_typeref/_tmpl_inst",
                                     "bindgen/ir/analysis/{has_float,has_type_param_in_array,has_destructor}.rs: insert and MonotoneFramework::constrain (units has_float, has_tp_array, has_destructor: inflationary, Changed <=> the fact set changed, fix-point equation of the rule; 'any base/field/argument has the fact' iterator chains = uninterpreted functions of the fact set)",
                                     "bindgen/ir/analysis/{has_vtable,sizedness}.rs: MonotoneFramework::constrain of HasVtableAnalysis and SizednessAnalysis (unit lattice_constrain: only the node moves, to the join of its old fact and the documented rule applied to the current facts of its neighbours; Changed <=> it moved; insert/forward used through their contracts; the unreachable!() arms proved unreachable under the stated IR invariants)",
                                     "bindgen/ir/{ty,comp,template,function,item}.rs: the Trace impls of Type, CompInfo, CompFields, Field, TemplateInstantiation, FunctionSig and Item (unit trace_impls, generic in the tracer): the exact sequence of (target, EdgeKind) each reports - inner types as TypeReference, bases as BaseMember, template definition / arguments as TemplateDeclaration / TemplateArgument, parameters as FunctionParameter, ...; nothing for stdint-named types, no bases/fields for opaque compounds - i.e. the table the subscription check (unit edges) is stated against",
                                     "bindgen/ir/analysis/template_params.rs: UsedTemplateParameters::constrain_instantiation (unit template_params): the instantiation rule adds exactly what the arguments use for the parameters the definition uses, whatever is already known (monotone: no state-keyed shortcut)",
                                     "bindgen/ir/analysis/template_params.rs: UsedTemplateParameters::constrain, take_this_id_usage_set, constrain_join, constrain_instantiation_of_blocklisted_template, consider_edge (unit template_params; the iterator pipeline and the trace callback are turned into index loops by rules R26/R27): constrain(id) replaces id's set by (old set) UNION rule_set(table without id) where the rule is chosen by the item kind (type parameter: itself; instantiation of an allowlisted template: contrib_set; of a blocklisted one: every argument's usage; anything else: the usage of every successor over a considered edge), leaves every other entry untouched, never panics on its monotonicity assert!, and answers Same exactly when the set did not grow - so re-applying the rule to a table it does not enlarge changes nothing",
                                     "bindgen/ir/analysis/mod.rs: the edge-recording callback of generate_dependencies (unit deps, closure R18): an edge item -> sub_item is recorded reversed exactly when sub_item is allowlisted and the analysis' consider_edge accepts its kind; bindgen/ir/analysis/template_params.rs: the edge-recording callback of UsedTemplateParameters::new records EVERY traced edge (its consider_edge rejects TemplateDeclaration, which constrain_instantiation reads through)",
                                     "bindgen/ir/analysis/mod.rs: analyze::<A> -- the generic worklist driver, for EVERY analysis A satisfying the MonotoneFramework obligations (unit analyze: at return every node of the initial worklist is stable, i.e. re-applying its rule changes nothing; `while let` desugared by its definition (R19), the each_depending_on callback = append of the dependents (R16); termination not proved)",
                                     "bindgen/ir/analysis/{has_vtable,sizedness,derive}.rs: insert (+forward) of the lattice-valued analyses (unit lattice_insert: the key moves only up, to the join; Changed <=> it moved; Entry API desugared by rule R17)"],
        "assumptions": ["necessary conditions of the least-fixed-point property: (i) joins are least upper bounds of the declared orders, (ii) every edge kind a rule reads along is in the analysis' subscription predicate, (iii) every table update is inflationary and reports Changed exactly when the table changed, (iv) the three set-valued rules compute the fact of a node from the current facts of its neighbours (fix-point equation)",
                        "(v) the driver: assuming of an analysis that constrain(n) leaves n stable, that Same changes nothing and that Changed can de-stabilise only nodes each_depending_on(n) reports (env/analyze_env.rs), analyze returns a state in which every node of the initial worklist is stable",
                        "CannotDerive::constrain IS under contract (unit constrain: node_rule = per-type rule + large-alignment conservatism, member join uninterpreted); of UsedTemplateParameters only constrain_instantiation and the dependency recording are (constrain, constrain_join, constrain_instantiation_of_blocklisted_template are NOT); CannotDerive does not satisfy the driver's assumption for NON-allowlisted sub-items (it has no dependency edges for them and relies on the seed order of its initial_worklist instead: seed S24 missed)"],
        "unverified": ["which edge predicate each analysis' constructor hands to generate_dependencies (a function-pointer valued choice: seed S135 is missed there); that Item::trace hands its callback exactly the edges of the Trace impls verified in unit trace_impls (rule R27 reads them from one env accessor); CannotDerive::constrain_join (which members are joined); the initial_worklist functions (iterator chains); the loops around the dependency-recording callbacks (generate_dependencies, UsedTemplateParameters::new: that every allowlisted item is traced); the Trace impl of ObjCInterface; the getters the verified Trace impls read; completeness of the read-sets; termination; the declaration-order corollary"],
    }, extra_obs=extra)


def c08(tier, seed):
    def extra():
        return units_incrate.run_spec(units_incrate.derive_tables_spec())
    return _verus_prop("C08", tier, seed, [("prim_types", r"::BindgenContext::is_stdint_type::", None), ("impl_partialeq", None, None), ("derive_gate", None, None), ("derives", None, None), ("constrain", None, None), ("fn_abi", r"function_pointers_can_derive", None),
                                           # the float exclusion for Eq/Ord and the derive analysis' own subscriptions are C08 mechanisms too
                                           ("edges", r"::(has_float_consider_edge|consider_edge_default)::", None), ("has_float", None, None), ("union_repr", r"::(CompInfo::is_rust_union|union_field_can_copy)::", None), ("bitfield_limit", None, None), ("impl_debug", None, None), ("opaque_wrapper", None, None)], {
        "trusted_base": INCRATE_TRUST + ["env/derive_gate_env.rs: uninterpreted options and analysis lookups; generic impl<T> instantiated at T = ItemId",
                                        "rule-table oracle written from the property statement (kani_incrate/derive_tables.rs)"],
        "functions_under_contract": ["bindgen/ir/context.rs: BindgenContext::is_stdint_type (unit prim_types, shared with C09/C10): bindgen vouches for a blocklisted <stdint.h>/<stddef.h> name only when it maps that name to a primitive itself - size_t / ssize_t only under size_t_is_usize - so traits are not derived through a user-supplied size_t", "bindgen/codegen/impl_partialeq.rs: the bit-field arm of gen_partialeq_impl (unit impl_partialeq, block R18, loop by R13): the hand-written `eq` has exactly one getter comparison per NAMED bit-field of an allocation unit, in order; an unnamed bit-field is skipped and does not end the comparison", "bindgen/codegen/mod.rs: the derive decision of a forward-declared struct in CompInfo::codegen (unit derives, let-statement R18: only Debug, and only when no option, pattern or annotation switches it off; found and repaired F34) and the statements of utils::prepend_opaque_array_types that build one wrapper definition (unit opaque_wrapper, templates by rule R4u: the __BindgenOpaqueArrayN wrappers name PartialOrd / Ord whenever those derives are requested; found and repaired F33)",
                                     "bindgen/ir/context.rs: the eight impl<T> CanDerive{Debug,Default,Copy,Hash,PartialOrd,PartialEq,Eq,Ord} for T bodies",
                                     "bindgen/ir/analysis/derive.rs: CannotDerive::constrain_type (the whole per-type rule: blocklisted, excluded by name, opaque, simple kinds, pointers/fn pointers, arrays, vectors, compounds, type references, template instantiations) and DeriveTrait::{not_by_name, can_derive_*} (Verus unit constrain; member join = uninterpreted s_join)",
                                     "bindgen/ir/comp.rs: CompInfo::has_too_large_bitfield_unit (unit bitfield_limit; Iterator::any desugared by rule R25): true exactly when SOME bit-field allocation unit is larger than the 32-element limit",
                                     "bindgen/ir/analysis/has_float.rs: HasFloat::{consider_edge, insert, constrain} (the 'floats for Eq/Ord' exclusion: the rule's fix-point equation and that every edge it reads along is subscribed; same obligations as under C07)",
                                     "bindgen/ir/analysis/derive.rs: CannotDerive::constrain (node rule = per-type rule, made Manually for Default when the type is aligned beyond the 32-element limit; non-type items join their members) and CannotDerive::insert",
                                     "bindgen/codegen/mod.rs: derives_of_item (packed-requires-Copy, annotation exclusions; DerivableTraits modelled as one bool per flag); the four needs_{debug,default,clone,partialeq}_impl decisions of CompInfo::codegen (statements, R18)",
                                     "bindgen/ir/analysis/derive.rs: DeriveTrait::can_derive_{simple,pointer,vector,union,compound_with_destructor,compound_with_vtable,compound_forward_decl,incomplete_array}; can_derive_fnptr (bounded)",
                                     "bindgen/ir/function.rs: FunctionSig::function_pointers_can_derive (bounded)"],
        "assumptions": ["gating: result == option enabled && analysis lookup (&& no float for Eq/Ord), both directions ('never when', 'never withheld')",
                        "rule tables complete over all 5 traits x every TypeKind constructible without libclang (17 kinds); UnresolvedTypeRef, Comp, Function, TemplateInstantiation, ObjCInterface kinds are not constructible and are skipped"],
        "bounds": "the Kani twins of the fn-pointer rule enumerate argument counts 0, 12, 13 only (bounded, not counted); the rule itself is proved for every argument count by Verus (fn_abi::FunctionSig::function_pointers_can_derive, constrain::DeriveTrait::can_derive_fnptr)",
        "unverified": ["CannotDerive::constrain_join (closure over Trace: which members are joined), the IR reads themselves; hand-written impl bodies (impl_debug.rs, impl_partialeq.rs, Default via write_bytes)"],
    }, extra_obs=extra)


def c09(tier, seed):
    return _verus_prop("C09", tier, seed, [("edges", r"::(all_edges|only_inner_type_edges|codegen_edges)::", None), ("roots", None, None), ("blocklist", None, None), ("traversal", None, None), ("trace_impls", None, None), ("prim_types", r"::(BindgenContext::is_stdint_type|type_from_named)::", None)], {
        "trusted_base": ["env/traversal_env.rs: TraversalStorage = set, TraversalQueue = bag (covers the LIFO Vec and the FIFO VecDeque), as Verus traits with specifications; the predicate fn pointer applied through an uninterpreted function; Trace impls call visit_kind once per outgoing edge of the item (trace_item = fold of visit_kind's own proved effect)",
                         "extraction rules R1-R11; env/edges_env.rs: uninterpreted CodegenConfig reads and Item::is_enabled_for_codegen; is_type_edge table from the Trace impls"],
        "functions_under_contract": ["bindgen/ir/traversal.rs: codegen_edges, only_inner_type_edges, all_edges",
                                     "bindgen/ir/traversal.rs: ItemTraversal::new, <ItemTraversal as Tracer>::visit_kind, <ItemTraversal as Iterator>::next, Edge::new (unit traversal, generic in Storage and Queue): representation invariant (roots seen; queue within seen; every item already taken out has all followed successors seen; everything seen is reachable) established by new and preserved by next; LEMMA lemma_exhausted: with the queue empty, seen == the set reachable from the roots along followed edges; LEMMA lemma_drain (a consumer over the contracts only): draining a fresh traversal yields exactly that set - closure AND minimality",
                                     "bindgen/ir/{ty,comp,template,function,item}.rs: the Trace impls of Type, CompInfo, CompFields, Field, TemplateInstantiation, FunctionSig, Item (unit trace_impls): every reference of these nodes is reported, once, with the documented edge kind",
                                     "bindgen/ir/context.rs: BindgenContext::is_stdint_type (unit prim_types): the name-based cut-off of the traversal (Type::trace stops at these names, root selection auto-allowlists them) applies exactly to the names code generation maps to a primitive (utils::type_from_named), size_t/ssize_t only with size_t_is_usize - otherwise an emitted item names a type that was never reached",
                                     "bindgen/ir/context.rs: the root-selection predicate of compute_allowlisted_and_codegen_items (a closure, extracted by rule R18; the unnamed-enum variant loop is one uninterpreted accessor)",
                                     "bindgen/ir/item.rs: Item::is_blocklisted (an item matched by an allowlist and a blocklist is not emitted: the traversal skips blocklisted items)"],
        "assumptions": ["root selection: an item is a root exactly when nothing is allowlisted, or it replaces a type, or its file / the generic item list / the list of ITS kind matches its path (+ the documented auto-allowlisting of codeless types in no-recursive mode and of unnamed top-level enums by variant); regex matching and path joining uninterpreted",
                        "closure/minimality of the walk itself: for every graph (s_edges uninterpreted), every predicate, every root list and either queue discipline; termination of the walk is not proved (finite IR)",
                        "per-edge decision: every edge kind whose target is a type is followed iff types are generated; vars/methods/constructors/destructors likewise; no-recursive mode follows exactly InnerType"],
        "unverified": ["the variant-path loop of the unnamed-enum clause (seed S17 missed), the Trace impl of ObjCInterface and the getters the verified Trace impls read (that they return all members), regex anchoring ^(..)$ in regex_set.rs, textual identity with the un-allowlisted run; the call sites that build the traversals (roots, predicate choice) beyond the root-selection closure"],
    })


PROPS = {"C02": c02, "C04": c04, "C05": c05, "C06": c06, "C07": c07, "C08": c08, "C09": c09, "C03": c03, "C10": c10, "C12": c12, "C14": c14}
