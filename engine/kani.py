"""Run cargo kani on a harness crate, parse per-harness results, and replay
counterexamples natively (cargo kani playback) against the real code."""
import os
import re
import shutil

from core import (CANARY, DISCHARGED, FAILED, UNDECIDED, WORK, Ob, run, write_replay)

KANI_FLAGS = ["-Z", "function-contracts", "-Z", "stubbing"]


def _parse(out):
    """terse -j output -> {harness: dict}"""
    res = {}
    cur = {}          # thread -> harness
    active = None     # harness whose block we are in
    for line in out.splitlines():
        m = re.match(r"Thread (\d+): Checking harness (\S+?)\.\.\.$", line)
        if m:
            cur[m.group(1)] = m.group(2)
            res.setdefault(m.group(2), {"status": None, "failed_checks": [], "time_s": 0.0,
                                        "checks": 0, "covers": None, "stubs": [], "raw": []})
            continue
        m = re.match(r"Thread (\d+):\s*(.*)$", line)
        if m:
            h = cur.get(m.group(1))
            rest = m.group(2)
            if h and rest.startswith("- Verified stub:"):
                res[h]["stubs"].append(rest.split(":", 1)[1].strip())
            elif h and rest.startswith("- Stub:"):
                res[h]["stubs"].append(rest.split(":", 1)[1].strip())
            elif h and rest.strip() == "":
                active = h
            continue
        if active is None:
            continue
        r = res[active]
        r["raw"].append(line)
        m = re.match(r"\s*\*\* (\d+) of (\d+) failed", line)
        if m:
            r["checks"] = int(m.group(2))
        m = re.match(r"\s*\*\* (\d+) of (\d+) cover properties satisfied", line)
        if m:
            r["covers"] = (int(m.group(1)), int(m.group(2)))
        m = re.match(r"Failed Checks: (.*)$", line)
        if m:
            r["failed_checks"].append({"description": m.group(1).strip()})
        m = re.match(r'\s*File: "(.*?)", line (\d+), in (.*)$', line)
        if m and r["failed_checks"]:
            r["failed_checks"][-1].update(file=m.group(1), line=int(m.group(2)), function=m.group(3))
        m = re.match(r"VERIFICATION:- (\w+)", line)
        if m:
            r["status"] = m.group(1)
        m = re.match(r"Verification Time: ([0-9.]+)s", line)
        if m:
            r["time_s"] = float(m.group(1))
            active = None
    return res


def run_harnesses(crate_dir, target_dir, harnesses, jobs=16, timeout=3600, extra_flags=None, env=None, harness_timeout=900):
    """harnesses: list of exact full harness names. Returns (results, raw_output, cmd, wall)."""
    cmd = ["cargo", "kani", "--target-dir", target_dir] + KANI_FLAGS + (extra_flags or []) + \
          ["-Z", "unstable-options", "--harness-timeout", "%ds" % harness_timeout] + \
          ["-j", str(jobs), "--output-format", "terse", "--exact"]
    for h in harnesses:
        cmd += ["--harness", h]
    rc, out, wall, timed_out = run(cmd, cwd=crate_dir, timeout=timeout, env=env)
    res = _parse(out)
    build_failed = ("error: could not compile" in out or "error[E" in out or
                    "internal compiler error" in out or "Failed to compile" in out)
    info = {"rc": rc, "timed_out": timed_out, "build_failed": build_failed, "wall": wall}
    return res, out, " ".join(cmd[:12]) + " ... (%d harnesses)" % len(harnesses), info


def to_obligations(spec, res, out, info):
    """spec: list of dict(harness, name, kind, fn, covers(optional int), expect_stubs(optional))"""
    obs = []
    for s in spec:
        r = res.get(s["harness"])
        common = dict(name=s["name"], kind=s["kind"], backend="kani/cbmc", fn=s.get("fn", ""))
        if info["build_failed"]:
            tail = "\n".join([l for l in out.splitlines() if "error" in l][:8])
            obs.append(Ob(status=UNDECIDED, detail="harness crate does not build (front-end error, not a verdict): " + tail, **common))
            continue
        if r is None or r["status"] is None:
            why = "timeout" if info["timed_out"] else "no result for harness (lost anchor or tool error)"
            obs.append(Ob(status=UNDECIDED, detail=why, **common))
            continue
        loc = ""
        if r["failed_checks"] and "file" in r["failed_checks"][0]:
            loc = "%s:%d" % (r["failed_checks"][0]["file"], r["failed_checks"][0]["line"])
        extra = {"cbmc_checks": r["checks"], "harness": s["harness"]}
        if s.get("twin"):
            extra["twin"] = s["twin"]
        if r["stubs"]:
            extra["verified_stubs"] = r["stubs"]
        if r["status"] == "SUCCESSFUL":
            st, detail = DISCHARGED, ""
            if s["kind"] == CANARY:
                want = s.get("covers", 0)
                got = r["covers"] or (0, 0)
                if got[0] != got[1] or got[1] < want:
                    st, detail = FAILED, "cover properties satisfied %d of %d (expected %d)" % (got[0], got[1], want)
                extra["covers_satisfied"] = got[0]
            if s.get("expect_stubs") and len(r["stubs"]) < s["expect_stubs"]:
                st, detail = UNDECIDED, "expected %d verified stubs, Kani reported %r" % (s["expect_stubs"], r["stubs"])
            if r["checks"] == 0:
                st, detail = UNDECIDED, "zero checks generated"
            obs.append(Ob(status=st, time_s=r["time_s"], detail=detail, extra=extra, **common))
        elif r["status"] == "FAILED":
            # failures that are tool limits, not semantic
            descs = [c["description"] for c in r["failed_checks"]]
            toolish = [d for d in descs if re.search(r"unwinding assertion|is not currently supported|unsupported|not supported by Kani", d)]
            if not descs:
                # CBMC died / was killed / ran out of memory: no named check failed
                obs.append(Ob(status=UNDECIDED, time_s=r["time_s"], detail="tool error: harness reported FAILED without any failed check (solver crash, OOM or kill)", extra=extra, **common))
            elif len(toolish) == len(descs):
                obs.append(Ob(status=UNDECIDED, time_s=r["time_s"], detail="tool limit: " + "; ".join(descs), extra=extra, **common))
            else:
                obs.append(Ob(status=FAILED, time_s=r["time_s"], detail="\n".join(r["raw"][-30:]), location=loc,
                              failed_checks=r["failed_checks"], extra=extra, **common))
        else:
            obs.append(Ob(status=UNDECIDED, time_s=r["time_s"], detail="kani status " + str(r["status"]), extra=extra, **common))
    return obs


# ---------------------------------------------------------------------------
# counterexample replay

def playback(prop, ob, crate_dir, target_dir, lib_rel="src/lib.rs", timeout=900, scratch_copy=None, env=None):
    """Re-run the failed harness with concrete playback, then execute the
    generated test natively (real code, real rustc codegen) in a scratch copy
    of the harness crate.  Returns the replay file path."""
    harness = ob.extra.get("harness")
    pb = {"failing_input": None, "native_replay": None}
    if not harness:
        return write_replay(prop, ob, pb)
    # 1st choice: the explicit twin harness (same obligation as assume/assert:
    # fast, and its assert! is evaluated by a native run); 2nd: the harness itself
    cands = [h for h in (ob.extra.get("twin"), harness) if h]
    m = None
    for h in cands:
        cmd = ["cargo", "kani", "--target-dir", target_dir] + KANI_FLAGS + \
              ["-Z", "concrete-playback", "--concrete-playback=print", "--exact", "--harness", h]
        rc, out, wall, to = run(cmd, cwd=crate_dir, timeout=timeout, env=env)
        m = re.search(r"```\n(.*?)```", out, re.S)
        if m:
            harness = h
            pb["counterexample_from"] = h + (" (explicit twin of the contract harness)" if h != ob.extra.get("harness") else "")
            break
    if not m:
        pb["playback_note"] = "Kani produced no concrete playback"
        return write_replay(prop, ob, pb)
    test_src = m.group(1)
    vals = re.findall(r"^\s*// (.+)\n\s*vec!\[([0-9, ]*)\]", test_src, re.M)
    pb["failing_input"] = {"harness": harness,
                           "kani_any_values_in_order": [v[0] for v in vals],
                           "bytes": [[int(x) for x in v[1].split(",") if x.strip()] for v in vals]}
    pb["native_replay"] = run_native(test_src, harness, crate_dir, target_dir, lib_rel, scratch_copy, env, tag=ob.name)
    pb["replay_mode"] = "incrate" if scratch_copy else "path"
    pb["playback_test"] = test_src
    return write_replay(prop, ob, pb)


def run_native(test_src, harness, crate_dir, target_dir, lib_rel="src/lib.rs", scratch_copy=None, env=None, tag="replay"):
    """execute a Kani concrete-playback test natively (real rustc codegen, real
    code) in a scratch copy of the harness crate; returns a result dict"""
    tname = re.search(r"fn (kani_concrete_playback_\w+)", test_src).group(1)
    modpath = "crate::" + harness.rsplit("::", 1)[0]
    safe = re.sub(r"[^A-Za-z0-9_]+", "_", tag)[:60]
    sc = os.path.join(WORK, "pb_" + safe)
    shutil.rmtree(sc, ignore_errors=True)
    if scratch_copy:
        # in-crate mode: the builder returns (file to append the test to, `use` path, cwd)
        target_file, use_path, cwd = scratch_copy(sc, harness)
    else:
        shutil.copytree(crate_dir, sc, ignore=shutil.ignore_patterns("target", "Cargo.lock"))
        target_file = os.path.join(sc, lib_rel)
        use_path = modpath
        cwd = os.path.dirname(os.path.dirname(target_file))
    with open(target_file, "a") as f:
        f.write("\n#[cfg(test)]\nmod verif_playback {\n    use %s::*;\n%s\n}\n" % (use_path, test_src))
    rc2, out2, wall2, to2 = run(["cargo", "kani", "playback", "-Z", "concrete-playback", "-Z", "function-contracts", "--", tname],
                                cwd=cwd, timeout=900, env=dict(env or {}, CARGO_TARGET_DIR=target_dir + "_pb"))
    native_failed = "test result: FAILED" in out2
    native_ok = "test result: ok" in out2
    pm = re.search(r"panicked at ([^\n]*)\n([^\n]*)", out2)
    shutil.rmtree(sc, ignore_errors=True)
    return {
        "cmd": "cargo kani playback -Z concrete-playback -- " + tname,
        "result": "REPLAY confirmed: the real code fails natively on this input" if native_failed else
                  ("REPLAY not-reproduced natively (test passed)" if native_ok else "REPLAY could not run"),
        "confirmed": native_failed,
        "panic": (pm.group(1) + " " + pm.group(2)) if pm else None,
        "output_tail": out2[-1500:],
    }
