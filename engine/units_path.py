"""Kani path-mode units (crate /verif/kani_path): C03 bit-fields, C14 features,
C05 int kinds, C07 lattice joins."""
import os

import kani
import lift
from core import (BOUNDED, CANARY, CONTRACT, LEMMA, REPO, ROOT, UNDECIDED, WITNESS, WORK, Ob)
from rsparse import LostAnchor

import shutil

SRC_CRATE = os.path.join(ROOT, "kani_path")
TARGET = os.path.join(WORK, "kani_path_target")
if REPO == "/repo":
    CRATE = SRC_CRATE
    GEN = os.path.join(ROOT, ".work", "gen")
else:
    # sensitivity run on a scratch copy of the repository: the crate's include!/#[path]
    # lines name /repo and /verif/.work/gen literally, so work on a re-pointed copy
    CRATE = os.path.join(WORK, "kani_path_copy")
    GEN = os.path.join(WORK, "gen")


def _repoint():
    if CRATE == SRC_CRATE:
        return
    shutil.rmtree(CRATE, ignore_errors=True)
    shutil.copytree(SRC_CRATE, CRATE, ignore=shutil.ignore_patterns("target", "Cargo.lock"))
    lib = os.path.join(CRATE, "src", "lib.rs")
    t = open(lib).read().replace('"/repo/', '"%s/' % REPO).replace('"/verif/.work/gen/', '"%s/' % GEN)
    open(lib, "w").write(t)

BF_FILE = "bindgen/codegen/bitfield_unit.rs"


def prepare():
    """regenerate everything the path crate includes from /repo's current tree"""
    os.makedirs(GEN, exist_ok=True)
    _repoint()
    info = {}
    try:
        info["lift"] = lift.lift(os.path.join(REPO, BF_FILE), os.path.join(GEN, "bitfield_unit_lifted.rs"))
    except (LostAnchor, OSError) as e:
        info["lift_error"] = str(e)
        # keep the crate compiling: an empty stand-in; the lifted obligations become undecided
        with open(os.path.join(GEN, "bitfield_unit_lifted.rs"), "w") as f:
            f.write("compile_error!(\"rule L1 lost its anchor\");\n")
    return info


def bitfield_spec(ns):
    spec = []
    U = "__BindgenBitfieldUnit"
    for n in ns:
        m = "bitfield_unit::contracts::n%d::" % n
        for h, fn in (("get_in", "get"), ("raw_get_in", "raw_get"), ("set_in", "set"), ("raw_set_in", "raw_set"),
                      ("get_bit_in", "get_bit"), ("raw_get_bit_in", "raw_get_bit"),
                      ("set_bit_in", "set_bit"), ("raw_set_bit_in", "raw_set_bit")):
            spec.append(dict(harness=m + h, twin=m + h[:-3] + "_twin", name="bitfield_unit::%s::post+frame+safety[N=%d]" % (fn, n),
                             kind=CONTRACT, fn="%s:%s::%s" % (BF_FILE, U, fn)))
        for h, fn in (("get_region_gt64", "get"), ("set_region_gt64", "set"),
                      ("raw_get_region_gt64", "raw_get"), ("raw_set_region_gt64", "raw_set")):
            spec.append(dict(harness=m + h, name="bitfield_unit::%s::post@region_gt64[N=%d]" % (fn, n),
                             kind=WITNESS, fn="%s:%s::%s" % (BF_FILE, U, fn)))
        spec.append(dict(harness=m + "canary_reach", name="bitfield_unit::canary[N=%d]" % n, kind=CANARY, covers=3))
        spec.append(dict(harness=m + "lemma_roundtrip", name="bitfield_unit::lemma_roundtrip(get∘set)[N=%d]" % n,
                         kind=LEMMA, expect_stubs=2, fn="over contracts of get,set"))
        spec.append(dict(harness=m + "lemma_disjoint", name="bitfield_unit::lemma_disjoint_fields[N=%d]" % n,
                         kind=LEMMA, expect_stubs=2, fn="over contracts of get,set"))
        m = "bitfield_unit_lifted::contracts::n%d::" % n
        for fn in ("get_const", "raw_get_const", "set_const", "raw_set_const"):
            spec.append(dict(harness=m + fn + "_in", twin=m + fn + "_twin", name="bitfield_unit::%s::post+frame+safety[N=%d]" % (fn, n),
                             kind=CONTRACT, fn="%s:%s::%s (rule L1)" % (BF_FILE, U, fn)))
            spec.append(dict(harness=m + fn + "_region_gt64", name="bitfield_unit::%s::post@region_gt64[N=%d]" % (fn, n),
                             kind=WITNESS, fn="%s:%s::%s (rule L1)" % (BF_FILE, U, fn)))
        spec.append(dict(harness=m + "canary_reach", name="bitfield_unit::const::canary[N=%d]" % n, kind=CANARY, covers=3))
        spec.append(dict(harness=m + "lemma_ctor_two_fields", name="bitfield_unit::lemma_ctor_is_or_of_fields[N=%d]" % n,
                         kind=LEMMA, expect_stubs=1, fn="over contract of set_const"))
    return spec


def features_spec():
    F = "bindgen/features.rs:"
    m = "features_contracts::"
    return [
        dict(harness=m + "stable_accepts", name="features::RustTarget::stable::post", kind=CONTRACT, fn=F + "RustTarget::stable"),
        dict(harness=m + "features_gating", name="features::RustFeatures::new::post(gating table)", kind=CONTRACT, fn=F + "RustFeatures::new (+RustTarget::is_compatible)"),
        dict(harness=m + "edition_available", name="features::RustEdition::is_available::post", kind=CONTRACT, fn=F + "RustEdition::is_available (+RustTarget::minor)"),
        dict(harness=m + "latest_edition", name="features::RustTarget::latest_edition::post", kind=CONTRACT, fn=F + "RustTarget::latest_edition"),
        dict(harness=m + "lemma_monotone", name="features::lemma_monotone", kind=LEMMA, fn=F + "RustFeatures::new, RustEdition::is_available"),
        dict(harness=m + "lemma_patch_irrelevant", name="features::lemma_patch_irrelevant", kind=LEMMA, fn=F + "RustFeatures::new"),
        dict(harness=m + "lemma_latest_is_newest", name="features::lemma_latest_is_newest", kind=LEMMA, fn=F + "LATEST_STABLE_RUST, EARLIEST_STABLE_RUST, RustFeatures::new_with_latest_edition"),
        dict(harness=m + "canary_reach", name="features::canary", kind=CANARY, covers=5),
    ]


def run_spec(spec, timeout, jobs=16):
    """-> (obligations, checker_cmd, prep_info)"""
    prep = prepare()
    res, out, cmd, info = kani.run_harnesses(CRATE, TARGET, [s["harness"] for s in spec], jobs=jobs, timeout=timeout)
    obs = kani.to_obligations(spec, res, out, info)
    if "lift_error" in prep:
        for o in obs:
            if "(rule L1)" in o.fn or "const" in o.name:
                o.status, o.detail = UNDECIDED, "lost anchor: " + prep["lift_error"]
    with open(os.path.join(WORK, "last_kani_path.log"), "w") as f:
        f.write(out)
    return obs, cmd, prep


def replay(prop):
    def f(ob):
        return kani.playback(prop, ob, CRATE, TARGET)
    return f
