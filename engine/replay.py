"""./check <id> --replay <file>: re-run a recorded counterexample natively
against /repo's current tree (Kani obligations), or re-decide the named
obligation (Verus obligations, which carry no input)."""
import json
import os

import kani
import units_incrate
import units_path


def replay_file(prop, path):
    d = json.load(open(path))
    print("obligation:", d.get("obligation"))
    print("function:  ", d.get("function"))
    if d.get("playback_test") and d.get("failing_input"):
        h = d["failing_input"]["harness"]
        if d.get("replay_mode") == "incrate":
            r = kani.run_native(d["playback_test"], h, units_incrate.CRATE, units_incrate.TARGET, "bindgen/lib.rs",
                                units_incrate._scratch_copy, tag="replay_cmd")
        else:
            units_path.prepare()
            r = kani.run_native(d["playback_test"], h, units_path.CRATE, units_path.TARGET, tag="replay_cmd")
        print("input (kani::any() values in order):", d["failing_input"]["kani_any_values_in_order"])
        print(r["result"])
        if r.get("panic"):
            print("panic:", r["panic"])
        return 1 if r.get("confirmed") else 0
    # no input recorded: decide the obligation again on the current tree
    import props
    print("no failing input recorded (no-failing-input-found); re-deciding the obligation on the current tree")
    rc = props.PROPS[prop](os.environ.get("VERIF_TIER", "quick"), 0)
    ev = json.load(open(os.path.join("/verif/evidence", prop + ".json")))
    for o in ev["coverage"]["obligation_list"]:
        if o["obligation"] == d.get("obligation"):
            print("REPLAY obligation %s is now %s" % (o["obligation"], o["status"]))
            return 1 if o["status"] == "failed" else 0
    return rc
