"""Kani in-crate units: harness modules under /verif/kani_incrate compiled inside
the bindgen crate through cfg(kani) hook lines."""
import os
import shutil

import kani
from core import BOUNDED, CANARY, CONTRACT, LEMMA, REPO, ROOT, UNDECIDED, WORK, Ob

CRATE = os.path.join(REPO, "bindgen")
TARGET = os.path.join(WORK, "kani_incrate_target")
D = "ir::analysis::derive::verif_kani::"
F = "ir::function::verif_kani::"
L = "verif_kani::lattice::"
DR = "bindgen/ir/analysis/derive.rs:DeriveTrait::"


def derive_tables_spec():
    return [
        dict(harness=D + "table_simple", name="derive::DeriveTrait::can_derive_simple::post(rule table)", kind=CONTRACT, fn=DR + "can_derive_simple"),
        dict(harness=D + "table_pointer_vector", name="derive::DeriveTrait::can_derive_pointer+vector::post", kind=CONTRACT, fn=DR + "can_derive_pointer, can_derive_vector"),
        dict(harness=D + "table_compound", name="derive::DeriveTrait::can_derive_{union,compound_with_destructor,compound_with_vtable,compound_forward_decl,incomplete_array}::post", kind=CONTRACT, fn=DR + "can_derive_union, ..."),
        dict(harness=D + "table_fnptr_n0", name="derive::DeriveTrait::can_derive_fnptr::post[0 args]", kind=BOUNDED, fn=DR + "can_derive_fnptr"),
        dict(harness=D + "table_fnptr_n12", name="derive::DeriveTrait::can_derive_fnptr::post[12 args]", kind=BOUNDED, fn=DR + "can_derive_fnptr"),
        dict(harness=D + "table_fnptr_n13", name="derive::DeriveTrait::can_derive_fnptr::post[13 args]", kind=BOUNDED, fn=DR + "can_derive_fnptr"),
        dict(harness=F + "fnptr_can_derive_n0", name="function::FunctionSig::function_pointers_can_derive::post[0 args]", kind=BOUNDED, fn="bindgen/ir/function.rs:FunctionSig::function_pointers_can_derive"),
        dict(harness=F + "fnptr_can_derive_n12", name="function::FunctionSig::function_pointers_can_derive::post[12 args]", kind=BOUNDED, fn="bindgen/ir/function.rs:FunctionSig::function_pointers_can_derive"),
        dict(harness=F + "fnptr_can_derive_n13", name="function::FunctionSig::function_pointers_can_derive::post[13 args]", kind=BOUNDED, fn="bindgen/ir/function.rs:FunctionSig::function_pointers_can_derive"),
        dict(harness=D + "tables_canary", name="derive::tables::canary", kind=CANARY, covers=3),
    ]


def subscriptions_spec():
    return [dict(harness=D + "cannot_derive_reads_are_subscribed", name="derive::consider_edge_{comp,typeref,tmpl_inst} => consider_edge_default", kind=CONTRACT,
                 fn="bindgen/ir/analysis/derive.rs:DeriveTrait::consider_edge_comp/_typeref/_tmpl_inst, consider_edge_default")]


def lattice_spec():
    return [
        dict(harness=L + "can_derive_join_is_lub", name="derive::CanDerive::join/bitor/bitor_assign::post(lub)", kind=CONTRACT, fn="bindgen/ir/derive.rs:CanDerive::join, BitOr, BitOrAssign"),
        dict(harness=L + "has_vtable_join_is_lub", name="has_vtable::HasVtableResult::join/bitor/bitor_assign::post(lub)", kind=CONTRACT, fn="bindgen/ir/analysis/has_vtable.rs:HasVtableResult::join, BitOr, BitOrAssign"),
        dict(harness=L + "sizedness_join_is_lub", name="sizedness::SizednessResult::join/bitor/bitor_assign::post(lub)", kind=CONTRACT, fn="bindgen/ir/analysis/sizedness.rs:SizednessResult::join, BitOr, BitOrAssign"),
        dict(harness=L + "lattice_canary", name="lattice::canary", kind=CANARY, covers=3),
    ]


def abi_spec():
    return [
        dict(harness=F + "get_abi_table", twin=F + "get_abi_twin", name="function::get_abi::post(calling-convention table)", kind=CONTRACT, fn="bindgen/ir/function.rs:get_abi"),
        dict(harness=F + "get_abi_canary", name="function::get_abi::canary", kind=CANARY, covers=3),
    ]


_done = {}


def run_spec(spec, timeout=1800, jobs=16):
    key = tuple(s["harness"] for s in spec)
    if key in _done:
        return _done[key]
    missing = [f for f in ("derive_tables.rs", "function_abi.rs", "root.rs", "lattice.rs") if not os.path.exists(os.path.join(ROOT, "kani_incrate", f))]
    res, out, cmd, info = kani.run_harnesses(CRATE, TARGET, [s["harness"] for s in spec], jobs=jobs, timeout=timeout)
    obs = kani.to_obligations(spec, res, out, info)
    # a hook line that is no longer there = lost anchor, never a verdict
    if not info["build_failed"] and not res:
        for o in obs:
            o.status, o.detail = UNDECIDED, "no harness ran: cfg(kani) hook lines missing from /repo? (lost anchor)"
    with open(os.path.join(WORK, "last_kani_incrate.log"), "w") as f:
        f.write(out)
    _done[key] = (obs, cmd)
    return obs, cmd


HARNESS_FILES = {
    "ir::analysis::derive::verif_kani": "derive_tables.rs",
    "ir::function::verif_kani": "function_abi.rs",
    "verif_kani::lattice": "lattice.rs",
}


def _scratch_copy(dst, harness):
    """scratch copy of the workspace (no build output) + of the harness modules;
    the hook lines of the COPY are pointed at the copied harness modules and the
    playback test is appended to the module that owns the harness (a test at
    the crate root could not see the private modules)."""
    shutil.copytree(REPO, os.path.join(dst, "repo"), ignore=shutil.ignore_patterns("target", ".git"))
    shutil.copytree(os.path.join(ROOT, "kani_incrate"), os.path.join(dst, "kani_incrate"))
    for rel in ("bindgen/ir/analysis/derive.rs", "bindgen/ir/function.rs", "bindgen/lib.rs"):
        p = os.path.join(dst, "repo", rel)
        t = open(p).read().replace('"/verif/kani_incrate/', '"%s/kani_incrate/' % dst)
        open(p, "w").write(t)
    rp = os.path.join(dst, "kani_incrate", "root.rs")
    open(rp, "w").write(open(rp).read().replace('"/verif/kani_incrate/', '"%s/kani_incrate/' % dst))
    mod = harness.rsplit("::", 1)[0]
    return os.path.join(dst, "kani_incrate", HARNESS_FILES[mod]), "super", os.path.join(dst, "repo", "bindgen")


def replay(prop):
    def f(ob):
        return kani.playback(prop, ob, CRATE, TARGET, lib_rel="bindgen/lib.rs", scratch_copy=_scratch_copy)
    return f
