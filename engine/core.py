"""Obligations, verdicts, known findings, evidence files."""
import fnmatch
import json
import os
import re
import signal
import subprocess
import time

ROOT = "/verif"
REPO = os.environ.get("VERIF_REPO", "/repo")
WORK = os.path.join(ROOT, ".work")
if REPO != "/repo":
    # sensitivity runs on a scratch copy use their own work area
    WORK = os.path.join(WORK, "alt_" + re.sub(r"[^A-Za-z0-9]+", "_", REPO)[-40:])
os.makedirs(WORK, exist_ok=True)
# where evidence/ and replay/ go (a sensitivity run must not touch the real ones)
OUT = os.environ.get("VERIF_OUT_DIR", ROOT)

DISCHARGED, FAILED, UNDECIDED = "discharged", "failed", "undecided"

# kinds of obligation
CONTRACT = "contract"        # pre/post/invariant/overflow obligation of a function under contract
LEMMA = "lemma"              # property-level lemma proved over contracts only
CANARY = "canary"            # vacuity guard: must behave as declared
WITNESS = "region-witness"   # property-derived postcondition on a region that is a recorded finding
BOUNDED = "bounded"          # bounded stand-in, never counted as proved


class Ob:
    def __init__(self, name, kind, status, backend, time_s=0.0, detail="", location="",
                 failed_checks=None, fn="", extra=None):
        self.name = name
        self.kind = kind
        self.status = status
        self.backend = backend
        self.time_s = time_s
        self.detail = detail
        self.location = location
        self.failed_checks = failed_checks or []
        self.fn = fn            # /repo function the obligation is about
        self.extra = extra or {}

    def to_json(self):
        d = {"obligation": self.name, "kind": self.kind, "status": self.status,
             "backend": self.backend, "time_s": round(self.time_s, 2)}
        if self.fn:
            d["function"] = self.fn
        if self.location:
            d["location"] = self.location
        if self.detail:
            d["detail"] = self.detail[:2000]
        if self.failed_checks:
            d["failed_checks"] = self.failed_checks[:10]
        if self.extra:
            d.update(self.extra)
        return d


# ---------------------------------------------------------------------------
# known findings

class Known:
    def __init__(self, path=os.path.join(ROOT, "known_findings.txt")):
        self.findings = []   # (prop, obligation_glob, check_regex, text)
        self.fixed = []
        if not os.path.exists(path):
            return
        for line in open(path):
            line = line.strip()
            if not line or line.startswith("#"):
                continue
            if line.startswith("finding:"):
                m = re.match(r"finding:\s*property=(\S+)\s+obligation=(\S+)\s+checks=/(.*?)/\s*::\s*(.*)$", line)
                if not m:
                    raise SystemExit("known_findings.txt: bad line: " + line)
                self.findings.append(m.groups())
            elif line.startswith("fixed:"):
                self.fixed.append(line)

    def match(self, prop, ob):
        """a failed obligation is a known finding iff property and obligation
        name match AND every failed check is one the finding lists"""
        for p, glob, rx, text in self.findings:
            if p != prop or not fnmatch.fnmatchcase(ob.name, glob):
                continue
            descs = [c.get("description", "") for c in ob.failed_checks] or [ob.detail]
            if all(re.search(rx, d) for d in descs):
                return text
        return None


# ---------------------------------------------------------------------------
# process helper

def run(cmd, cwd=None, timeout=None, env=None):
    e = dict(os.environ)
    e.setdefault("CARGO_NET_OFFLINE", "true")
    if env:
        e.update(env)
    t0 = time.time()
    p = subprocess.Popen(cmd, cwd=cwd, env=e, stdout=subprocess.PIPE, stderr=subprocess.STDOUT,
                         text=True, errors="replace", start_new_session=True)
    try:
        out, _ = p.communicate(timeout=timeout)
        return p.returncode, out, time.time() - t0, False
    except subprocess.TimeoutExpired:
        # kill the whole process group so no solver is left behind
        try:
            os.killpg(p.pid, signal.SIGKILL)
        except ProcessLookupError:
            pass
        out, _ = p.communicate()
        return -9, out or "", time.time() - t0, True


# ---------------------------------------------------------------------------
# verdict + evidence

def finish(prop, tier, seed, obs, meta, t0, replay_fn=None):
    """Print verdict lines, write evidence, return exit code.
    meta: dict with checker_cmd, trusted_base, assumptions, functions_under_contract,
          extraction, unverified, bounded_note ...
    replay_fn(ob) -> path of a replay file (called for each fresh violation)."""
    known = Known()
    lines = []
    viol, undec, kf = [], [], []
    proved = [o for o in obs if o.kind in (CONTRACT, LEMMA)]
    for o in obs:
        if o.kind == CANARY:
            if o.status != DISCHARGED:
                undec.append((o, "vacuity canary did not behave: " + o.detail[:200]))
            continue
        if o.status == UNDECIDED:
            undec.append((o, o.detail[:300]))
        elif o.status == FAILED:
            text = known.match(prop, o)
            if text is not None:
                kf.append((o, text))
            else:
                viol.append(o)
    if not proved:
        undec.append((None, "no obligations generated (vacuous run)"))

    for o, text in kf:
        lines.append("KNOWN-FINDING: property=%s %s [%s]" % (prop, text, o.name))
    # de-duplicate known-finding lines by text (one line per listed finding)
    seen = set()
    out_lines = []
    for o, text in kf:
        if text in seen:
            continue
        seen.add(text)
        n = sum(1 for _, t in kf if t == text)
        out_lines.append("KNOWN-FINDING: property=%s %s (%d witness obligation(s))" % (prop, text, n))
    # one VIOLATION line per function under contract: the first failed
    # obligation is replayed, the others are listed in its replay file
    groups = {}
    for o in viol:
        groups.setdefault(o.fn or o.name, []).append(o)
    for key, grp in groups.items():
        o = grp[0]
        path = replay_fn(o) if replay_fn else write_replay(prop, o, None)
        suffix = ""
        try:
            rj = json.load(open(path))
            if len(grp) > 1:
                rj["also_failed"] = [g.to_json() for g in grp[1:]]
                json.dump(rj, open(path, "w"), indent=1)
            if not rj.get("failing_input"):
                suffix = " no-failing-input-found"
        except Exception:
            suffix = " no-failing-input-found"
        more = " (+%d more obligations of the same function)" % (len(grp) - 1) if len(grp) > 1 else ""
        out_lines.append("VIOLATION property=%s replay=%s obligation=%s%s%s" % (prop, path, o.name, more, suffix))
    for o, why in undec:
        out_lines.append("UNDECIDED property=%s obligation=%s reason=%s" % (
            prop, o.name if o else "-", " ".join(why.split())[:300]))

    n_ob = len(proved)
    n_dis = sum(1 for o in proved if o.status == DISCHARGED)
    wall = time.time() - t0
    by_backend = {}
    for o in proved:
        b = by_backend.setdefault(o.backend, {"obligations": 0, "discharged": 0, "solver_time_s": 0.0})
        b["obligations"] += 1
        b["discharged"] += o.status == DISCHARGED
        b["solver_time_s"] = round(b["solver_time_s"] + o.time_s, 2)
    cov = {
        "obligations": n_ob,
        "discharged": n_dis,
        "checker_cmd": meta.get("checker_cmd", ""),
        "trusted_base": meta.get("trusted_base", []),
        "by_backend": by_backend,
        "functions_under_contract": meta.get("functions_under_contract", []),
        "samples": [o.to_json() for o in proved[:6]],
        "obligation_list": [o.to_json() for o in obs if o.kind in (CONTRACT, LEMMA)],
        "vacuity_canaries": [o.to_json() for o in obs if o.kind == CANARY],
        "region_witnesses": [o.to_json() for o in obs if o.kind == WITNESS],
        "bounded_checks": [o.to_json() for o in obs if o.kind == BOUNDED],
        "known_findings_reported": sorted(seen),
        "undecided": [{"obligation": (o.name if o else "-"), "reason": why} for o, why in undec],
        "extraction": meta.get("extraction", []),
        "unverified": meta.get("unverified", []),
        "exhaustive": False,
    }
    for k in ("explanation", "bounds", "witnesses"):
        if k in meta:
            cov[k] = meta[k]
    ev = {
        "property_id": prop,
        "tier": tier,
        "seed": seed,
        "level": "proof",
        "coverage": cov,
        "assumptions": meta.get("assumptions", []),
        "wall_s": round(wall, 2),
        "violations": len(viol),
    }
    if "sensitivity" in meta:
        cov["sensitivity"] = meta["sensitivity"]
    os.makedirs(os.path.join(OUT, "evidence"), exist_ok=True)
    with open(os.path.join(OUT, "evidence", prop + ".json"), "w") as f:
        json.dump(ev, f, indent=1)
    for l in out_lines:
        print(l)
    print("SUMMARY property=%s tier=%s obligations=%d discharged=%d known_findings=%d violations=%d undecided=%d wall_s=%.1f" % (
        prop, tier, n_ob, n_dis, len(seen), len(viol), len(undec), wall))
    if viol:
        return 1
    if undec:
        return 2
    return 0


def write_replay(prop, ob, playback):
    """replay file: names the failed obligation, carries the verifier output,
    and (if available) the concrete failing input + native replay result"""
    os.makedirs(os.path.join(OUT, "replay"), exist_ok=True)
    safe = re.sub(r"[^A-Za-z0-9_.-]+", "_", ob.name)
    path = os.path.join(OUT, "replay", "%s-%s.json" % (prop, safe))
    d = {
        "property_id": prop,
        "obligation": ob.name,
        "function": ob.fn,
        "backend": ob.backend,
        "location": ob.location,
        "failed_checks": ob.failed_checks,
        "verifier_output": ob.detail[-6000:],
        "failing_input": None,
        "native_replay": None,
    }
    if playback:
        d.update(playback)
    with open(path, "w") as f:
        json.dump(d, f, indent=1)
    return path
