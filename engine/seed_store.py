#!/usr/bin/env python3
"""seed_store.py <seed-id> <property> <out_dir> <caught: yes|no|after-strengthening> <by/why text>
copies patch.diff, demo/, meta.json of a confirmed seeded change into /verif/seeded/<seed-id>/"""
import json
import os
import shutil
import sys

sid, prop, out, caught, text = sys.argv[1:6]
dst = os.path.join("/verif/seeded", sid)
shutil.rmtree(dst, ignore_errors=True)
os.makedirs(dst)
shutil.copy(os.path.join(out, "patch.diff"), dst)
shutil.copytree(os.path.join(out, "demo"), os.path.join(dst, "demo"), ignore=shutil.ignore_patterns("target", "*.rlib", "*.o", "*.so", "*.a", "out", "build"))
try:
    meta = json.load(open(os.path.join(out, "meta.json")))
except Exception as e:
    meta = {"note": "agent meta.json unreadable: %s" % e}
conf = ""
lg = "/tmp/confirm_%s.log" % prop
if len(sys.argv) > 6:
    lg = sys.argv[6]
if os.path.exists(lg):
    conf = open(lg).read()[-3000:]
meta.update({
    "breaks_property": prop,
    "confirmed_by_me": {
        "what_i_ran": "in the agent's scratch worktree: cargo nextest run --workspace --no-fail-fast --offline (690 passed / same 3 known failures); demo/run.sh <worktree with change> (non-zero exit) and demo/run.sh <clean worktree> (exit 0); then git -C /repo apply patch.diff; ./check %s; git -C /repo checkout -- ." % prop,
        "log_tail": conf,
    },
    "detected_by_checks": caught,
    "detection_detail": text,
})
json.dump(meta, open(os.path.join(dst, "meta.json"), "w"), indent=1)
print("stored", dst)
