"""Comment/string-aware scanning of Rust source text.

Only what the extractor needs: find an item by name, return its exact text
span (verbatim, never retyped), split a fn into signature / body, find the
k-th loop of a body.  No parsing beyond brace/paren matching.
"""
import re


class LostAnchor(Exception):
    pass


def mask_noncode(src):
    """Return a string of the same length where comments, string/char literals
    are replaced by spaces (newlines kept), so that brace matching and regex
    search only see code."""
    out = list(src)
    i, n = 0, len(src)

    def blank(a, b):
        for k in range(a, b):
            if out[k] != "\n":
                out[k] = " "

    while i < n:
        c = src[i]
        if src.startswith("//", i):
            j = src.find("\n", i)
            j = n if j < 0 else j
            blank(i, j)
            i = j
        elif src.startswith("/*", i):
            depth, j = 1, i + 2
            while j < n and depth:
                if src.startswith("/*", j):
                    depth += 1
                    j += 2
                elif src.startswith("*/", j):
                    depth -= 1
                    j += 2
                else:
                    j += 1
            blank(i, j)
            i = j
        elif c == '"' or (c in "rb" and re.match(r'(?:b?r#*"|b")', src[i:i + 6]) and (i == 0 or not (src[i - 1].isalnum() or src[i - 1] == "_"))):
            m = re.match(r'b?r(#*)"', src[i:])
            if m:
                hashes = m.group(1)
                end = src.find('"' + hashes, i + m.end())
                j = n if end < 0 else end + 1 + len(hashes)
            else:
                j = i + (2 if c == "b" else 1)
                while j < n and src[j] != '"':
                    j += 2 if src[j] == "\\" else 1
                j += 1
            blank(i + 1, j - 1)  # keep the quotes
            i = j
        elif c == "'":
            # char literal or lifetime
            m = re.match(r"'(?:\\.[^']*|[^\\'])'", src[i:])
            if m:
                blank(i + 1, i + m.end() - 1)
                i += m.end()
            else:
                i += 1
        else:
            i += 1
    return "".join(out)


def match_close(masked, open_idx):
    """index of the bracket closing the one at open_idx"""
    pairs = {"{": "}", "(": ")", "[": "]"}
    o = masked[open_idx]
    c = pairs[o]
    depth = 0
    for k in range(open_idx, len(masked)):
        ch = masked[k]
        if ch == o:
            depth += 1
        elif ch == c:
            depth -= 1
            if depth == 0:
                return k
    raise LostAnchor("unbalanced bracket at %d" % open_idx)


def line_of(src, idx):
    return src.count("\n", 0, idx) + 1


class Source:
    def __init__(self, path):
        self.path = path
        self.text = open(path, encoding="utf-8").read()
        self.masked = mask_noncode(self.text)

    # ---- items -------------------------------------------------------
    def _item_start(self, idx):
        """extend backwards over attributes / doc comments directly above"""
        # we start at the beginning of the line containing idx
        ls = self.text.rfind("\n", 0, idx) + 1
        while ls > 0:
            pe = ls - 1
            ps = self.text.rfind("\n", 0, pe) + 1
            prev = self.text[ps:pe].strip()
            if prev.startswith("#[") or prev.startswith("///") or prev.startswith("//!"):
                ls = ps
            else:
                break
        return ls

    def find_impl(self, header_regex, nth=0):
        """span (start, body_open, body_close) of the nth `impl` block whose
        header (text between `impl` and `{`) matches header_regex"""
        hits = []
        for m in re.finditer(r"(?m)^[ \t]*(?:unsafe\s+)?impl\b", self.masked):
            ob = self.masked.find("{", m.end())
            if ob < 0:
                continue
            header = " ".join(self.text[m.start():ob].split())
            if re.search(header_regex, header):
                hits.append((m.start(), ob, match_close(self.masked, ob)))
        if len(hits) <= nth:
            raise LostAnchor("impl /%s/ #%d not found in %s" % (header_regex, nth, self.path))
        return hits[nth]

    def find_fn(self, name, within=None, nth=0):
        """(start, sig_start, body_open, body_close) of fn `name`.
        start includes attributes/doc comments; sig_start is the first char of
        the qualifiers (`pub`, `const`, `unsafe`, `fn`)."""
        lo, hi = within if within else (0, len(self.text))
        hits = []
        for m in re.finditer(r"\bfn\s+" + re.escape(name) + r"\b\s*(?=[<(])", self.masked[lo:hi]):
            f = lo + m.start()
            # signature start: walk back over qualifiers on the same statement
            ls = self.masked.rfind("\n", 0, f) + 1
            sig_start = ls + (len(self.masked[ls:f]) - len(self.masked[ls:f].lstrip()))
            # find the body: first `{` at bracket depth 0 after the params
            k = lo + m.end()
            depth = 0
            ob = None
            while k < hi:
                ch = self.masked[k]
                if ch in "([":
                    k = match_close(self.masked, k)
                elif ch == "<":
                    depth += 1
                elif ch == ">" and self.masked[k - 1] != "-":
                    depth = max(0, depth - 1)
                elif ch == "{":
                    ob = k
                    break
                elif ch == ";" and depth == 0:
                    break
                k += 1
            if ob is None:
                continue  # declaration without body
            hits.append((self._item_start(f), sig_start, ob, match_close(self.masked, ob)))
        if len(hits) <= nth:
            raise LostAnchor("fn %s #%d not found in %s" % (name, nth, self.path))
        return hits[nth]

    def find_item(self, kind, name):
        """span of `struct|enum|const|type|static name ...` up to `;` or matching `}`"""
        m = re.search(r"(?m)^[ \t]*(?:pub(?:\([a-z]+\))?\s+)?" + kind + r"\s+" + re.escape(name) + r"\b", self.masked)
        if not m:
            raise LostAnchor("%s %s not found in %s" % (kind, name, self.path))
        k = m.end()
        while k < len(self.masked):
            ch = self.masked[k]
            if ch == "{":
                end = match_close(self.masked, k) + 1
                break
            if ch in "([":
                k = match_close(self.masked, k)
            elif ch == ";":
                end = k + 1
                break
            k += 1
        else:
            raise LostAnchor("%s %s unterminated" % (kind, name))
        if kind == "struct" and self.masked[end - 1] == ")":
            # tuple struct: include trailing ';'
            end = self.masked.find(";", end) + 1
        return (self._item_start(m.start()), end)

    # ---- loops -------------------------------------------------------
    def loops_in(self, body_open, body_close):
        """positions (kw_start, brace_open, brace_close) of while/for/loop
        statements inside a body, in source order"""
        res = []
        for m in re.finditer(r"\b(while|for|loop)\b", self.masked[body_open:body_close]):
            s = body_open + m.start()
            # `for` in `impl .. for ..`/HRTB cannot occur inside a fn body statement position
            k = body_open + m.end()
            ob = None
            while k < body_close:
                ch = self.masked[k]
                if ch in "([":
                    k = match_close(self.masked, k)
                elif ch == "{":
                    ob = k
                    break
                elif ch == ";":
                    break
                k += 1
            if ob is not None:
                res.append((s, ob, match_close(self.masked, ob)))
        return res
