"""Rule R30 (env completeness, mechanised): when the extracted text calls a `&self` getter that the unit's hand-written
env does not offer (rustc: "no method named `x` found for ... `T`"), look the getter up in the real sources and, if its
signature is simple (only `&BindgenContext` / `&()` / scalar parameters, scalar or no result), append an UNINTERPRETED
accessor for it:  `impl T { uninterp spec fn auto_s_x(..) -> R;  #[external_body] fn x(..) -> (r: R) ensures r == auto_s_x(..) }`.
An uninterpreted value can only make proofs harder, never easier: an edit that starts to consult new state is then DECIDED
(its obligations hold only if they do not depend on the new read) instead of being rejected by the front end."""
import os
import re

from rsparse import Source

SCALARS = {"bool", "usize", "u8", "u16", "u32", "u64", "i8", "i16", "i32", "i64", "isize"}
PARAM_OK = {"&BindgenContext": "&BindgenContext", "&()": "&()"}
PARAM_OK.update({s: s for s in SCALARS})
PARAM_OK.update({"ItemId": "ItemId", "TypeId": "TypeId"})

MISSING_RX = re.compile(r"no method named `(\w+)` found for (?:reference|struct|enum) `&*(?:mut )?([A-Za-z_][A-Za-z0-9_:]*)(?:<[^`]*>)?`")


def missing_methods(diags):
    out = []
    for d in diags:
        if d.get("level") != "error":
            continue
        m = MISSING_RX.search(d.get("message", ""))
        if m:
            t = m.group(2).split("::")[-1]
            if (t, m.group(1)) not in out:
                out.append((t, m.group(1)))
    return out


def _find_sig(repo, T, X):
    root = os.path.join(repo, "bindgen")
    rx = re.compile(r"\bfn\s+" + re.escape(X) + r"\s*(?:<\s*(\w+)\s*:\s*Into<ItemId>\s*>)?\s*\(\s*&self\s*(?:,([^)]*))?\)\s*(?:->\s*([^{;]+?))?\s*\{")
    for dp, _, fs in os.walk(root):
        for fn in sorted(fs):
            if not fn.endswith(".rs"):
                continue
            p = os.path.join(dp, fn)
            try:
                S = Source(p)
            except Exception:
                continue
            for m in rx.finditer(S.masked):
                heads = [h for h in re.finditer(r"(?m)^\s*impl\b[^{;]*\{", S.masked[:m.start()])]
                if not heads:
                    continue
                head = heads[-1].group(0)
                if not re.search(r"\b" + re.escape(T) + r"\b", head):
                    continue
                params = (m.group(2) or "").strip()
                if m.group(1):      # `<Id: Into<ItemId>>`: the getter is called with item ids
                    params = re.sub(r":\s*" + re.escape(m.group(1)) + r"\b", ": ItemId", params)
                return params, (m.group(3) or "").strip(), os.path.relpath(p, repo), S.text.count("\n", 0, m.start()) + 1
    return None


def make(repo, missing):
    """-> (verus text to append, log entries)"""
    chunks, log = [], []
    for T, X in missing:
        sig = _find_sig(repo, T, X)
        if not sig:
            continue
        params, ret, rel, line = sig
        names, tys, ok = [], [], True
        for prm in [x.strip() for x in params.split(",") if x.strip()]:
            if ":" not in prm:
                ok = False
                break
            n, t = [x.strip() for x in prm.split(":", 1)]
            if t not in PARAM_OK or not re.fullmatch(r"_?[a-z_][a-z0-9_]*", n):
                ok = False
                break
            names.append(n.lstrip("_") or "p%d" % len(names))
            tys.append(PARAM_OK[t])
        if not ok or (ret and ret not in SCALARS):
            continue
        decl = ", ".join("%s: %s" % (n, t) for n, t in zip(names, tys))
        args = ", ".join(names)
        sep = ", " if decl else ""
        if ret:
            chunks.append("impl %s {\n    pub uninterp spec fn auto_s_%s(&self%s%s) -> %s;\n"
                          "    #[verifier::external_body] pub fn %s(&self%s%s) -> (r: %s) ensures r == self.auto_s_%s(%s) { unimplemented!() }\n}\n"
                          % (T, X, sep, decl, ret, X, sep, decl, ret, X, args))
        else:
            chunks.append("impl %s {\n    #[verifier::external_body] pub fn %s(&self%s%s) { unimplemented!() }\n}\n" % (T, X, sep, decl))
        log.append({"item": "R30 auto accessor %s::%s" % (T, X), "file": rel, "repo_line": line, "signature": "(&self%s%s)%s" % (sep, decl, " -> " + ret if ret else "")})
    if not chunks:
        return "", []
    return "\n// ---- rule R30: uninterpreted accessors added because the extracted text calls getters the env does not offer\nverus! {\n" + "".join(chunks) + "} // verus!\n", log
