"""Verus units: layout (C02/C10/C12), macro_type (C05), edges (C07/C09), derive_gate (C08)."""
import re

import verus
from core import WITNESS, write_replay

_cache = {}


def run_unit(unit):
    if unit not in _cache:
        _cache[unit] = verus.verify_unit(unit)
    return _cache[unit]


def select(obs, fn_regex=None, clause_regex=None, keep_meta=True):
    out = []
    for o in obs:
        if o.name.endswith("::extraction") or o.name.endswith("::assumption_scan"):
            out.append(o)       # a unit that could not be built / scanned concerns every selection from it
            continue
        if o.kind == "canary":
            if keep_meta:
                out.append(o)
            continue
        if fn_regex and not re.search(fn_regex, o.name):
            continue
        if clause_regex and not re.search(clause_regex, o.name.rsplit("::", 1)[-1]):
            continue
        out.append(o)
    return out


def replay(prop):
    def f(ob):
        return write_replay(prop, ob, {"failing_input": None,
                                       "note": "Verus gives no counterexample; the failed obligation, its /repo location and the verifier output are above"})
    return f
