"""Sensitivity self-test (thorough tier, DESIGN 1.8): every seeded / mutant edit
that a check is supposed to detect is applied to a SCRATCH COPY of /repo (outside
/repo and /verif), the property's quick check is run against the copy, and the
named obligation must fail.  Nothing is written to the real evidence/replay."""
import glob
import json
import os
import re
import shutil
import subprocess
import sys
import tempfile

ROOT = "/verif"


def candidates(prop):
    out = []
    for m in json.load(open(os.path.join(ROOT, "mutants", "mutants.json"))):
        if m["property"] == prop and not m.get("skip"):
            out.append(dict(m, kind="mutant"))
    for d in sorted(glob.glob(os.path.join(ROOT, "seeded", "*"))):
        try:
            meta = json.load(open(os.path.join(d, "meta.json")))
        except Exception:
            continue
        props = [meta.get("breaks_property")] + list(meta.get("also_checked_by", []))
        if prop in props and meta.get("detected_by_checks") in ("yes", "after-strengthening"):
            out.append({"id": os.path.basename(d), "property": prop, "kind": "seed", "patch": os.path.join(d, "patch.diff"),
                        "expect": meta.get("expect_obligation", "")})
    return out


def apply(m, repo):
    if m["kind"] == "seed":
        r = subprocess.run(["git", "apply", "--unsafe-paths", "--directory", repo, m["patch"]], cwd=repo, capture_output=True, text=True)
        if r.returncode != 0:
            r = subprocess.run(["patch", "-p1", "-i", m["patch"]], cwd=repo, capture_output=True, text=True)
        return r.returncode == 0, (r.stderr or r.stdout)[-300:]
    p = os.path.join(repo, m["file"])
    t = open(p).read()
    if t.count(m["old"]) != 1:
        return False, "anchor text found %d times" % t.count(m["old"])
    open(p, "w").write(t.replace(m["old"], m["new"]))
    return True, ""


def run(prop, only=None):
    res = []
    base = tempfile.mkdtemp(prefix="verif_sens_")
    try:
        for m in candidates(prop):
            if only and m["id"] not in only:
                continue
            repo = os.path.join(base, "repo")
            shutil.rmtree(repo, ignore_errors=True)
            shutil.copytree("/repo", repo, ignore=shutil.ignore_patterns("target", ".git"))
            ok, why = apply(m, repo)
            if not ok:
                res.append({"id": m["id"], "result": "not-applicable", "why": "edit does not apply to the current tree: " + why})
                continue
            out_dir = os.path.join(base, "out")
            env = dict(os.environ, VERIF_REPO=repo, VERIF_OUT_DIR=out_dir, VERIF_TIER="quick")
            p = subprocess.run([os.path.join(ROOT, "check"), prop, "--tier", "quick"], cwd=ROOT, env=env, capture_output=True, text=True)
            viol = re.findall(r"VIOLATION property=\S+ replay=\S+ obligation=(\S+)", p.stdout)
            also = []
            for rf in glob.glob(os.path.join(out_dir, "replay", "*.json")):
                try:
                    rj = json.load(open(rf))
                    also += [rj.get("obligation", "")] + [a.get("obligation", "") for a in rj.get("also_failed", [])]
                except Exception:
                    pass
            allv = sorted(set(viol + also))
            hit = [v for v in allv if not m.get("expect") or re.search(m["expect"], v)]
            if p.returncode == 1 and hit:
                r = "detected"
            elif p.returncode == 1:
                r = "detected-elsewhere"
            elif p.returncode == 2:
                r = "undecided"
            else:
                r = "MISSED"
            res.append({"id": m["id"], "kind": m["kind"], "result": r, "failed_obligations": allv[:6], "expected": m.get("expect", ""),
                        "note": m.get("note", "")})
            shutil.rmtree(out_dir, ignore_errors=True)
    finally:
        shutil.rmtree(base, ignore_errors=True)
        # the alternative work area of THIS sensitivity run (named after the scratch path)
        tag = re.sub(r"[^A-Za-z0-9]+", "_", os.path.join(base, "repo"))[-40:]
        shutil.rmtree(os.path.join(ROOT, ".work", "alt_" + tag), ignore_errors=True)
    return res


if __name__ == "__main__":
    r = run(sys.argv[1], set(sys.argv[2:]) or None)
    for x in r:
        print(x["id"], x["result"], x.get("failed_obligations"), x.get("why", ""))
