#!/usr/bin/env python3
"""Regenerates MANIFEST.json from the tables below (single source of truth)."""
import json
import os
import subprocess

ROOT = os.path.dirname(os.path.dirname(os.path.abspath(__file__)))

CLAIMED = {
    "C03": dict(
        technique="Kani function contracts (proof_for_contract + stub_verified lemmas) on the real bitfield_unit.rs; CBMC, complete per storage size",
        text="Deductive proof, per storage size N<=16, that all 12 accessor entry points of __BindgenBitfieldUnit equal the little-endian bit-vector model (value and frame) for every offset, width, storage content and value; lemmas (round trip, disjoint fields, constructor) proved over the contracts only. Known finding F1 on the region (off%8)+w>64.",
        note="Trusted: Kani/CBMC; the u128 reference model; rule L1 (const generics lifted to value parameters); debug_assert!s taken as preconditions (established by bitfields_to_allocation_units, unverified); host little-endian/64-bit; accessor glue in codegen/mod.rs (sign extension) unverified.",
        ref="DESIGN.md §3 C03"),
    "C02": dict(
        technique="Verus contracts on mechanically extracted real functions (struct_layout.rs, ir/layout.rs, helpers.rs): representation invariant, placement and size theorems, blob exactness",
        text="Deductive proof (Verus/Z3, unbounded) on the extracted text of the layout tracker: align_to is the least multiple; Layout::for_size picks the largest dividing power of two; blob/known_type_for_size emit a type of exactly the requested size and alignment; the tracker invariant is preserved by every operation; PLACEMENT THEOREM: in a plain struct the padding returned by saw_field_with_layout puts the next field at the byte offset clang reports; SIZE THEOREM for pad_struct; requires_explicit_align. Found and repaired F2/F4.",
        note="Trusted: Verus/Z3; extraction rules R1-R10; Rust-reference layout rules for emitted type tokens (env); libclang numbers; uninterpreted context reads. Unverified: CompInfo::codegen call order and repr selection, packed/union/bit-field-adjacent placement (invariant+safety only), primitive type mapping, pad_struct sub-region with 8-aligned inexact padding.",
        ref="DESIGN.md §3 C02"),
    "C10": dict(
        technique="Verus contracts on extracted helpers::blob / Layout::known_type_for_size / for_size_internal (shared with C02)",
        text="Deductive proof that the opaque blob emitted for any layout libclang can report (size multiple of alignment, alignment 0 or a power of two) has exactly that size and alignment, on the ffi-safe and the padding path, including len==1 and align>4. Only the opaque-blob half of C10.",
        note="Trusted: as C02. Unverified: blocklist tests, IsOpaque, tracing cut-off, trait vouching (IR/regex-bound).",
        ref="DESIGN.md §3 C10"),
    "C12": dict(
        technique="Verus/Kani safety obligations (overflow, underflow, unwrap, callee preconditions, termination) of every function under contract; concrete Kani witnesses for from_str",
        text="Deductive proof of panic-freedom and termination for the functions under contract (layout tracker, Layout, blob, ...), under stated preconditions; regression guards for the repaired defects F2 (add_tail_padding underflow) and F3 (from_str underflow, concrete witness harnesses = bounded).",
        note="Trusted: as C02. Narrow: the hundreds of unwrap/expect sites that depend on libclang AST shapes, recursion depth and Builder::generate error paths are not under contract.",
        ref="DESIGN.md §3 C12"),
    "C14": dict(
        technique="Kani function contracts on the real features.rs over the full u64 version domain; CBMC, complete",
        text="Deductive proof over every (minor, patch) in u64 x u64, nightly, and all editions that RustFeatures::new equals the release-notes gating table, is monotone in the version, ignores the patch level; edition availability and latest_edition; RustTarget::stable rejects exactly minor<51; LATEST/EARLIEST constants.",
        note="Trusted: Kani/CBMC; the release-notes oracle table. Unverified: that every codegen site consults its flag; edition validation in Builder::generate; RustTarget::from_str/default.",
        ref="DESIGN.md §3 C14"),
}

NOT_APPLICABLE = {
    "C01": "rustc acceptance of quote!-assembled text from a libclang-only IR: no function in the crate has it as a postcondition and neither verifier models rustc (DESIGN §3 C01)",
    "C06": "layout assertions are quote! templates filled while iterating a libclang-built CompInfo; no kernel function to put a contract on (DESIGN §3 C06)",
    "C11": "hyper-property over whole executions (hash seeds, threads, processes); Kani has no threads, no single-function contract expresses it (DESIGN §3 C11)",
    "C13": "options!/clap macro-generated round trip judged by two full generations; no plain function carries the relation (DESIGN §3 C13)",
    "C15": "child process, pipes and a writer thread; neither verifier models processes or threads (DESIGN §3 C15)",
    "C16": "C text serialisation judged by a C compiler and execution; needs a live libclang context (DESIGN §3 C16)",
    "C17": "include set is libclang's preprocessing record; escaping is str::replace/format! (no Verus str reasoning, Kani only for 2-3 byte names) (DESIGN §3 C17)",
    "C18": "sort_by_key contract is a dependency's; merge_extern_blocks crashes the Kani 0.68 compiler on syn (ICE intrinsics.rs:243) and Verus would need a rewrite (DESIGN §3 C18)",
}

PENDING = {
    "C04": "claimed narrowly in DESIGN.md; check not built yet in this commit",
    "C05": "claimed in DESIGN.md; check not built yet in this commit",
    "C07": "claimed narrowly in DESIGN.md; check not built yet in this commit",
    "C08": "claimed in DESIGN.md; check not built yet in this commit",
    "C09": "claimed narrowly in DESIGN.md; check not built yet in this commit",
}


def main():
    checks = []
    for pid in sorted(CLAIMED):
        c = CLAIMED[pid]
        checks.append({
            "property_id": pid,
            "quick_cmd": "./check %s --tier quick" % pid,
            "thorough_cmd": "./check %s --tier thorough" % pid,
            "evidence_file": "/verif/evidence/%s.json" % pid,
            "replay_cmd_template": "./check %s --replay {path}" % pid,
            "engine": c.get("engine", "contracts"),
            "level_claimed": {"category": "proof", "text": c["text"], "design_ref": c["ref"]},
            "level_note": c["note"],
            "technique": c["technique"],
        })
    na = [{"property_id": k, "reason": v} for k, v in sorted({**NOT_APPLICABLE, **PENDING}.items())]
    hooks = json.load(open(os.path.join(ROOT, "engine", "hooks.json")))
    m = {
        "version": 1,
        "setup_cmd": "./setup.sh",
        "hooks": hooks,
        "engines": [
            {"name": "contracts", "path": "/verif/engine", "serves_properties": sorted(CLAIMED),
             "kind_free_text": "contract-based deductive verification: Kani function contracts on the real files (path mode / in-crate mode) and Verus on mechanically extracted function text"},
        ],
        "checks": checks,
        "not_applicable": na,
        "notes": "exit 0 = all obligations discharged; exit 1 = VIOLATION; exit 2 = UNDECIDED (lost anchor, tool limit) - never an alarm. Known findings in /verif/known_findings.txt.",
    }
    with open(os.path.join(ROOT, "MANIFEST.json"), "w") as f:
        json.dump(m, f, indent=1)
    print("MANIFEST.json written: %d checks, %d not applicable" % (len(checks), len(na)))


if __name__ == "__main__":
    main()
