#!/usr/bin/env python3
"""Regenerates MANIFEST.json from the tables below (single source of truth)."""
import json
import os
import subprocess

ROOT = os.path.dirname(os.path.dirname(os.path.abspath(__file__)))

CLAIMED = {
    "C03": dict(
        technique="Kani function contracts (proof_for_contract + stub_verified lemmas) on the real bitfield_unit.rs; CBMC, complete per storage size",
        text="Deductive proof, per storage size N<=16, that all 12 accessor entry points of __BindgenBitfieldUnit equal the little-endian bit-vector model (value and frame) for every offset, width, storage content and value; lemmas (round trip, disjoint fields, constructor) proved over the contracts only. Known finding F1 on the region (off%8)+w>64.",
        note="Trusted: Kani/CBMC; the u128 reference model; rule L1 (const generics lifted to value parameters); debug_assert!s taken as preconditions (established by bitfields_to_allocation_units, unverified); host little-endian/64-bit; accessor glue in codegen/mod.rs (sign extension) unverified.",
        ref="DESIGN.md §3 C03"),
    "C02": dict(
        technique="Verus contracts on mechanically extracted real functions (struct_layout.rs, ir/layout.rs, helpers.rs): representation invariant, placement and size theorems, blob exactness",
        text="Deductive proof (Verus/Z3, unbounded) on the extracted text of the layout tracker: align_to is the least multiple; Layout::for_size picks the largest dividing power of two; blob/known_type_for_size emit a type of exactly the requested size and alignment; the tracker invariant is preserved by every operation; PLACEMENT THEOREM: in a plain struct the padding returned by saw_field_with_layout puts the next field at the byte offset clang reports; SIZE THEOREM for pad_struct; requires_explicit_align. Found and repaired F2/F4.",
        note="Trusted: Verus/Z3; extraction rules R1-R10; Rust-reference layout rules for emitted type tokens (env); libclang numbers; uninterpreted context reads. Unverified: CompInfo::codegen call order and repr selection, packed/union/bit-field-adjacent placement (invariant+safety only), primitive type mapping, pad_struct sub-region with 8-aligned inexact padding.",
        ref="DESIGN.md §3 C02"),
    "C04": dict(
        technique="Kani function contract on the private get_abi (in-crate harness via cfg(kani) hook), full u32 domain",
        text="Deductive proof (loop-free, every CXCallingConv value) that the calling convention libclang reports is mapped to the Rust ABI the C compiler uses, and to Unknown exactly for unlisted conventions. Only the calling-convention table of C04.",
        note="Trusted: Kani/CBMC; oracle table from clang-c/Index.h. Unverified (most of C04): mangled names, link_name omission, argument lowering, method wrappers, ABI classification rustc vs clang.",
        ref="DESIGN.md §3 C04"),
    "C05": dict(
        technique="Verus contracts on extracted default_macro_constant_type, IntKind::is_signed, IntKind::known_size",
        text="Deductive proof for all i64 macro values and both option reads that the integer kind chosen for a macro constant can hold the value with the sign the property demands, is the narrowest such kind under fit-macro-constant-types and 32/64 bits otherwise; IntKind sign/size tables agree with the C model.",
        note="Trusted: Verus/Z3; extraction rules; widening-conversion specs; C-model table. Unverified: cexpr/libclang evaluation, literal emission in Var::codegen, Enum::codegen repr translation.",
        ref="DESIGN.md §3 C05"),
    "C07": dict(
        technique="Kani (in-crate) lattice-join contracts + Verus contracts on the extracted consider_edge predicates against hand-derived read-sets",
        text="Deductive proof of two necessary conditions of the least-fixed-point claim: every join the analyses use is the least upper bound of its declared order (all operand pairs), and every edge kind a constrain rule reads along is subscribed by that analysis' dependency predicate (six analyses + the three CannotDerive reader predicates).",
        note="Narrow. Trusted: read-sets derived by reading each constrain; Kani/Verus. Unverified: constrain bodies on real IR, the worklist driver analyze (closure captures &mut), Trace impls, termination, declaration-order corollary.",
        ref="DESIGN.md §3 C07"),
    "C08": dict(
        technique="Verus contracts on the extracted impl CanDerive* gate bodies + Kani in-crate proofs of the private DeriveTrait rule tables against a property-derived oracle",
        text="Deductive proof that each CanDerive* query is exactly option && analysis lookup (&& no float for Eq/Ord), and that the per-kind derive rule tables (floats/Hash, pointers+enums/Default, unions only Copy, destructor/Copy, vtable/Default, forward decl, incomplete arrays, vectors/PartialOrd) equal the rules the property lists, for all 5 traits x 17 constructible type kinds; fn-pointer 12-argument rule bounded (0/12/13 args).",
        note="Trusted: Kani/Verus; oracle tables; T instantiated at ItemId. Unverified: CannotDerive::constrain_type on real IR, derives_of_item, hand-written impl bodies.",
        ref="DESIGN.md §3 C08"),
    "C09": dict(
        technique="Verus contracts on extracted traversal::codegen_edges / only_inner_type_edges / all_edges",
        text="Deductive proof of the per-edge decision of the allowlist traversal: every edge whose target is a type is followed iff types are generated (vars, methods, constructors, destructors likewise), no-recursive mode follows exactly inner-type edges. Closure/minimality over real graphs are not decided.",
        note="Narrow. Trusted: Verus/Z3; uninterpreted CodegenConfig reads; type-edge table from the Trace impls. Unverified: root selection, ItemTraversal, Trace impls, regex anchoring, textual identity.",
        ref="DESIGN.md §3 C09"),
    "C10": dict(
        technique="Verus contracts on extracted helpers::blob / Layout::known_type_for_size / for_size_internal (shared with C02)",
        text="Deductive proof that the opaque blob emitted for any layout libclang can report (size multiple of alignment, alignment 0 or a power of two) has exactly that size and alignment, on the ffi-safe and the padding path, including len==1 and align>4. Only the opaque-blob half of C10.",
        note="Trusted: as C02. Unverified: blocklist tests, IsOpaque, tracing cut-off, trait vouching (IR/regex-bound).",
        ref="DESIGN.md §3 C10"),
    "C12": dict(
        technique="Verus/Kani safety obligations (overflow, underflow, unwrap, callee preconditions, termination) of every function under contract; concrete Kani witnesses for from_str",
        text="Deductive proof of panic-freedom and termination for the functions under contract (layout tracker, Layout, blob, ...), under stated preconditions; regression guards for the repaired defects F2 (add_tail_padding underflow) and F3 (from_str underflow, concrete witness harnesses = bounded).",
        note="Trusted: as C02. Narrow: the hundreds of unwrap/expect sites that depend on libclang AST shapes, recursion depth and Builder::generate error paths are not under contract.",
        ref="DESIGN.md §3 C12"),
    "C14": dict(
        technique="Kani function contracts on the real features.rs over the full u64 version domain; CBMC, complete",
        text="Deductive proof over every (minor, patch) in u64 x u64, nightly, and all editions that RustFeatures::new equals the release-notes gating table, is monotone in the version, ignores the patch level; edition availability and latest_edition; RustTarget::stable rejects exactly minor<51; LATEST/EARLIEST constants.",
        note="Trusted: Kani/CBMC; the release-notes oracle table. Unverified: that every codegen site consults its flag; edition validation in Builder::generate; RustTarget::from_str/default.",
        ref="DESIGN.md §3 C14"),
}

NOT_APPLICABLE = {
    "C01": "rustc acceptance of quote!-assembled text from a libclang-only IR: no function in the crate has it as a postcondition and neither verifier models rustc (DESIGN §3 C01)",
    "C06": "layout assertions are quote! templates filled while iterating a libclang-built CompInfo; no kernel function to put a contract on (DESIGN §3 C06)",
    "C11": "hyper-property over whole executions (hash seeds, threads, processes); Kani has no threads, no single-function contract expresses it (DESIGN §3 C11)",
    "C13": "options!/clap macro-generated round trip judged by two full generations; no plain function carries the relation (DESIGN §3 C13)",
    "C15": "child process, pipes and a writer thread; neither verifier models processes or threads (DESIGN §3 C15)",
    "C16": "C text serialisation judged by a C compiler and execution; needs a live libclang context (DESIGN §3 C16)",
    "C17": "include set is libclang's preprocessing record; escaping is str::replace/format! (no Verus str reasoning, Kani only for 2-3 byte names) (DESIGN §3 C17)",
    "C18": "sort_by_key contract is a dependency's; merge_extern_blocks crashes the Kani 0.68 compiler on syn (ICE intrinsics.rs:243) and Verus would need a rewrite (DESIGN §3 C18)",
}

PENDING = {
}


def main():
    checks = []
    for pid in sorted(CLAIMED):
        c = CLAIMED[pid]
        checks.append({
            "property_id": pid,
            "quick_cmd": "./check %s --tier quick" % pid,
            "thorough_cmd": "./check %s --tier thorough" % pid,
            "evidence_file": "/verif/evidence/%s.json" % pid,
            "replay_cmd_template": "./check %s --replay {path}" % pid,
            "engine": c.get("engine", "contracts"),
            "level_claimed": {"category": "proof", "text": c["text"], "design_ref": c["ref"]},
            "level_note": c["note"],
            "technique": c["technique"],
        })
    na = [{"property_id": k, "reason": v} for k, v in sorted({**NOT_APPLICABLE, **PENDING}.items())]
    hooks = json.load(open(os.path.join(ROOT, "engine", "hooks.json")))
    m = {
        "version": 1,
        "setup_cmd": "./setup.sh",
        "hooks": hooks,
        "engines": [
            {"name": "contracts", "path": "/verif/engine", "serves_properties": sorted(CLAIMED),
             "kind_free_text": "contract-based deductive verification: Kani function contracts on the real files (path mode / in-crate mode) and Verus on mechanically extracted function text"},
        ],
        "checks": checks,
        "not_applicable": na,
        "notes": "exit 0 = all obligations discharged; exit 1 = VIOLATION; exit 2 = UNDECIDED (lost anchor, tool limit) - never an alarm. Known findings in /verif/known_findings.txt.",
    }
    with open(os.path.join(ROOT, "MANIFEST.json"), "w") as f:
        json.dump(m, f, indent=1)
    print("MANIFEST.json written: %d checks, %d not applicable" % (len(checks), len(na)))


if __name__ == "__main__":
    main()
