#!/usr/bin/env python3
"""Regenerates MANIFEST.json from the tables below (single source of truth)."""
import json
import os
import subprocess

ROOT = os.path.dirname(os.path.dirname(os.path.abspath(__file__)))

CLAIMED = {
    "C03": dict(
        technique="Kani function contracts (proof_for_contract + stub_verified lemmas) on the real bitfield_unit.rs, complete per storage size; Verus contracts on extracted bitfields_to_allocation_units, pad_to_bitfield_unit, is_packed",
        text="Deductive proof, per storage size N<=16, that all 12 accessor entry points of __BindgenBitfieldUnit equal the little-endian bit-vector model (value and frame) for every offset, width, storage content and value, with lemmas over the contracts (round trip, disjoint fields, constructor); and that the allocation of bit-fields to units obeys the psABI placement rule, keeps order without overlap and establishes the precondition of the accessors (three contracts by offset mode), that the unit lands at its C offset, and the packed decision. Known findings F1 (shift by 64), F7 (union unit too short) and F18 (signed getters do not sign-extend); F5, F15, F17 repaired.",
        note="Trusted: Kani/CBMC, Verus/Z3; the u128 reference model; rules L1, R12-R16 (generic instantiation, for-loop and callback desugaring to trusted cursors); psABI placement rule as transcribed; libclang offsets non-decreasing and ABI-placed; host little-endian/64-bit. Unverified: accessor glue in codegen/mod.rs (cast chain, transmute: signed bit-fields are NOT sign-extended by it, observed, outside the contracts), raw_fields_to_fields_and_bitfield_units grouping, units longer than 16 bytes for the accessor proofs.",
        ref="DESIGN.md §3 C03"),
    "C02": dict(
        technique="Verus contracts on mechanically extracted real functions (struct_layout.rs, ir/layout.rs, helpers.rs, comp.rs): tracker invariant, placement/size theorems, blob exactness, primitive type mapping, packed decisions",
        text="Deductive proof (Verus/Z3, unbounded) on the extracted text of 30 functions: align_to is the least multiple; Layout::for_size picks the largest dividing power of two; blob/known_type_for_size emit a type of exactly the requested size and alignment; the tracker invariant is preserved by every operation; PLACEMENT THEOREM: in a plain struct the padding returned by saw_field_with_layout / pad_to_bitfield_unit puts the next field / bit-field unit at the byte offset clang reports, for every alignment; SIZE THEOREM for pad_struct; requires_explicit_align; int/float kind -> Rust type of the same width and sign; is_packed / already_packed. Found and repaired F2, F4, F5.",
        note="Trusted: Verus/Z3; extraction rules R1-R10; Rust-reference layout rules for emitted type tokens (env); libclang numbers; uninterpreted context reads. Unverified: CompInfo::codegen call order and repr selection, packed/union/bit-field-adjacent placement (invariant+safety only), primitive type mapping, pad_struct sub-region with 8-aligned inexact padding.",
        ref="DESIGN.md §3 C02"),
    "C04": dict(
        technique="Kani function contract on the private get_abi (in-crate harness via cfg(kani) hook), full u32 domain; Verus contracts on extracted FunctionSig::abi, argument/return lowering, the pointer arm of try_to_rust_ty and names_will_be_identical_after_mangling",
        text="Deductive proof (loop-free, every CXCallingConv value) that the calling convention libclang reports is mapped to the Rust ABI the C compiler uses, and to Unknown exactly for unlisted conventions; that the emitted ABI is the override or the reported one; argument/return/pointer lowering rules; and, for names of every length, that #[link_name] is omitted exactly when the symbol is the Rust name or its platform decoration for the calling convention (slice bounds proved). Known finding F9: the decoration test ignores the target (ELF `_name`).",
        note="Trusted: Kani/CBMC, Verus/Z3; oracle table from clang-c/Index.h; decoration table from the Microsoft/Mach-O conventions; rule R21 (std str/slice operations as Seq-specified env functions). Unverified: mangled names from libclang, the call sites of the link_name decision, method wrappers, merge_extern_blocks, ABI classification rustc vs clang.",
        ref="DESIGN.md §3 C04"),
    "C05": dict(
        technique="Verus contracts on extracted default_macro_constant_type, IntKind::is_signed, IntKind::known_size, clang::EvalResult::as_int",
        text="Deductive proof for all i64 macro values and both option reads that the integer kind chosen for a macro constant can hold the value with the sign the property demands, is the narrowest such kind under fit-macro-constant-types and 32/64 bits otherwise; IntKind sign/size tables agree with the C model; the value of a const initialiser / fallback macro and of an enumerator is read from the full-width libclang getter matching its signedness; a character-literal macro has the byte value of the literal or is omitted (F10 repaired); the integer literal printed for a variable denotes the value in the signedness of its type.",
        note="Trusted: Verus/Z3; extraction rules incl. R20 (unsafe FFI call -> safe stub with an uninterpreted spec); widening-conversion specs; C-model table. Unverified: cexpr/libclang evaluation itself, literal emission in Var::codegen, Enum::codegen repr translation.",
        ref="DESIGN.md §3 C05"),
    "C06": dict(
        technique="Verus contracts on the layout-assertion block and the per-member assertion closure of CompInfo::codegen, TemplateInstantiation::codegen, and the libclang size/alignment/offset getters, extracted mechanically",
        text="Deductive proof, for structs and unions generated by CompInfo::codegen, that with layout tests enabled exactly one assertion item is emitted which states the size and alignment libclang reported and one offset assertion (clang bit offset / 8) for every named non-bit-field member with a known offset, none for opaque types; and that with layout tests disabled, for forward declarations and for unknown layouts nothing is emitted. The same for template instantiations with concrete arguments (size and alignment). The asserted numbers are libclang's 64-bit values without truncation (clang.rs getters). Narrow: other targets and the evaluation of the emitted expressions by rustc are not decided.",
        note="Trusted: Verus/Z3; extraction rules incl. R18 and span substitutions; each assertion token template is an env constructor recording what it asserts; libclang's numbers. Unverified: completeness of the field list, non-host targets, that every concrete struct reaches the block.",
        ref="DESIGN.md §7 (C06 moved from not-applicable to narrowly claimed after rule R18)"),
    "C07": dict(
        technique="Kani (in-crate) lattice-join contracts + Verus contracts on the extracted consider_edge predicates, the set- and lattice-valued insert/constrain functions and the generic worklist driver analyze::<A>",
        text="Deductive proof of necessary conditions of the least-fixed-point claim: every join is the least upper bound of its declared order; every edge kind a rule reads along is subscribed; table updates are inflationary and report Changed exactly when the table changed; the three set-valued rules satisfy their fix-point equation; and the generic driver analyze::<A>, for every analysis meeting the MonotoneFramework obligations, returns a state in which re-applying the rule at any node of the initial worklist changes nothing.",
        note="Narrow. Trusted: read-sets derived by reading each constrain; Kani/Verus; the trait-level obligations assumed of an analysis (env/analyze_env.rs); rules R16/R19. Unverified: constrain of has_vtable/sizedness/template_params and CannotDerive::constrain (outer), initial_worklist functions (CannotDerive relies on their order for non-allowlisted sub-items: seed S24 missed), generate_dependencies, Trace impls, termination, declaration-order corollary.",
        ref="DESIGN.md §3 C07"),
    "C08": dict(
        technique="Verus contracts on extracted CannotDerive::constrain_type, DeriveTrait rule functions, impl CanDerive* gates, derives_of_item, function_pointers_can_derive + Kani in-crate proofs of the private rule tables against a property-derived oracle",
        text="Deductive proof that the whole per-type derive rule (blocklisted, excluded by name, opaque, simple kinds, pointers and fn pointers of every arity, arrays incl. the 32-element tier, vectors, compounds with destructor/vtable/union/forward-decl rules, references and template instantiations via an uninterpreted member join) equals the rules the property lists; each CanDerive* query is exactly option && analysis lookup (&& no float for Eq/Ord); derives_of_item applies packed-requires-Copy and annotation exclusions exactly; the four hand-written-impl decisions of CompInfo::codegen (Debug, Default, Clone, PartialEq) honour the derive option, the impl option, by-name exclusions and annotations.",
        note="Trusted: Kani/Verus; oracle rules written from the property; uninterpreted IR reads and member join (constrain_join); T instantiated at ItemId; DerivableTraits modelled as one bool per flag. Unverified: constrain_join/Trace (which members are joined), the large-alignment override and insert in CannotDerive::constrain, hand-written impl bodies (impl_debug.rs, impl_partialeq.rs, Default via write_bytes).",
        ref="DESIGN.md §3 C08"),
    "C09": dict(
        technique="Verus contracts on extracted traversal::codegen_edges / only_inner_type_edges / all_edges, the root-selection closure, Item::is_blocklisted, and the graph walk ItemTraversal::{new, visit_kind, next} with a representation invariant and closure/minimality lemmas",
        text="Deductive proof of the per-edge decision of the allowlist traversal: every edge whose target is a type is followed iff types are generated (vars, methods, constructors, destructors likewise), no-recursive mode follows exactly inner-type edges; which items are roots; and, for every graph, predicate, root list and queue discipline, that draining an ItemTraversal yields exactly the items reachable from the roots along followed edges (closure and minimality; termination not proved).",
        note="Trusted: Verus/Z3; uninterpreted CodegenConfig reads; type-edge table from the Trace impls; storage = set and queue = bag trait contracts; Trace impls call visit_kind once per outgoing edge. Unverified: the Trace impls themselves (completeness of the reported references), regex anchoring/matching, the unnamed-enum variant path loop, textual identity with the un-allowlisted run.",
        ref="DESIGN.md §3 C09"),
    "C10": dict(
        technique="Verus contracts on extracted Item::is_blocklisted, Item/Type::is_opaque, CannotDerive::constrain_type (blocklisted rule first), helpers::blob / Layout::known_type_for_size / for_size_internal, the opaque branch of CompInfo::codegen's tail",
        text="Deductive proof that (a) the blocklist test is exactly: hidden, in a blocklisted file, matched by the generic item list or by the list of the kind of the item, or a replaced type; (b) a type outside the allowlisted set derives a trait only as far as the callback of the user vouches, before any other rule; (c) the opaque blob emitted for any layout libclang can report has exactly that size and alignment; (d) an item is opaque exactly by annotation, by an --opaque-type match or through its type; (e) an opaque record is emitted as exactly one blob field of the C size/alignment with repr(align); (f) a trait is derivable through a blocklisted type only when bindgen (stdint names, no callbacks) or the user's callback vouched.",
        note="Trusted: as C02/C08; regex matching and path computation uninterpreted. Unverified: that every codegen entry point consults is_blocklisted, CompInfo::is_opaque / TemplateInstantiation::is_opaque bodies, tracing cut-off at opaque types, the body of blocklisted_type_implements_trait.",
        ref="DESIGN.md §3 C10"),
    "C12": dict(
        technique="Verus/Kani safety obligations (overflow, underflow, unwrap, run-time assert!/unreachable!, callee preconditions, termination) of every function under contract; concrete Kani witnesses for from_str",
        text="Deductive proof of panic-freedom and termination for the ~60 functions under contract in all Verus units (layout tracker, Layout, blob, bit-field allocation, constrain_type incl. its assert!/unreachable! sites as obligations under stated IR invariants, ...); regression guards for the repaired defects F2 and F3 (concrete witness harnesses = bounded); F10 (char-literal macro) and F11 (unknown calling convention) found by failed obligations on the unchanged tree and repaired.",
        note="Trusted: as C02. Narrow: the hundreds of unwrap/expect sites that depend on libclang AST shapes, recursion depth and Builder::generate error paths are not under contract.",
        ref="DESIGN.md §3 C12"),
    "C14": dict(
        technique="Kani function contracts on the real features.rs over the full u64 version domain (complete) + Verus contract on the extracted FunctionSig::abi gating site",
        text="Deductive proof over every (minor, patch) in u64 x u64, nightly, and all editions that RustFeatures::new equals the release-notes gating table, is monotone, ignores the patch level; edition availability and latest_edition; RustTarget::stable rejects exactly minor<51; and that FunctionSig::abi accepts an ABI (after --override-abi) only if the feature set allows it.",
        note="Trusted: Kani/CBMC, Verus; the release-notes oracle table; override lookup as one uninterpreted accessor. Unverified: the other codegen sites that must consult a flag (the Var::codegen string arms and helpers::ast_ty::raw_type ARE under contract: units var_string, raw_type; F8 repaired), edition validation in Builder::generate, RustTarget::from_str/default.",
        ref="DESIGN.md §3 C14"),
}

NOT_APPLICABLE = {
    "C01": "rustc acceptance of quote!-assembled text from a libclang-only IR: no function in the crate has it as a postcondition and neither verifier models rustc (DESIGN §3 C01)",
    "C11": "hyper-property over whole executions (hash seeds, threads, processes); Kani has no threads, no single-function contract expresses it (DESIGN §3 C11)",
    "C13": "options!/clap macro-generated round trip judged by two full generations; no plain function carries the relation (DESIGN §3 C13)",
    "C15": "child process, pipes and a writer thread; neither verifier models processes or threads (DESIGN §3 C15)",
    "C16": "C text serialisation judged by a C compiler and execution; needs a live libclang context (DESIGN §3 C16)",
    "C17": "include set is libclang's preprocessing record; escaping is str::replace/format! (no Verus str reasoning, Kani only for 2-3 byte names) (DESIGN §3 C17)",
    "C18": "sort_by_key contract is a dependency's; merge_extern_blocks crashes the Kani 0.68 compiler on syn (ICE intrinsics.rs:243) and Verus would need a rewrite (DESIGN §3 C18)",
}

PENDING = {
}


def main():
    checks = []
    for pid in sorted(CLAIMED):
        c = CLAIMED[pid]
        checks.append({
            "property_id": pid,
            "quick_cmd": "./check %s --tier quick" % pid,
            "thorough_cmd": "./check %s --tier thorough" % pid,
            "evidence_file": "/verif/evidence/%s.json" % pid,
            "replay_cmd_template": "./check %s --replay {path}" % pid,
            "engine": c.get("engine", "contracts"),
            "level_claimed": {"category": "proof", "text": c["text"], "design_ref": c["ref"]},
            "level_note": c["note"],
            "technique": c["technique"],
        })
    na = [{"property_id": k, "reason": v} for k, v in sorted({**NOT_APPLICABLE, **PENDING}.items())]
    hooks = json.load(open(os.path.join(ROOT, "engine", "hooks.json")))
    m = {
        "version": 1,
        "setup_cmd": "./setup.sh",
        "hooks": hooks,
        "engines": [
            {"name": "contracts", "path": "/verif/engine", "serves_properties": sorted(CLAIMED),
             "kind_free_text": "contract-based deductive verification: Kani function contracts on the real files (path mode / in-crate mode) and Verus on mechanically extracted function text"},
        ],
        "checks": checks,
        "not_applicable": na,
        "notes": "exit 0 = all obligations discharged; exit 1 = VIOLATION; exit 2 = UNDECIDED (lost anchor, tool limit) - never an alarm. Known findings in /verif/known_findings.txt.",
    }
    with open(os.path.join(ROOT, "MANIFEST.json"), "w") as f:
        json.dump(m, f, indent=1)
    print("MANIFEST.json written: %d checks, %d not applicable" % (len(checks), len(na)))


if __name__ == "__main__":
    main()
