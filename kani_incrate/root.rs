// In-crate Kani harnesses at the crate root: lattice operators (C07 i) and the
// bounded fix-point driver (C07 iii).
#[path = "/verif/kani_incrate/lattice.rs"]
mod lattice;
