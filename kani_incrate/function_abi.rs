// In-crate Kani harnesses, child module of bindgen/ir/function.rs (so that the
// private `get_abi`, `FunctionSig` fields and RUST_DERIVE_FUNPTR_LIMIT are in
// reach).  Properties C04 (calling-convention table) and C08 (fn-pointer rule).
use super::*;

pub(crate) fn any_abi() -> ClangAbi {
    let k: u8 = kani::any();
    kani::assume(k < 11);
    match k {
        0 => ClangAbi::Known(Abi::C),
        1 => ClangAbi::Known(Abi::Stdcall),
        2 => ClangAbi::Known(Abi::EfiApi),
        3 => ClangAbi::Known(Abi::Fastcall),
        4 => ClangAbi::Known(Abi::ThisCall),
        5 => ClangAbi::Known(Abi::Vectorcall),
        6 => ClangAbi::Known(Abi::Aapcs),
        7 => ClangAbi::Known(Abi::Win64),
        8 => ClangAbi::Known(Abi::CUnwind),
        9 => ClangAbi::Known(Abi::System),
        _ => ClangAbi::Unknown(kani::any()),
    }
}

pub(crate) fn tid(n: usize) -> TypeId {
    // TypeId(ItemId(usize)) -- both newtypes are single-field tuple structs
    unsafe { core::mem::transmute::<usize, TypeId>(n) }
}

/// a signature with `nargs` arguments and the given ABI (other fields are not
/// read by the functions under contract)
pub(crate) fn mk_sig(nargs: usize, abi: ClangAbi) -> FunctionSig {
    let mut argument_types = Vec::new();
    let mut i = 0;
    while i < nargs {
        argument_types.push((None, tid(i)));
        i += 1;
    }
    FunctionSig {
        name: String::new(),
        return_type: tid(0),
        argument_types,
        is_variadic: false,
        is_divergent: false,
        must_use: false,
        abi,
    }
}

// ClangAbi does not derive PartialEq
pub(crate) fn abi_eq(a: ClangAbi, b: ClangAbi) -> bool {
    match (a, b) {
        (ClangAbi::Known(x), ClangAbi::Known(y)) => x == y,
        (ClangAbi::Unknown(x), ClangAbi::Unknown(y)) => x == y,
        _ => false,
    }
}

// ---------------------------------------------------------------- C04: get_abi
// Independent table (clang-c/Index.h enum CXCallingConv x Rust reference ABI strings).
fn abi_oracle(cc: CXCallingConv) -> ClangAbi {
    if cc == clang_sys::CXCallingConv_Default
        || cc == clang_sys::CXCallingConv_C
    {
        ClangAbi::Known(Abi::C)
    } else if cc == clang_sys::CXCallingConv_X86StdCall {
        ClangAbi::Known(Abi::Stdcall)
    } else if cc == clang_sys::CXCallingConv_X86FastCall {
        ClangAbi::Known(Abi::Fastcall)
    } else if cc == clang_sys::CXCallingConv_X86ThisCall {
        ClangAbi::Known(Abi::ThisCall)
    } else if cc == clang_sys::CXCallingConv_X86VectorCall
        || cc == clang_sys::CXCallingConv_AArch64VectorCall
    {
        ClangAbi::Known(Abi::Vectorcall)
    } else if cc == clang_sys::CXCallingConv_AAPCS {
        ClangAbi::Known(Abi::Aapcs)
    } else if cc == clang_sys::CXCallingConv_X86_64Win64 {
        ClangAbi::Known(Abi::Win64)
    } else {
        ClangAbi::Unknown(cc)
    }
}

#[kani::ensures(|r: &ClangAbi| abi_eq(*r, abi_oracle(cc)))]
pub(crate) fn get_abi_c(cc: CXCallingConv) -> ClangAbi {
    get_abi(cc)
}
#[kani::proof_for_contract(get_abi_c)]
pub(crate) fn get_abi_table() {
    get_abi_c(kani::any());
}
#[kani::proof]
pub(crate) fn get_abi_twin() {
    let cc: CXCallingConv = kani::any();
    assert!(
        abi_eq(get_abi(cc), abi_oracle(cc)),
        "postcondition: get_abi == calling-convention table"
    );
}
#[kani::proof]
pub(crate) fn get_abi_canary() {
    let cc: CXCallingConv = kani::any();
    let r = get_abi(cc);
    kani::cover!(
        matches!(r, ClangAbi::Unknown(_)),
        "unknown convention reachable"
    );
    kani::cover!(abi_eq(r, ClangAbi::Known(Abi::Win64)), "win64 reachable");
    kani::cover!(
        abi_eq(r, ClangAbi::Known(Abi::C)) && cc != clang_sys::CXCallingConv_C,
        "default maps to C"
    );
}

// ---------------------------------------------------------------- C08: >12-argument fn pointers
// property: "the CanDerive::Manually tier for ... >12-argument function pointers";
// rule: a fn pointer can derive iff it has <= 12 arguments and the "C" (or an
// unrecognised, emitted-as-"C") ABI.  Argument counts 0..=14 enumerated: bounded.
macro_rules! fnptr_rule {
    ($name:ident, $n:literal) => {
        #[kani::proof]
        #[kani::unwind(17)]
        pub(crate) fn $name() {
            let abi = any_abi();
            let sig = mk_sig($n, abi);
            let want = $n <= 12
                && matches!(
                    abi,
                    ClangAbi::Known(Abi::C) | ClangAbi::Unknown(_)
                );
            assert!(sig.function_pointers_can_derive() == want);
        }
    };
}
fnptr_rule!(fnptr_can_derive_n0, 0);
fnptr_rule!(fnptr_can_derive_n12, 12);
fnptr_rule!(fnptr_can_derive_n13, 13);
