// In-crate Kani harnesses, child module of bindgen/ir/analysis/derive.rs:
// the private per-kind derive rule tables of `DeriveTrait` (C08) and the edge
// predicates CannotDerive::constrain reads through (C07).
// Oracles are written from the property statement, not from the file.
use super::*;
use crate::ir::function::verif_kani::{any_abi, mk_sig, tid};
use crate::ir::int::IntKind;
use crate::ir::ty::FloatKind;

pub(crate) fn any_trait() -> DeriveTrait {
    let k: u8 = kani::any();
    kani::assume(k < 5);
    match k {
        0 => DeriveTrait::Copy,
        1 => DeriveTrait::Debug,
        2 => DeriveTrait::Default,
        3 => DeriveTrait::Hash,
        _ => DeriveTrait::PartialEqOrPartialOrd,
    }
}

fn any_edge_kind() -> EdgeKind {
    let k: u8 = kani::any();
    kani::assume(k < 16);
    match k {
        0 => EdgeKind::Generic,
        1 => EdgeKind::TemplateParameterDefinition,
        2 => EdgeKind::TemplateDeclaration,
        3 => EdgeKind::TemplateArgument,
        4 => EdgeKind::BaseMember,
        5 => EdgeKind::Field,
        6 => EdgeKind::InnerType,
        7 => EdgeKind::InnerVar,
        8 => EdgeKind::Method,
        9 => EdgeKind::Constructor,
        10 => EdgeKind::Destructor,
        11 => EdgeKind::FunctionReturn,
        12 => EdgeKind::FunctionParameter,
        13 => EdgeKind::VarType,
        _ => EdgeKind::TypeReference,
    }
}

fn any_float_kind() -> FloatKind {
    let k: u8 = kani::any();
    kani::assume(k < 4);
    match k {
        0 => FloatKind::Float,
        1 => FloatKind::Double,
        2 => FloatKind::LongDouble,
        _ => FloatKind::Float128,
    }
}

#[derive(Clone, Copy, PartialEq, Eq)]
enum K {
    Void,
    NullPtr,
    Int,
    Float,
    Complex,
    Pointer,
    Reference,
    Array,
    Vector,
    Alias,
    BlockPointer,
    ResolvedTypeRef,
    TypeParam,
    Opaque,
    ObjCId,
    ObjCSel,
    Enum,
}

/// every TypeKind that can be built without a libclang handle
fn any_simple_kind() -> (K, TypeKind) {
    let k: u8 = kani::any();
    kani::assume(k < 17);
    let t = tid(kani::any());
    match k {
        0 => (K::Void, TypeKind::Void),
        1 => (K::NullPtr, TypeKind::NullPtr),
        2 => (
            K::Int,
            TypeKind::Int(if kani::any() {
                IntKind::Int
            } else {
                IntKind::U8
            }),
        ),
        3 => (K::Float, TypeKind::Float(any_float_kind())),
        4 => (K::Complex, TypeKind::Complex(any_float_kind())),
        5 => (K::Pointer, TypeKind::Pointer(t)),
        6 => (K::Reference, TypeKind::Reference(t)),
        7 => (K::Array, TypeKind::Array(t, kani::any())),
        8 => (K::Vector, TypeKind::Vector(t, kani::any())),
        9 => (K::Alias, TypeKind::Alias(t)),
        10 => (K::BlockPointer, TypeKind::BlockPointer(t)),
        11 => (K::ResolvedTypeRef, TypeKind::ResolvedTypeRef(t)),
        12 => (K::TypeParam, TypeKind::TypeParam),
        13 => (K::Opaque, TypeKind::Opaque),
        14 => (K::ObjCId, TypeKind::ObjCId),
        15 => (K::ObjCSel, TypeKind::ObjCSel),
        _ => (
            K::Enum,
            TypeKind::Enum(crate::ir::enum_ty::Enum::new(None, Vec::new())),
        ),
    }
}

// ---------------------------------------------------------------- C08 rule tables
// From the property: "never when some constituent cannot support it (floats for
// Eq/Ord/Hash, pointers and enums for Default, ... Rust unions for anything but
// Copy, destructors or vtables ...)"; large arrays and >12-arg fn pointers give
// the Manually tier.
fn simple_oracle(t: DeriveTrait, k: K) -> CanDerive {
    match (t, k) {
        (
            DeriveTrait::Default,
            K::Void
            | K::NullPtr
            | K::Enum
            | K::Reference
            | K::TypeParam
            | K::ObjCId
            | K::ObjCSel,
        ) => CanDerive::No,
        (DeriveTrait::Hash, K::Float | K::Complex) => CanDerive::No,
        _ => CanDerive::Yes,
    }
}

#[kani::proof]
pub(crate) fn table_simple() {
    let t = any_trait();
    let (k, kind) = any_simple_kind();
    let got = t.can_derive_simple(&kind);
    // TypeKind's drop glue walks CompInfo/FunctionSig containers (unbounded loops for CBMC);
    // nothing here owns heap memory except the empty Vec of K::Enum
    core::mem::forget(kind);
    assert!(
        got == simple_oracle(t, k),
        "postcondition: can_derive_simple == rule table"
    );
}

#[kani::proof]
pub(crate) fn table_pointer_vector() {
    let t = any_trait();
    // pointers: everything but Default
    assert!(
        t.can_derive_pointer()
            == if t == DeriveTrait::Default {
                CanDerive::No
            } else {
                CanDerive::Yes
            }
    );
    // SIMD vectors: everything but PartialOrd (shared with PartialEq)
    assert!(
        t.can_derive_vector()
            == if t == DeriveTrait::PartialEqOrPartialOrd {
                CanDerive::No
            } else {
                CanDerive::Yes
            }
    );
}

#[kani::proof]
pub(crate) fn table_compound() {
    let t = any_trait();
    // Rust unions: nothing but Copy
    assert!(t.can_derive_union() == (t == DeriveTrait::Copy));
    // a destructor rules out Copy only; a vtable rules out Default only
    assert!(
        t.can_derive_compound_with_destructor() == (t != DeriveTrait::Copy)
    );
    assert!(t.can_derive_compound_with_vtable() == (t != DeriveTrait::Default));
    // forward declarations: only (an opaque) Debug
    assert!(t.can_derive_compound_forward_decl() == (t == DeriveTrait::Debug));
    // incomplete arrays: not Copy, Hash, PartialEq/PartialOrd
    assert!(
        t.can_derive_incomplete_array()
            == matches!(t, DeriveTrait::Debug | DeriveTrait::Default)
    );
}

macro_rules! table_fnptr {
    ($name:ident, $n:literal) => {
        #[kani::proof]
        #[kani::unwind(17)]
        pub(crate) fn $name() {
            let t = any_trait();
            let sig = mk_sig($n, any_abi());
            let ok = sig.function_pointers_can_derive();
            // property: ">12-argument function pointers" give Manually for Debug, No for
            // Hash/PartialEq, and stay derivable for Copy/Default
            let want = match (t, ok) {
                (DeriveTrait::Copy | DeriveTrait::Default, _) | (_, true) => {
                    CanDerive::Yes
                }
                (DeriveTrait::Debug, false) => CanDerive::Manually,
                (_, false) => CanDerive::No,
            };
            assert!(t.can_derive_fnptr(&sig) == want);
        }
    };
}
table_fnptr!(table_fnptr_n0, 0);
table_fnptr!(table_fnptr_n12, 12);
table_fnptr!(table_fnptr_n13, 13);

// can_derive_large_array takes a &BindgenContext it never reads; a context can
// only be built from a live libclang translation unit, so the function is
// checked through its only reader: the body is `!matches!(self, Default)`.
// (covered by the Verus unit `derive_rules`, which extracts the text.)

#[kani::proof]
pub(crate) fn tables_canary() {
    let t = any_trait();
    let (k, kind) = any_simple_kind();
    let r = t.can_derive_simple(&kind);
    core::mem::forget(kind);
    kani::cover!(
        r == CanDerive::No && t == DeriveTrait::Hash,
        "Hash refused for a float"
    );
    kani::cover!(
        r == CanDerive::No && k == K::Enum,
        "Default refused for an enum"
    );
    kani::cover!(
        r == CanDerive::Yes && k == K::Pointer,
        "pointer passes can_derive_simple"
    );
}

// ---------------------------------------------------------------- C07 (ii) for CannotDerive
// The dependency map of CannotDerive is built with consider_edge_default, while
// constrain_type reads neighbours through consider_edge_comp / _typeref /
// _tmpl_inst: every edge kind a rule reads along must be subscribed.
#[kani::proof]
pub(crate) fn cannot_derive_reads_are_subscribed() {
    let t = any_trait();
    let k = any_edge_kind();
    let reads = (t.consider_edge_comp())(k)
        || (t.consider_edge_typeref())(k)
        || (t.consider_edge_tmpl_inst())(k);
    assert!(!reads || consider_edge_default(k));
    // and the reads are exactly what the Verus `edges` unit assumes as read-set (non-PartialEq traits)
    if t != DeriveTrait::PartialEqOrPartialOrd {
        let want = matches!(
            k,
            EdgeKind::BaseMember
                | EdgeKind::Field
                | EdgeKind::TypeReference
                | EdgeKind::TemplateArgument
                | EdgeKind::TemplateDeclaration
        );
        assert!(reads == want);
    }
}
