// C07 (iii), BOUNDED stand-in: the real worklist driver analysis::analyze run
// on a harness analysis over N nodes with a symbolic edge relation; its result
// must be the least fixed point (reflexive-transitive closure, computed here in
// closed form).  Bound = number of nodes (mine) => never counted as proved.
use crate::ir::analysis::{analyze, ConstrainResult, MonotoneFramework};

macro_rules! driver_harness {
    ($m:ident, $n:literal, $unwind:literal) => {
        pub(crate) mod $m {
            use super::*;
            const N: usize = $n;

            #[derive(Debug)]
            pub(crate) struct Reach {
                adj: [[bool; N]; N], // adj[a][b]: a refers to b
                reach: [u8; N],      // bit b set: a is known to reach b
            }
            pub(crate) struct Out([u8; N]);
            impl core::fmt::Debug for Out {
                fn fmt(&self, _f: &mut core::fmt::Formatter<'_>) -> core::fmt::Result { Ok(()) }
            }
            impl From<Reach> for Out {
                fn from(r: Reach) -> Out { Out(r.reach) }
            }
            impl MonotoneFramework for Reach {
                type Node = usize;
                type Extra = [[bool; N]; N];
                type Output = Out;
                fn new(adj: [[bool; N]; N]) -> Reach { Reach { adj, reach: [0; N] } }
                fn initial_worklist(&self) -> Vec<usize> {
                    let mut v = Vec::with_capacity(N);
                    let mut i = 0;
                    while i < N { v.push(i); i += 1; }
                    v
                }
                fn constrain(&mut self, n: usize) -> ConstrainResult {
                    let mut new = self.reach[n] | (1u8 << n);
                    let mut m = 0;
                    while m < N {
                        if self.adj[n][m] { new |= self.reach[m]; }
                        m += 1;
                    }
                    if new != self.reach[n] { self.reach[n] = new; ConstrainResult::Changed } else { ConstrainResult::Same }
                }
                fn each_depending_on<F: FnMut(usize)>(&self, n: usize, mut f: F) {
                    let mut p = 0;
                    while p < N {
                        if self.adj[p][n] { f(p); }
                        p += 1;
                    }
                }
            }

            fn closure(adj: &[[bool; N]; N]) -> [u8; N] {
                let mut r = [0u8; N];
                let mut a = 0;
                while a < N {
                    r[a] = 1 << a;
                    let mut b = 0;
                    while b < N { if adj[a][b] { r[a] |= 1 << b; } b += 1; }
                    a += 1;
                }
                let mut k = 0;
                while k < N {
                    let mut a = 0;
                    while a < N {
                        if r[a] & (1 << k) != 0 { r[a] |= r[k]; }
                        a += 1;
                    }
                    k += 1;
                }
                r
            }

            #[kani::proof]
            #[kani::unwind($unwind)]
            pub(crate) fn analyze_reaches_least_fixed_point() {
                let adj: [[bool; N]; N] = kani::any();
                let out = analyze::<Reach>(adj);
                let want = closure(&adj);
                assert!(out.0 == want);
            }
        }
    };
}

driver_harness!(n2, 2, 12);
driver_harness!(n3, 3, 32);
