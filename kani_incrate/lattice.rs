// C07 (i): the joins the analyses use are least upper bounds of the declared
// orders (finite, loop-free: complete).
use crate::ir::analysis::{HasVtableResult, SizednessResult};
use crate::ir::derive::CanDerive;

fn any_cd() -> CanDerive {
    let k: u8 = kani::any();
    kani::assume(k < 3);
    match k {
        0 => CanDerive::Yes,
        1 => CanDerive::Manually,
        _ => CanDerive::No,
    }
}
// declared order (doc comment of CanDerive): Yes < Manually < No
fn cd_rank(c: CanDerive) -> u8 {
    match c {
        CanDerive::Yes => 0,
        CanDerive::Manually => 1,
        CanDerive::No => 2,
    }
}

#[kani::proof]
pub(crate) fn can_derive_join_is_lub() {
    let (a, b, c) = (any_cd(), any_cd(), any_cd());
    let j = a.join(b);
    assert!(
        cd_rank(j)
            == if cd_rank(a) >= cd_rank(b) {
                cd_rank(a)
            } else {
                cd_rank(b)
            }
    );
    assert!((a | b) == j);
    let mut x = a;
    x |= b;
    assert!(x == j);
    // commutative, associative, idempotent follow from max; stated for completeness
    assert!(
        a.join(b) == b.join(a)
            && a.join(a) == a
            && a.join(b).join(c) == a.join(b.join(c))
    );
}

fn any_hv() -> HasVtableResult {
    let k: u8 = kani::any();
    kani::assume(k < 3);
    match k {
        0 => HasVtableResult::No,
        1 => HasVtableResult::SelfHasVtable,
        _ => HasVtableResult::BaseHasVtable,
    }
}
// declared order: No < SelfHasVtable < BaseHasVtable
fn hv_rank(c: HasVtableResult) -> u8 {
    match c {
        HasVtableResult::No => 0,
        HasVtableResult::SelfHasVtable => 1,
        HasVtableResult::BaseHasVtable => 2,
    }
}

#[kani::proof]
pub(crate) fn has_vtable_join_is_lub() {
    let (a, b) = (any_hv(), any_hv());
    let j = a.join(b);
    assert!(
        hv_rank(j)
            == if hv_rank(a) >= hv_rank(b) {
                hv_rank(a)
            } else {
                hv_rank(b)
            }
    );
    assert!((a | b) == j);
    let mut x = a;
    x |= b;
    assert!(x == j);
}

fn any_sz() -> SizednessResult {
    let k: u8 = kani::any();
    kani::assume(k < 3);
    match k {
        0 => SizednessResult::ZeroSized,
        1 => SizednessResult::DependsOnTypeParam,
        _ => SizednessResult::NonZeroSized,
    }
}
// declared order: ZeroSized < DependsOnTypeParam < NonZeroSized
fn sz_rank(c: SizednessResult) -> u8 {
    match c {
        SizednessResult::ZeroSized => 0,
        SizednessResult::DependsOnTypeParam => 1,
        SizednessResult::NonZeroSized => 2,
    }
}

#[kani::proof]
pub(crate) fn sizedness_join_is_lub() {
    let (a, b) = (any_sz(), any_sz());
    let j = a.join(b);
    assert!(
        sz_rank(j)
            == if sz_rank(a) >= sz_rank(b) {
                sz_rank(a)
            } else {
                sz_rank(b)
            }
    );
    assert!((a | b) == j);
    let mut x = a;
    x |= b;
    assert!(x == j);
}

#[kani::proof]
pub(crate) fn lattice_canary() {
    let (a, b) = (any_cd(), any_cd());
    kani::cover!(
        a.join(b) == CanDerive::Manually,
        "Manually reachable as a join"
    );
    kani::cover!(
        any_hv().join(any_hv()) == HasVtableResult::BaseHasVtable,
        "top of vtable lattice reachable"
    );
    kani::cover!(
        any_sz().join(any_sz()) == SizednessResult::DependsOnTypeParam,
        "middle of sizedness lattice reachable"
    );
}
