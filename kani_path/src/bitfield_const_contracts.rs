// Kani function contracts for the const-generic entry points of the REAL
// bitfield_unit.rs after rule L1 (engine/lift.py: `<const BIT_OFFSET, const
// BIT_WIDTH>` lifted to value parameters, bodies byte-identical).
// Same reference model and region split as bitfield_contracts.rs.

use super::__BindgenBitfieldUnit;
use crate::bitfield_unit::contracts::{field, get_post, in_region, le, mask, pre_dbg, set_post, splice};

impl<const N: usize> kani::Arbitrary for __BindgenBitfieldUnit<[u8; N]> {
    fn any() -> Self {
        Self { storage: kani::any() }
    }
}

macro_rules! const_contracts {
    ($m:ident, $n:literal) => {
        pub mod $m {
            use super::*;
            pub const N: usize = $n;
            pub type U = __BindgenBitfieldUnit<[u8; N]>;

            getter!(get_const_c, get_const_in, get_const_twin, |u, off, w| u.get_const(off, w));
            getter!(raw_get_const_c, raw_get_const_in, raw_get_const_twin, |u, off, w| unsafe { U::raw_get_const(u as *const U, off, w) });
            setter!(set_const_c, set_const_in, set_const_twin, |u, off, w, v| u.set_const(off, w, v));
            setter!(raw_set_const_c, raw_set_const_in, raw_set_const_twin, |u, off, w, v| unsafe { U::raw_set_const(u as *mut U, off, w, v) });

            // F1 witness region (known finding): the u64 fallback path
            region_getter!(get_const_region_gt64, |u, off, w| u.get_const(off, w));
            region_getter!(raw_get_const_region_gt64, |u, off, w| unsafe { U::raw_get_const(u as *const U, off, w) });
            region_setter!(set_const_region_gt64, |u, off, w, v| u.set_const(off, w, v));
            region_setter!(raw_set_const_region_gt64, |u, off, w, v| unsafe { U::raw_set_const(u as *mut U, off, w, v) });

            #[kani::proof]
            #[kani::unwind(18)]
            pub fn canary_reach() {
                let mut u = U::new(kani::any());
                let off: usize = kani::any();
                let w: u8 = kani::any();
                kani::assume(pre_dbg(N, off, w) && in_region(off, w));
                let r = u.get_const(off, w);
                u.set_const(off, w, r);
                kani::cover!(w == 64 || N < 8, "full-width field reachable");
                kani::cover!(off % 8 != 0 && w > 1, "unaligned multi-bit field reachable");
                kani::cover!(r != 0, "non-zero read reachable");
            }

            // The allocation-unit constructor bindgen emits (`new_bitfield_K`)
            // is: zeroed unit, then one set_const per field.  Over the contract
            // of set_const alone: two disjoint fields written into a zero unit
            // give the OR of the shifted, truncated arguments and nothing else.
            #[kani::proof]
            #[kani::stub_verified(set_const_c)]
            #[kani::unwind(18)]
            pub fn lemma_ctor_two_fields() {
                let mut u = U::new([0u8; N]);
                let (oa, wa, ob, wb): (usize, u8, usize, u8) =
                    (kani::any(), kani::any(), kani::any(), kani::any());
                let (va, vb): (u64, u64) = (kani::any(), kani::any());
                kani::assume(pre_dbg(N, oa, wa) && in_region(oa, wa));
                kani::assume(pre_dbg(N, ob, wb) && in_region(ob, wb));
                kani::assume(oa + wa as usize <= ob);
                set_const_c(&mut u, oa, wa, va);
                set_const_c(&mut u, ob, wb, vb);
                let want = (((va as u128) & mask(wa)) << oa) | (((vb as u128) & mask(wb)) << ob);
                assert!(le(&u.storage) == want);
            }
        }
    };
}

const_contracts!(n1, 1);
const_contracts!(n2, 2);
const_contracts!(n3, 3);
const_contracts!(n4, 4);
const_contracts!(n5, 5);
const_contracts!(n6, 6);
const_contracts!(n7, 7);
const_contracts!(n8, 8);
const_contracts!(n9, 9);
const_contracts!(n10, 10);
const_contracts!(n11, 11);
const_contracts!(n12, 12);
const_contracts!(n13, 13);
const_contracts!(n14, 14);
const_contracts!(n15, 15);
const_contracts!(n16, 16);
