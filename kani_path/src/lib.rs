// Path-mode Kani crate: the repository's files are compiled UNMODIFIED
// (include! of /repo/bindgen/...); contracts live in child modules so they
// can see private items.
#![allow(dead_code, unused, non_upper_case_globals, non_snake_case, clippy::all)]

#[cfg(kani)]
#[macro_use]
mod contract_macros;

extern crate alloc;

pub mod bitfield_unit {
    include!("/repo/bindgen/codegen/bitfield_unit.rs");
    #[cfg(kani)]
    pub mod contracts {
        include!("bitfield_contracts.rs");
    }
}

// const-generic entry points after rule L1 (engine/lift.py), regenerated
// from /repo on every run
pub mod bitfield_unit_lifted {
    include!("/verif/.work/gen/bitfield_unit_lifted.rs");
    #[cfg(kani)]
    pub mod contracts {
        include!("bitfield_const_contracts.rs");
    }
}

#[path = "/repo/bindgen/features.rs"]
pub mod features;
#[cfg(kani)]
pub mod features_contracts {
    include!("features_contracts.rs");
}
