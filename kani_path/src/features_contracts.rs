// Kani contracts for the REAL bindgen/features.rs (compiled unmodified via
// #[path]).  Property C14.  The gating oracle below is transcribed from the
// Rust release notes / stabilisation PRs, NOT from features.rs:
//   unsafe extern blocks 1.82 (#127921) | offset_of! 1.77 (#106655)
//   c"..." literals 1.77 (#117472), edition >= 2021 only
//   "thiscall" ABI 1.73 (#42202) | "C-unwind" 1.71 (#106075)
//   "efiapi" 1.68 (#105795) | core::ffi::c_* 1.64 (#94503)
//   const CStr::from_bytes_with_nul_unchecked 1.59 (#54745)
//   vectorcall ABI, ptr_metadata, layout_for_ptr: unstable (nightly only)
//   editions: 2018 = 1.31, 2021 = 1.56, 2024 = 1.85
// Full u64 domain for minor and patch: "every selectable version" and any
// number of versions "beyond the newest" are subsumed.

use crate::features::*;

#[derive(Clone, Copy, PartialEq, Eq)]
pub struct Tgt {
    pub nightly: bool,
    pub minor: u64,
    pub patch: u64,
}

impl kani::Arbitrary for Tgt {
    fn any() -> Self {
        Tgt { nightly: kani::any(), minor: kani::any(), patch: kani::any() }
    }
}

pub fn any_edition() -> RustEdition {
    let k: u8 = kani::any();
    kani::assume(k < 3);
    match k {
        0 => RustEdition::Edition2018,
        1 => RustEdition::Edition2021,
        _ => RustEdition::Edition2024,
    }
}

pub fn ed_year(e: RustEdition) -> u32 {
    match e {
        RustEdition::Edition2018 => 2018,
        RustEdition::Edition2021 => 2021,
        RustEdition::Edition2024 => 2024,
    }
}

/// a selectable target: nightly, or a stable release bindgen accepts
pub fn mk(t: Tgt) -> Option<RustTarget> {
    if t.nightly {
        Some(RustTarget::nightly())
    } else {
        RustTarget::stable(t.minor, t.patch).ok()
    }
}

/// release-notes oracle: is language/library feature usable on (t, e)?
pub fn since(t: Tgt, m: u64) -> bool {
    t.nightly || t.minor >= m
}

pub fn oracle_ok(f: &RustFeatures, t: Tgt, e: RustEdition) -> bool {
    f.unsafe_extern_blocks == since(t, 82)
        && f.offset_of == since(t, 77)
        && f.literal_cstr == (since(t, 77) && ed_year(e) >= 2021)
        && f.thiscall_abi == since(t, 73)
        && f.c_unwind_abi == since(t, 71)
        && f.abi_efiapi == since(t, 68)
        && f.core_ffi_c == since(t, 64)
        && f.const_cstr == since(t, 59)
        && f.vectorcall_abi == t.nightly
        && f.ptr_metadata == t.nightly
        && f.layout_for_ptr == t.nightly
}

/// a ⊆ b over the features the property names
pub fn subset(a: &RustFeatures, b: &RustFeatures) -> bool {
    (!a.unsafe_extern_blocks || b.unsafe_extern_blocks)
        && (!a.offset_of || b.offset_of)
        && (!a.literal_cstr || b.literal_cstr)
        && (!a.thiscall_abi || b.thiscall_abi)
        && (!a.c_unwind_abi || b.c_unwind_abi)
        && (!a.abi_efiapi || b.abi_efiapi)
        && (!a.core_ffi_c || b.core_ffi_c)
        && (!a.const_cstr || b.const_cstr)
        && (!a.vectorcall_abi || b.vectorcall_abi)
        && (!a.ptr_metadata || b.ptr_metadata)
        && (!a.layout_for_ptr || b.layout_for_ptr)
}

// ---------------------------------------------------------------- contracts

/// RustTarget::stable: rejected exactly below the earliest supported release
#[kani::ensures(|r: &bool| *r == (minor >= 51))]
pub fn stable_accepts_c(minor: u64, patch: u64) -> bool {
    RustTarget::stable(minor, patch).is_ok()
}
#[kani::proof_for_contract(stable_accepts_c)]
pub fn stable_accepts() {
    stable_accepts_c(kani::any(), kani::any());
}

/// RustFeatures::new: gating table (no feature newer than the target)
#[kani::requires(mk(t).is_some())]
#[kani::ensures(|f: &RustFeatures| oracle_ok(f, t, e))]
pub fn features_new_c(t: Tgt, e: RustEdition) -> RustFeatures {
    RustFeatures::new(mk(t).unwrap(), e)
}
#[kani::proof_for_contract(features_new_c)]
#[kani::unwind(8)]
pub fn features_gating() {
    features_new_c(kani::any(), any_edition());
}

/// RustEdition::is_available: edition rejected iff the target predates it
#[kani::requires(mk(t).is_some())]
#[kani::ensures(|r: &bool| *r == match e {
    RustEdition::Edition2018 => since(t, 31),
    RustEdition::Edition2021 => since(t, 56),
    RustEdition::Edition2024 => since(t, 85),
})]
pub fn edition_available_c(e: RustEdition, t: Tgt) -> bool {
    e.is_available(mk(t).unwrap())
}
#[kani::proof_for_contract(edition_available_c)]
#[kani::unwind(8)]
pub fn edition_available() {
    edition_available_c(any_edition(), kani::any());
}

/// RustTarget::latest_edition: the newest edition the target supports
#[kani::requires(mk(t).is_some())]
#[kani::ensures(|r: &RustEdition| ed_year(*r) == if since(t, 85) { 2024 } else if since(t, 56) { 2021 } else { 2018 })]
pub fn latest_edition_c(t: Tgt) -> RustEdition {
    mk(t).unwrap().latest_edition()
}
#[kani::proof_for_contract(latest_edition_c)]
#[kani::unwind(8)]
pub fn latest_edition() {
    latest_edition_c(kani::any());
}

// ---------------------------------------------------------------- lemmas
// stated directly on the real functions (independent of the oracle table, so
// they keep holding when bindgen learns about a newer release)

/// monotonicity: every construct a target enables is enabled for all later targets
#[kani::proof]
#[kani::unwind(8)]
pub fn lemma_monotone() {
    let (a, b): (Tgt, Tgt) = (kani::any(), kani::any());
    let e = any_edition();
    kani::assume(!a.nightly && !b.nightly && a.minor <= b.minor);
    if let (Some(ta), Some(tb)) = (mk(a), mk(b)) {
        let (fa, fb) = (RustFeatures::new(ta, e), RustFeatures::new(tb, e));
        assert!(subset(&fa, &fb));
        // nightly is later than every stable
        let fnightly = RustFeatures::new(RustTarget::nightly(), e);
        assert!(subset(&fb, &fnightly));
        // editions are monotone too
        let e2 = any_edition();
        assert!(!e2.is_available(ta) || e2.is_available(tb));
        assert!(e2.is_available(RustTarget::nightly()));
    }
}

/// patch releases never change the feature set
#[kani::proof]
#[kani::unwind(8)]
pub fn lemma_patch_irrelevant() {
    let (a, b): (Tgt, Tgt) = (kani::any(), kani::any());
    let e = any_edition();
    kani::assume(!a.nightly && !b.nightly && a.minor == b.minor);
    if let (Some(ta), Some(tb)) = (mk(a), mk(b)) {
        assert!(RustFeatures::new(ta, e) == RustFeatures::new(tb, e));
    }
}

/// "with no target given the newest known stable release and its newest
/// edition are assumed": LATEST_STABLE_RUST dominates every stable release
/// bindgen's table knows (it enables everything any stable target enables),
/// EARLIEST_STABLE_RUST is the acceptance threshold of `stable`, and
/// new_with_latest_edition pairs the target with its newest edition.
#[kani::proof]
#[kani::unwind(8)]
pub fn lemma_latest_is_newest() {
    let a: Tgt = kani::any();
    kani::assume(!a.nightly);
    let e = any_edition();
    let latest = LATEST_STABLE_RUST;
    if let Some(ta) = mk(a) {
        assert!(subset(&RustFeatures::new(ta, e), &RustFeatures::new(latest, e)) || ta > latest);
        assert!(ta >= EARLIEST_STABLE_RUST);
    }
    assert!(latest >= EARLIEST_STABLE_RUST);
    assert!(latest < RustTarget::nightly());
    // every stable feature in the property's list is on for LATEST with its newest edition
    let f = RustFeatures::new_with_latest_edition(latest);
    assert!(f == RustFeatures::new(latest, latest.latest_edition()));
    assert!(f.unsafe_extern_blocks && f.offset_of && f.literal_cstr && f.thiscall_abi
        && f.c_unwind_abi && f.abi_efiapi && f.core_ffi_c && f.const_cstr);
    assert!(!f.vectorcall_abi && !f.ptr_metadata && !f.layout_for_ptr);
    // (its newest edition is whatever latest_edition's contract says: for 1.82 that is 2021)
    assert!(latest.latest_edition().is_available(latest));
}

// ---------------------------------------------------------------- canary
#[kani::proof]
#[kani::unwind(8)]
pub fn canary_reach() {
    let t: Tgt = kani::any();
    let e = any_edition();
    if let Some(tt) = mk(t) {
        let f = RustFeatures::new(tt, e);
        kani::cover!(f.unsafe_extern_blocks && !t.nightly, "a stable target with the newest feature");
        kani::cover!(!f.const_cstr, "a stable target with no gated feature at all");
        kani::cover!(f.offset_of && !f.literal_cstr, "edition-gated feature withheld");
        kani::cover!(t.nightly && f.ptr_metadata, "nightly");
    } else {
        kani::cover!(true, "rejected target");
    }
}

// ---------------------------------------------------------------- witnesses (C12, F3)
// RustTarget::from_str is NOT under contract (string splitting, parse::<u64>
// and format! put symbolic inputs out of CBMC's reach).  These are concrete
// inputs only: reported as witnesses, never counted as proved.  The first two
// panicked ("attempt to subtract with overflow") before /repo commit d0e54312.
// error paths build their message with format!, which CBMC cannot digest:
// the message text is irrelevant to the property, so it is stubbed (trusted)
pub fn stub_format(_args: core::fmt::Arguments<'_>) -> String {
    String::new()
}

#[kani::proof]
#[kani::stub(alloc::fmt::format, stub_format)]
#[kani::unwind(24)]
pub fn from_str_witness_nightly_underflow() {
    use std::str::FromStr;
    assert!(RustTarget::from_str("1.0-nightly").is_err());
}
#[kani::proof]
#[kani::stub(alloc::fmt::format, stub_format)]
#[kani::unwind(24)]
pub fn from_str_witness_nightly_underflow_patch() {
    use std::str::FromStr;
    assert!(RustTarget::from_str("1.0.0-nightly").is_err());
}
#[kani::proof]
#[kani::unwind(24)]
pub fn from_str_witness_accepts() {
    use std::str::FromStr;
    assert!(RustTarget::from_str("1.83.1-nightly").is_ok());
    assert!(RustTarget::from_str("nightly").is_ok());
    assert!(RustTarget::from_str("1.71").is_ok());
}
