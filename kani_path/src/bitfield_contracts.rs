// Kani function contracts for the REAL bindgen/codegen/bitfield_unit.rs
// (included verbatim by lib.rs; this file is a child module so that it can
// read the private `storage` field without any transmute trust).
//
// Reference model, taken from property C03 ("reference bit-vector model"):
// the storage [u8; N] is the little-endian integer X; the field (off, w) is
// (X >> off) & (2^w - 1); a store replaces exactly those bits of X.
//
// Every contract is on a transparent wrapper (attributes cannot be attached
// to an `include!`d item and bitfield_unit.rs is product text).
// Preconditions are the functions' own debug_assert!s (rule R2) plus the
// region split of known finding F1: IN  = (off % 8) + w <= 64.

use super::__BindgenBitfieldUnit;

// needed by stub_verified: a contract-replaced `set` havocs `*u`
impl<const N: usize> kani::Arbitrary for __BindgenBitfieldUnit<[u8; N]> {
    fn any() -> Self {
        Self { storage: kani::any() }
    }
}

pub fn le<const N: usize>(s: &[u8; N]) -> u128 {
    let mut b = [0u8; 16];
    let mut i = 0;
    while i < N {
        b[i] = s[i];
        i += 1;
    }
    u128::from_le_bytes(b)
}

pub fn mask(w: u8) -> u128 {
    if w >= 128 {
        !0u128
    } else {
        (1u128 << w) - 1
    }
}

/// value C reads from the field, zero-extended
pub fn field(x: u128, off: usize, w: u8) -> u64 {
    ((x >> off) & mask(w)) as u64
}

/// object after a C assignment of `v` to the field: truncated to the width,
/// every other bit unchanged (value AND frame in one equation)
pub fn splice(x: u128, off: usize, w: u8, v: u64) -> u128 {
    (x & !(mask(w) << off)) | (((v as u128) & mask(w)) << off)
}

/// the functions' own debug_assert!s
pub fn pre_dbg(n: usize, off: usize, w: u8) -> bool {
    w <= 64 && off / 8 < n && off <= 8 * n && (off + (w as usize) + 7) / 8 <= n
}

/// region in which the property-derived contract is claimed (complement = F1)
pub fn in_region(off: usize, w: u8) -> bool {
    (off % 8) + (w as usize) <= 64
}

pub fn pre_bit(n: usize, index: usize) -> bool {
    index / 8 < n
}

// ---- postconditions as named predicates (shared by the contract and by its
// ---- explicit twin harness used for native replay)
pub fn get_post(x: u128, off: usize, w: u8, r: u64) -> bool {
    r == field(x, off, w)
}
pub fn set_post(x0: u128, x1: u128, off: usize, w: u8, v: u64) -> bool {
    x1 == splice(x0, off, w, v)
}
pub fn get_bit_post(x: u128, index: usize, r: bool) -> bool {
    r == (((x >> index) & 1) == 1)
}
pub fn set_bit_post(x0: u128, x1: u128, index: usize, val: bool) -> bool {
    x1 == splice(x0, index, 1, val as u64)
}

macro_rules! unit_contracts {
    ($m:ident, $n:literal) => {
        pub mod $m {
            use super::*;
            pub const N: usize = $n;
            pub type U = __BindgenBitfieldUnit<[u8; N]>;

            getter!(get_c, get_in, get_twin, |u, off, w| u.get(off, w));
            getter!(raw_get_c, raw_get_in, raw_get_twin, |u, off, w| unsafe { U::raw_get(u as *const U, off, w) });
            setter!(set_c, set_in, set_twin, |u, off, w, v| u.set(off, w, v));
            setter!(raw_set_c, raw_set_in, raw_set_twin, |u, off, w, v| unsafe { U::raw_set(u as *mut U, off, w, v) });
            bit_getter!(get_bit_c, get_bit_in, get_bit_twin, |u, i| u.get_bit(i));
            bit_getter!(raw_get_bit_c, raw_get_bit_in, raw_get_bit_twin, |u, i| unsafe { U::raw_get_bit(u as *const U, i) });
            bit_setter!(set_bit_c, set_bit_in, set_bit_twin, |u, i, v| u.set_bit(i, v));
            bit_setter!(raw_set_bit_c, raw_set_bit_in, raw_set_bit_twin, |u, i, v| unsafe { U::raw_set_bit(u as *mut U, i, v) });

            // F1 witness region: (off % 8) + w > 64 (known finding)
            region_getter!(get_region_gt64, |u, off, w| u.get(off, w));
            region_getter!(raw_get_region_gt64, |u, off, w| unsafe { U::raw_get(u as *const U, off, w) });
            region_setter!(set_region_gt64, |u, off, w, v| u.set(off, w, v));
            region_setter!(raw_set_region_gt64, |u, off, w, v| unsafe { U::raw_set(u as *mut U, off, w, v) });

            // ------- vacuity canary: requires satisfiable & post reachable -------
            #[kani::proof]
            #[kani::unwind(18)]
            pub fn canary_reach() {
                let mut u = U::new(kani::any());
                let off: usize = kani::any();
                let w: u8 = kani::any();
                kani::assume(pre_dbg(N, off, w) && in_region(off, w));
                let r = u.get(off, w);
                u.set(off, w, r);
                kani::cover!(w == 64 || N < 8, "full-width field reachable");
                kani::cover!(off % 8 != 0 && w > 1, "unaligned multi-bit field reachable");
                kani::cover!(r != 0, "non-zero read reachable");
            }

            // ------- lemmas over the contracts (callee bodies replaced) -------
            // round trip: get(set(u,off,w,v)) == v & mask  -- uses only contracts
            #[kani::proof]
            #[kani::stub_verified(get_c)]
            #[kani::stub_verified(set_c)]
            #[kani::unwind(18)]
            pub fn lemma_roundtrip() {
                let mut u = U::new(kani::any());
                let off: usize = kani::any();
                let w: u8 = kani::any();
                let v: u64 = kani::any();
                kani::assume(pre_dbg(N, off, w) && in_region(off, w));
                set_c(&mut u, off, w, v);
                let r = get_c(&u, off, w);
                assert!(r as u128 == (v as u128) & mask(w));
            }
            // non-interference: a store to field A leaves a disjoint field B as it was
            #[kani::proof]
            #[kani::stub_verified(get_c)]
            #[kani::stub_verified(set_c)]
            #[kani::unwind(18)]
            pub fn lemma_disjoint() {
                let mut u = U::new(kani::any());
                let (oa, wa, ob, wb): (usize, u8, usize, u8) =
                    (kani::any(), kani::any(), kani::any(), kani::any());
                let v: u64 = kani::any();
                kani::assume(pre_dbg(N, oa, wa) && in_region(oa, wa));
                kani::assume(pre_dbg(N, ob, wb) && in_region(ob, wb));
                kani::assume(oa + wa as usize <= ob || ob + wb as usize <= oa);
                let before = get_c(&u, ob, wb);
                set_c(&mut u, oa, wa, v);
                let after = get_c(&u, ob, wb);
                assert!(before == after);
            }
        }
    };
}

unit_contracts!(n1, 1);
unit_contracts!(n2, 2);
unit_contracts!(n3, 3);
unit_contracts!(n4, 4);
unit_contracts!(n5, 5);
unit_contracts!(n6, 6);
unit_contracts!(n7, 7);
unit_contracts!(n8, 8);
unit_contracts!(n9, 9);
unit_contracts!(n10, 10);
unit_contracts!(n11, 11);
unit_contracts!(n12, 12);
unit_contracts!(n13, 13);
unit_contracts!(n14, 14);
unit_contracts!(n15, 15);
unit_contracts!(n16, 16);
