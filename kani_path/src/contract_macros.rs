// Contract-generating macros shared by the bit-field contract modules.
// Each entry point gets:
//   <f>_c      transparent wrapper carrying #[kani::requires]/#[kani::ensures]/#[kani::modifies]
//   <f>_in     #[kani::proof_for_contract(<f>_c)]  -- the deciding proof
//   <f>_twin   the same obligation in explicit assume/assert form, drawing
//              kani::any() in the same order; NOT part of any verdict, only
//              run after <f>_in failed, to obtain a counterexample quickly and
//              to replay it natively (contract attributes are not evaluated
//              by a native playback run; an assert! is).
macro_rules! getter {
    ($c:ident, $in_:ident, $twin:ident, |$u:ident, $off:ident, $w:ident| $call:expr) => {
        #[kani::requires(pre_dbg(N, $off, $w) && in_region($off, $w))]
        #[kani::ensures(|r: &u64| get_post(le(&$u.storage), $off, $w, *r))]
        pub fn $c($u: &U, $off: usize, $w: u8) -> u64 {
            $call
        }
        #[kani::proof_for_contract($c)]
        #[kani::unwind(18)]
        pub fn $in_() {
            let u = U::new(kani::any());
            $c(&u, kani::any(), kani::any());
        }
        #[kani::proof]
        #[kani::unwind(18)]
        pub fn $twin() {
            let u0 = U::new(kani::any());
            let $u = &u0;
            let $off: usize = kani::any();
            let $w: u8 = kani::any();
            if !(pre_dbg(N, $off, $w) && in_region($off, $w)) {
                return;
            }
            let r: u64 = $call;
            assert!(get_post(le(&$u.storage), $off, $w, r), "postcondition: result == field(model)");
        }
    };
}

macro_rules! setter {
    ($c:ident, $in_:ident, $twin:ident, |$u:ident, $off:ident, $w:ident, $v:ident| $call:expr) => {
        #[kani::requires(pre_dbg(N, $off, $w) && in_region($off, $w))]
        #[kani::modifies($u)]
        #[kani::ensures(|_| set_post(old(le(&$u.storage)), le(&$u.storage), $off, $w, $v))]
        pub fn $c($u: &mut U, $off: usize, $w: u8, $v: u64) {
            $call
        }
        #[kani::proof_for_contract($c)]
        #[kani::unwind(18)]
        pub fn $in_() {
            let mut u = U::new(kani::any());
            $c(&mut u, kani::any(), kani::any(), kani::any());
        }
        #[kani::proof]
        #[kani::unwind(18)]
        pub fn $twin() {
            let mut u0 = U::new(kani::any());
            let $u = &mut u0;
            let $off: usize = kani::any();
            let $w: u8 = kani::any();
            let $v: u64 = kani::any();
            if !(pre_dbg(N, $off, $w) && in_region($off, $w)) {
                return;
            }
            let x0 = le(&$u.storage);
            $call;
            assert!(set_post(x0, le(&$u.storage), $off, $w, $v), "postcondition: storage == splice(model)");
        }
    };
}

macro_rules! bit_getter {
    ($c:ident, $in_:ident, $twin:ident, |$u:ident, $i:ident| $call:expr) => {
        #[kani::requires(pre_bit(N, $i))]
        #[kani::ensures(|r: &bool| get_bit_post(le(&$u.storage), $i, *r))]
        pub fn $c($u: &U, $i: usize) -> bool {
            $call
        }
        #[kani::proof_for_contract($c)]
        #[kani::unwind(18)]
        pub fn $in_() {
            let u = U::new(kani::any());
            $c(&u, kani::any());
        }
        #[kani::proof]
        #[kani::unwind(18)]
        pub fn $twin() {
            let u0 = U::new(kani::any());
            let $u = &u0;
            let $i: usize = kani::any();
            if !pre_bit(N, $i) {
                return;
            }
            let r: bool = $call;
            assert!(get_bit_post(le(&$u.storage), $i, r), "postcondition: bit == model bit");
        }
    };
}

macro_rules! bit_setter {
    ($c:ident, $in_:ident, $twin:ident, |$u:ident, $i:ident, $v:ident| $call:expr) => {
        #[kani::requires(pre_bit(N, $i))]
        #[kani::modifies($u)]
        #[kani::ensures(|_| set_bit_post(old(le(&$u.storage)), le(&$u.storage), $i, $v))]
        pub fn $c($u: &mut U, $i: usize, $v: bool) {
            $call
        }
        #[kani::proof_for_contract($c)]
        #[kani::unwind(18)]
        pub fn $in_() {
            let mut u = U::new(kani::any());
            $c(&mut u, kani::any(), kani::any());
        }
        #[kani::proof]
        #[kani::unwind(18)]
        pub fn $twin() {
            let mut u0 = U::new(kani::any());
            let $u = &mut u0;
            let $i: usize = kani::any();
            let $v: bool = kani::any();
            if !pre_bit(N, $i) {
                return;
            }
            let x0 = le(&$u.storage);
            $call;
            assert!(set_bit_post(x0, le(&$u.storage), $i, $v), "postcondition: storage == splice(model, 1 bit)");
        }
    };
}

// witness of the property-derived postcondition on the F1 region
macro_rules! region_getter {
    ($name:ident, |$u:ident, $off:ident, $w:ident| $call:expr) => {
        #[kani::proof]
        #[kani::unwind(18)]
        pub fn $name() {
            let u0 = U::new(kani::any());
            let $u = &u0;
            let $off: usize = kani::any();
            let $w: u8 = kani::any();
            kani::assume(pre_dbg(N, $off, $w) && !in_region($off, $w));
            let r: u64 = $call;
            assert!(get_post(le(&$u.storage), $off, $w, r));
        }
    };
}
macro_rules! region_setter {
    ($name:ident, |$u:ident, $off:ident, $w:ident, $v:ident| $call:expr) => {
        #[kani::proof]
        #[kani::unwind(18)]
        pub fn $name() {
            let mut u0 = U::new(kani::any());
            let $u = &mut u0;
            let $off: usize = kani::any();
            let $w: u8 = kani::any();
            let $v: u64 = kani::any();
            kani::assume(pre_dbg(N, $off, $w) && !in_region($off, $w));
            let x0 = le(&$u.storage);
            $call;
            assert!(set_post(x0, le(&$u.storage), $off, $w, $v));
        }
    };
}

