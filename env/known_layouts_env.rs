// Stub environment for unit `known_layouts` (C02): CompInfo::each_known_field_layout, the iteration that feeds the
// `#pragma pack` detection of CompInfo::is_packed (unit `packed` takes its result as the accessor s_known_layouts).
// The FnMut callback is a sink (rule R16): WHICH layouts it is handed, in which order, is the contract.
verus! {

global size_of usize == 8;

#[derive(Clone, Copy, PartialEq, Eq, Structural)]
pub struct ItemId(pub usize);
#[derive(Clone, Copy, PartialEq, Eq, Structural)]
pub struct TypeId(pub ItemId);
#[derive(Clone, Copy)]
pub struct Layout { pub size: usize, pub align: usize, pub packed: bool }
#[verifier::external_body] pub struct BindgenContext { _p: core::marker::PhantomData<()> }
#[verifier::external_body] pub struct Type { _p: core::marker::PhantomData<()> }
impl Type {
    pub uninterp spec fn s_layout(&self, ctx: &BindgenContext) -> Option<Layout>;
    #[verifier::external_body] pub fn layout(&self, ctx: &BindgenContext) -> (r: Option<Layout>) ensures r == self.s_layout(ctx) { unimplemented!() }
}
impl BindgenContext {
    pub uninterp spec fn s_type(&self, id: TypeId) -> Type;
    #[verifier::external_body] pub fn resolve_type(&self, id: TypeId) -> (r: &Type) ensures *r == self.s_type(id) { unimplemented!() }
}
#[verifier::external_body] pub struct Field { _p: core::marker::PhantomData<()> }
impl Field {
    pub uninterp spec fn s_layout(&self, ctx: &BindgenContext) -> Option<Layout>;
    #[verifier::external_body] pub fn layout(&self, ctx: &BindgenContext) -> (r: Option<Layout>) ensures r == self.s_layout(ctx) { unimplemented!() }
}
pub struct FieldData { pub ty: TypeId }
pub struct RawField(pub FieldData);
pub struct CompInfo { pub fields: CompFields }

#[verifier::external_body]
#[verifier::reject_recursive_types(T)]
pub struct VecCursor<'a, T> { _p: core::marker::PhantomData<&'a T> }
impl<'a, T> VecCursor<'a, T> {
    pub uninterp spec fn all(&self) -> Seq<T>;
    pub uninterp spec fn pos(&self) -> int;
    #[verifier::external_body]
    pub fn new(v: &'a Vec<T>) -> (r: VecCursor<'a, T>) ensures r.all() == v@, r.pos() == 0 { unimplemented!() }
    #[verifier::external_body]
    pub fn has_next(&self) -> (r: bool) ensures r == (self.pos() < self.all().len()), 0 <= self.pos() <= self.all().len() { unimplemented!() }
    #[verifier::external_body]
    pub fn next_item(&mut self) -> (r: &'a T)
        requires old(self).pos() < old(self).all().len(),
        ensures *r == old(self).all()[old(self).pos()], final(self).pos() == old(self).pos() + 1, final(self).all() == old(self).all(),
    { unimplemented!() }
}

// the known ones among a run of optional layouts, in order
pub open spec fn known(s: Seq<Option<Layout>>) -> Seq<Layout>
    decreases s.len()
{
    if s.len() == 0 { Seq::<Layout>::empty() } else {
        let p = known(s.drop_last());
        match s.last() { Some(l) => p.push(l), None => p }
    }
}

} // verus!
