// Stub environment for unit `eval_int` (C05): clang::EvalResult::as_int, the
// function that reads the value libclang's constant evaluator computed for a
// `const` variable initialiser or (clang-macro-fallback) a macro body.  Each
// libclang entry point is an uninterpreted function of the opaque result handle;
// the four integer getters are DISTINCT functions (clang_EvalResult_getAsInt
// truncates to C int, getAsLongLong does not), so reading the wrong one cannot
// satisfy the contract.  Rule R20: `unsafe { f(..) }` -> `f(..)` (the FFI
// functions are safe stubs here).
verus! {

global size_of usize == 8;

pub type c_longlong = i64;
pub type c_ulonglong = u64;
pub type c_int = i32;
pub type c_uint = u32;
pub type CXEvalResultKind = u32;
pub const CXEval_Int: CXEvalResultKind = 1;
pub const CXEval_Float: CXEvalResultKind = 2;
pub const CXEval_StrLiteral: CXEvalResultKind = 4;

#[derive(Clone, Copy)]
pub struct CXEvalResult(pub usize);
pub struct EvalResult { pub x: CXEvalResult, pub ty: Type }

// ---- string literals (EvalResult::as_literal_string): the evaluated expression's type and the evaluator's byte buffer
pub type CXTypeKind = u32;
pub const CXType_Char_U: CXTypeKind = 4;
pub const CXType_UChar: CXTypeKind = 5;
pub const CXType_Char16: CXTypeKind = 6;
pub const CXType_Char32: CXTypeKind = 7;
pub const CXType_Char_S: CXTypeKind = 13;
pub const CXType_SChar: CXTypeKind = 14;
pub const CXType_WChar: CXTypeKind = 15;
#[derive(Clone, Copy)] pub struct Type { pub h: usize }
pub uninterp spec fn ty_kind(t: Type) -> CXTypeKind;
pub uninterp spec fn ty_pointee(t: Type) -> Option<Type>;
pub uninterp spec fn ty_elem(t: Type) -> Option<Type>;
impl Type {
    #[verifier::external_body] pub fn kind(&self) -> (r: CXTypeKind) ensures r == ty_kind(*self) { unimplemented!() }
    #[verifier::external_body] pub fn pointee_type(&self) -> (r: Option<Type>) ensures r == ty_pointee(*self) { unimplemented!() }
    #[verifier::external_body] pub fn elem_type(&self) -> (r: Option<Type>) ensures r == ty_elem(*self) { unimplemented!() }
}
// CStr::from_ptr(clang_EvalResult_getAsStr(x)).to_bytes().to_vec(): the evaluator's buffer read as a NUL-terminated BYTE string
pub uninterp spec fn ffi_cstr_bytes(x: CXEvalResult) -> Seq<u8>;
#[verifier::external_body] pub fn ffi_str_bytes(x: CXEvalResult) -> (r: Vec<u8>) ensures r@ == ffi_cstr_bytes(x) { unimplemented!() }

pub uninterp spec fn ffi_kind(x: CXEvalResult) -> CXEvalResultKind;
pub uninterp spec fn ffi_is_unsigned(x: CXEvalResult) -> c_uint;
pub uninterp spec fn ffi_as_unsigned(x: CXEvalResult) -> c_ulonglong;
pub uninterp spec fn ffi_as_longlong(x: CXEvalResult) -> c_longlong;
pub uninterp spec fn ffi_as_int(x: CXEvalResult) -> c_int;
#[verifier::external_body] pub fn clang_EvalResult_getKind(x: CXEvalResult) -> (r: CXEvalResultKind) ensures r == ffi_kind(x) { unimplemented!() }
#[verifier::external_body] pub fn clang_EvalResult_isUnsignedInt(x: CXEvalResult) -> (r: c_uint) ensures r == ffi_is_unsigned(x) { unimplemented!() }
#[verifier::external_body] pub fn clang_EvalResult_getAsUnsigned(x: CXEvalResult) -> (r: c_ulonglong) ensures r == ffi_as_unsigned(x) { unimplemented!() }
#[verifier::external_body] pub fn clang_EvalResult_getAsLongLong(x: CXEvalResult) -> (r: c_longlong) ensures r == ffi_as_longlong(x) { unimplemented!() }
#[verifier::external_body] pub fn clang_EvalResult_getAsInt(x: CXEvalResult) -> (r: c_int) ensures r == ffi_as_int(x) { unimplemented!() }

// ---- enum constant values (clang::Cursor::enum_val_*): two more libclang getters
pub type CXCursorKind = u32;
pub const CXCursor_EnumConstantDecl: CXCursorKind = 7;
#[derive(Clone, Copy)]
pub struct CXCursor(pub usize);
pub struct Cursor { pub x: CXCursor }
pub uninterp spec fn ffi_cursor_kind(x: CXCursor) -> CXCursorKind;
pub uninterp spec fn ffi_enum_value(x: CXCursor) -> c_longlong;
// the cursor lies inside a class template (libclang reports 0 for every enumerator there)
pub uninterp spec fn ffi_in_template(x: CXCursor) -> bool;
pub uninterp spec fn ffi_enum_value_unsigned(x: CXCursor) -> c_ulonglong;
impl Cursor {
    #[verifier::external_body] pub fn kind(&self) -> (r: CXCursorKind) ensures r == ffi_cursor_kind(self.x) { unimplemented!() }
}
#[verifier::external_body] pub fn clang_getEnumConstantDeclValue(x: CXCursor) -> (r: c_longlong) ensures r == ffi_enum_value(x) { unimplemented!() }
#[verifier::external_body] pub fn clang_getEnumConstantDeclUnsignedValue(x: CXCursor) -> (r: c_ulonglong) ensures r == ffi_enum_value_unsigned(x) { unimplemented!() }

// ---- the integer-literal arm of Var::codegen
#[verifier::external_body] pub struct Tok { _p: core::marker::PhantomData<()> }
pub uninterp spec fn lit_value(t: Tok) -> int;      // the mathematical value the literal token denotes
pub mod helpers { pub mod ast_ty {
    use super::super::*;
    #[verifier::external_body] pub fn int_expr(v: i64) -> (r: Tok) ensures lit_value(r) == v as int { unimplemented!() }
    #[verifier::external_body] pub fn uint_expr(v: u64) -> (r: Tok) ensures lit_value(r) == v as int { unimplemented!() }
} }
#[verifier::external_body] pub struct BindgenContext { _p: core::marker::PhantomData<()> }
#[derive(Clone, Copy)] pub struct TypeId(pub usize);
pub struct IntKindInfo { pub signed: bool }
impl IntKindInfo { pub fn is_signed(&self) -> (r: bool) ensures r == self.signed { self.signed } }
// var_ty.into_resolver().through_type_aliases().through_type_refs().resolve(ctx).expect_type().as_integer().unwrap()
pub uninterp spec fn s_int_kind_of(ty: TypeId, ctx: &BindgenContext) -> IntKindInfo;
#[verifier::external_body] pub fn resolved_int_kind(ty: TypeId, ctx: &BindgenContext) -> (r: IntKindInfo) ensures r == s_int_kind_of(ty, ctx) { unimplemented!() }

// `o.map(EnumVariantValue::X)` (rule R7: Option::map with an enum constructor)
pub fn opt_map_Boolean(o: Option<bool>) -> (r: Option<EnumVariantValue>) ensures r == (match o { Some(v) => Some(EnumVariantValue::Boolean(v)), None => None }) { match o { Some(v) => Some(EnumVariantValue::Boolean(v)), None => None } }
pub fn opt_map_Signed(o: Option<i64>) -> (r: Option<EnumVariantValue>) ensures r == (match o { Some(v) => Some(EnumVariantValue::Signed(v)), None => None }) { match o { Some(v) => Some(EnumVariantValue::Signed(v)), None => None } }
pub fn opt_map_Unsigned(o: Option<u64>) -> (r: Option<EnumVariantValue>) ensures r == (match o { Some(v) => Some(EnumVariantValue::Unsigned(v)), None => None }) { match o { Some(v) => Some(EnumVariantValue::Unsigned(v)), None => None } }

} // verus!
