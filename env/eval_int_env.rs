// Stub environment for unit `eval_int` (C05): clang::EvalResult::as_int, the
// function that reads the value libclang's constant evaluator computed for a
// `const` variable initialiser or (clang-macro-fallback) a macro body.  Each
// libclang entry point is an uninterpreted function of the opaque result handle;
// the four integer getters are DISTINCT functions (clang_EvalResult_getAsInt
// truncates to C int, getAsLongLong does not), so reading the wrong one cannot
// satisfy the contract.  Rule R20: `unsafe { f(..) }` -> `f(..)` (the FFI
// functions are safe stubs here).
verus! {

global size_of usize == 8;

pub type c_longlong = i64;
pub type c_ulonglong = u64;
pub type c_int = i32;
pub type c_uint = u32;
pub type CXEvalResultKind = u32;
pub const CXEval_Int: CXEvalResultKind = 1;
pub const CXEval_Float: CXEvalResultKind = 2;
pub const CXEval_StrLiteral: CXEvalResultKind = 4;

#[derive(Clone, Copy)]
pub struct CXEvalResult(pub usize);
pub struct EvalResult { pub x: CXEvalResult }

pub uninterp spec fn ffi_kind(x: CXEvalResult) -> CXEvalResultKind;
pub uninterp spec fn ffi_is_unsigned(x: CXEvalResult) -> c_uint;
pub uninterp spec fn ffi_as_unsigned(x: CXEvalResult) -> c_ulonglong;
pub uninterp spec fn ffi_as_longlong(x: CXEvalResult) -> c_longlong;
pub uninterp spec fn ffi_as_int(x: CXEvalResult) -> c_int;
#[verifier::external_body] pub fn clang_EvalResult_getKind(x: CXEvalResult) -> (r: CXEvalResultKind) ensures r == ffi_kind(x) { unimplemented!() }
#[verifier::external_body] pub fn clang_EvalResult_isUnsignedInt(x: CXEvalResult) -> (r: c_uint) ensures r == ffi_is_unsigned(x) { unimplemented!() }
#[verifier::external_body] pub fn clang_EvalResult_getAsUnsigned(x: CXEvalResult) -> (r: c_ulonglong) ensures r == ffi_as_unsigned(x) { unimplemented!() }
#[verifier::external_body] pub fn clang_EvalResult_getAsLongLong(x: CXEvalResult) -> (r: c_longlong) ensures r == ffi_as_longlong(x) { unimplemented!() }
#[verifier::external_body] pub fn clang_EvalResult_getAsInt(x: CXEvalResult) -> (r: c_int) ensures r == ffi_as_int(x) { unimplemented!() }

} // verus!
