// Stub environment for unit `base_storage` (C10, C02): does a base class get a field of its own in the derived struct.
// The sizedness table, the allowlisted set and the IR of a type are uninterpreted reads.
verus! {

global size_of usize == 8;

#[derive(Clone, Copy, PartialEq, Eq, Structural)]
pub struct ItemId(pub usize);
#[derive(Clone, Copy, PartialEq, Eq, Structural)]
pub struct TypeId(pub ItemId);
impl TypeId {
    pub fn item(self) -> (r: ItemId) ensures r == self.0 { self.0 }
    // <TypeId as Sizedness>::is_zero_sized: `ctx.lookup_sizedness(*self) == SizednessResult::ZeroSized`
    pub fn is_zero_sized(&self, ctx: &BindgenContext) -> (r: bool)
        requires ctx.s_codegen_phase(),
        ensures r == (s_lookup_sizedness(ctx, *self) == SizednessResult::ZeroSized)
    { ctx.lookup_sizedness_stub(*self) == SizednessResult::ZeroSized }
}
pub struct Layout { pub size: usize, pub align: usize, pub packed: bool }

#[verifier::external_body] pub struct CompInfo { _p: core::marker::PhantomData<()> }
#[verifier::external_body] pub struct FieldT { _p: core::marker::PhantomData<()> }
#[verifier::external_body] pub struct BaseT { _p: core::marker::PhantomData<()> }
impl CompInfo {
    pub uninterp spec fn s_fields(&self) -> Seq<FieldT>;
    pub uninterp spec fn s_bases(&self) -> Seq<BaseT>;
    pub uninterp spec fn s_own_virtual(&self) -> bool;
    #[verifier::external_body] pub fn fields(&self) -> (r: &[FieldT]) ensures r@ == self.s_fields() { unimplemented!() }
    #[verifier::external_body] pub fn base_members(&self) -> (r: &[BaseT]) ensures r@ == self.s_bases() { unimplemented!() }
    #[verifier::external_body] pub fn has_own_virtual_method(&self) -> (r: bool) ensures r == self.s_own_virtual() { unimplemented!() }
}
// the kinds lookup_sizedness distinguishes
pub enum TypeKind { Comp(CompInfo), Other }
#[verifier::external_body] pub struct Type { _p: core::marker::PhantomData<()> }
impl Type {
    pub uninterp spec fn s_kind(&self) -> TypeKind;
    pub uninterp spec fn s_canonical(&self, ctx: &BindgenContext) -> Type;
    pub uninterp spec fn s_layout(&self, ctx: &BindgenContext) -> Option<Layout>;
    #[verifier::external_body] pub fn kind(&self) -> (r: &TypeKind) ensures *r == self.s_kind() { unimplemented!() }
    #[verifier::external_body] pub fn canonical_type(&self, ctx: &BindgenContext) -> (r: &Type) ensures *r == self.s_canonical(ctx) { unimplemented!() }
    #[verifier::external_body] pub fn layout(&self, ctx: &BindgenContext) -> (r: Option<Layout>) ensures r == self.s_layout(ctx) { unimplemented!() }
}
#[verifier::external_body] pub struct ItemSet { _p: core::marker::PhantomData<()> }
impl ItemSet {
    pub uninterp spec fn s_contains(&self, k: ItemId) -> bool;
    #[verifier::external_body] pub fn contains(&self, k: &ItemId) -> (r: bool) ensures r == self.s_contains(*k) { unimplemented!() }
}
#[verifier::external_body] pub struct BindgenContext { _p: core::marker::PhantomData<()> }
impl BindgenContext {
    pub uninterp spec fn s_codegen_phase(&self) -> bool;
    // the entry of the finished sizedness analysis (None: the type was not analysed, or is zero-sized)
    pub uninterp spec fn s_sized_entry(&self, id: TypeId) -> Option<SizednessResult>;
    pub uninterp spec fn s_allowlisted(&self) -> ItemSet;
    pub uninterp spec fn s_type(&self, id: TypeId) -> Type;
    #[verifier::external_body] pub fn in_codegen_phase(&self) -> (r: bool) ensures r == self.s_codegen_phase() { unimplemented!() }
    // self.sizedness.as_ref().unwrap().get(&id)
    #[verifier::external_body] pub fn sized_entry(&self, id: TypeId) -> (r: Option<&SizednessResult>)
        requires self.s_codegen_phase(),
        ensures r.is_some() == self.s_sized_entry(id).is_some(), r.is_some() ==> *r.unwrap() == self.s_sized_entry(id).unwrap() { unimplemented!() }
    #[verifier::external_body] pub fn allowlisted_items(&self) -> (r: &ItemSet) ensures *r == self.s_allowlisted() { unimplemented!() }
    #[verifier::external_body] pub fn resolve_type(&self, id: TypeId) -> (r: &Type) ensures *r == self.s_type(id) { unimplemented!() }
    // the function under contract below, as seen by its caller Base::requires_storage (callee's contract, not its body)
    #[verifier::external_body] pub fn lookup_sizedness_stub(&self, id: TypeId) -> (r: SizednessResult)
        requires self.s_codegen_phase(), ensures r == s_lookup_sizedness(self, id) { unimplemented!() }
}

} // verus!
