// Stub environment for unit `target_sel` (C06): does Bindings::generate tell libclang which target to lay types out for.
// Target triples and command-line arguments are opaque strings with an uninterpreted equality (rule R21).
verus! {

global size_of usize == 8;

#[verifier::external_body] pub struct Triple { _p: core::marker::PhantomData<()> }     // Box<str>
#[verifier::external_body] pub struct Arg { _p: core::marker::PhantomData<()> }        // Box<str>
pub uninterp spec fn same_triple(a: &Triple, b: &Triple) -> bool;   // <str as PartialEq>::eq
pub uninterp spec fn host_triple() -> Triple;                        // rust_to_clang_target(HOST_TARGET)
#[verifier::external_body] pub fn host_clang_target() -> (r: Triple) ensures r == host_triple() { unimplemented!() }
#[verifier::external_body] pub fn triple_eq(a: &Triple, b: &Triple) -> (r: bool) ensures r == same_triple(a, b) { unimplemented!() }
// format!("--target={effective_target}").into_boxed_str()
pub uninterp spec fn target_arg(t: &Triple) -> Arg;
#[verifier::external_body] pub fn make_target_arg(t: &Triple) -> (r: Arg) ensures r == target_arg(t) { unimplemented!() }
// Vec::insert(0, x)
#[verifier::external_body] pub fn vec_insert_front(v: &mut Vec<Arg>, x: Arg) ensures final(v)@ == seq![x] + old(v)@ { unimplemented!() }

} // verus!
