// Stub environment for unit `repr` (C02/C10): the `packed` representation-hint decision in
// CompInfo::codegen (an `if/else` statement extracted by rule R18, statement mode).
verus! {

global size_of usize == 8;

#[derive(Clone, Copy, PartialEq, Eq)]
pub struct Layout { pub size: usize, pub align: usize, pub packed: bool }
#[verifier::external_body] pub struct BindgenContext { _p: core::marker::PhantomData<()> }
#[verifier::external_body] pub struct CompInfo { _p: core::marker::PhantomData<()> }
impl CompInfo {
    pub uninterp spec fn s_already_packed(&self, ctx: &BindgenContext) -> Option<bool>;
    #[verifier::external_body] pub fn already_packed(&self, ctx: &BindgenContext) -> (r: Option<bool>) ensures r == self.s_already_packed(ctx) { unimplemented!() }
}
// layout.map_or(1, |l| l.align)
pub fn layout_align_or_1(l: Option<Layout>) -> (r: usize) ensures r == (match l { Some(x) => x.align, None => 1 }) {
    match l { Some(x) => x.align, None => 1 }
}
#[verifier::external_body] pub struct Tok { _p: core::marker::PhantomData<()> }
#[verifier::external_body] pub struct ReprStr { _p: core::marker::PhantomData<()> }
pub uninterp spec fn repr_packed_n(s: ReprStr) -> int;            // N of "packed" (=1) / "packed(N)"
pub uninterp spec fn attr_packed(t: Tok) -> Option<int>;          // Some(N): #[repr(C, packed(N))]; None: #[repr(C)]
#[verifier::external_body] pub fn str_packed() -> (r: ReprStr) ensures repr_packed_n(r) == 1 { unimplemented!() }          // "packed".to_string()
#[verifier::external_body] pub fn str_packed_n(n: usize) -> (r: ReprStr) ensures repr_packed_n(r) == n { unimplemented!() } // format!("packed({n})")
pub mod attributes {
    use super::*;
    #[verifier::external_body] pub fn repr_list_c(p: &ReprStr) -> (r: Tok) ensures attr_packed(r) == Some(repr_packed_n(*p)) { unimplemented!() }  // repr_list(&["C", &packed_repr])
    #[verifier::external_body] pub fn repr_c() -> (r: Tok) ensures attr_packed(r).is_none() { unimplemented!() }                                      // repr("C")
}

} // verus!
