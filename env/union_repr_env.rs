// Stub environment for unit `union_repr` (C02, C08): how a C union is represented.
// CompInfo::is_rust_union decides between a Rust `union` and a struct of
// __BindgenUnionField markers over a blob; wrap_union_field_if_needed wraps each member.
// Rust facts used (trusted): ManuallyDrop<T> is #[repr(transparent)] over T;
// __BindgenUnionField<T> is `struct(PhantomData<T>)`: size 0, alignment 1.
verus! {

global size_of usize == 8;

pub struct Layout { pub size: usize, pub align: usize, pub packed: bool }
#[verifier::external_body] pub struct RegexSet { _p: core::marker::PhantomData<()> }
impl RegexSet {
    pub uninterp spec fn s_matches(&self, name: &str) -> bool;
    #[verifier::external_body] pub fn matches(&self, name: &str) -> (r: bool) ensures r == self.s_matches(name) { unimplemented!() }
}
pub struct BindgenOptions {
    pub untagged_union: bool, pub enable_cxx_namespaces: bool,
    pub bindgen_wrapper_union: RegexSet, pub manually_drop_union: RegexSet, pub default_non_copy_union_style: NonCopyUnionStyle,
}
#[verifier::external_body] pub struct Tok { _p: core::marker::PhantomData<()> }
pub uninterp spec fn ty_size(t: Tok) -> int;
pub uninterp spec fn ty_align(t: Tok) -> int;
#[verifier::external_body] pub struct BindgenContext { _p: core::marker::PhantomData<()> }
impl BindgenContext {
    pub uninterp spec fn spec_options(&self) -> BindgenOptions;
    #[verifier::external_body] pub fn options(&self) -> (r: &BindgenOptions) ensures *r == self.spec_options() { unimplemented!() }
    #[verifier::external_body] pub fn trait_prefix(&self) -> (r: Tok) { unimplemented!() }
}
#[verifier::external_body] pub struct CompInfo { _p: core::marker::PhantomData<()> }
impl CompInfo {
    pub uninterp spec fn s_is_union(&self) -> bool;
    pub uninterp spec fn s_forward_decl(&self) -> bool;
    // self.fields().iter().all(|f| match *f { DataMember(d) => d.ty().can_derive_copy(ctx), Bitfields(_) => true })
    pub uninterp spec fn s_all_fields_copy(&self, ctx: &BindgenContext) -> bool;
    #[verifier::external_body] pub fn is_union(&self) -> (r: bool) ensures r == self.s_is_union() { unimplemented!() }
    #[verifier::external_body] pub fn is_forward_declaration(&self) -> (r: bool) ensures r == self.s_forward_decl() { unimplemented!() }
    #[verifier::external_body] pub fn all_fields_can_copy(&self, ctx: &BindgenContext) -> (r: bool) ensures r == self.s_all_fields_copy(ctx) { unimplemented!() }
}
pub struct StructLayoutTracker { pub is_rust_union: bool, pub can_copy_union_fields: bool }
impl StructLayoutTracker {
    pub fn is_rust_union(&self) -> (r: bool) ensures r == self.is_rust_union { self.is_rust_union }
    pub fn can_copy_union_fields(&self) -> (r: bool) ensures r == self.can_copy_union_fields { self.can_copy_union_fields }
}
pub struct CodegenResult { pub saw_bindgen_union: bool }
impl CodegenResult { pub fn saw_bindgen_union(&mut self) ensures final(self).saw_bindgen_union { self.saw_bindgen_union = true; } }
// ::#prefix::mem::ManuallyDrop<#ty>
#[verifier::external_body] pub fn q_manually_drop(prefix: &Tok, ty: &Tok) -> (r: Tok) ensures ty_size(r) == ty_size(*ty), ty_align(r) == ty_align(*ty) { unimplemented!() }
// [root::]__BindgenUnionField<#ty>
#[verifier::external_body] pub fn q_union_field_marker(root: bool, ty: &Tok) -> (r: Tok) ensures ty_size(r) == 0, ty_align(r) == 1 { unimplemented!() }

// ---- the per-member test of is_rust_union (the closure of `.iter().all(..)`): Copy-derivability of the member's DECLARED type
#[derive(Clone, Copy, PartialEq, Eq, Structural)]
pub struct ItemId(pub usize);
#[derive(Clone, Copy, PartialEq, Eq, Structural)]
pub struct TypeId(pub ItemId);
pub uninterp spec fn s_can_copy(ctx: &BindgenContext, id: ItemId) -> bool;
impl TypeId { #[verifier::external_body] pub fn can_derive_copy(&self, ctx: &BindgenContext) -> (r: bool) ensures r == s_can_copy(ctx, self.0) { unimplemented!() } }
impl ItemId { #[verifier::external_body] pub fn can_derive_copy(&self, ctx: &BindgenContext) -> (r: bool) ensures r == s_can_copy(ctx, *self) { unimplemented!() } }
pub struct FieldData { pub ty: TypeId }
impl FieldData { pub fn ty(&self) -> (r: TypeId) ensures r == self.ty { self.ty } }
#[verifier::external_body] pub struct BitfieldUnit { _p: core::marker::PhantomData<()> }
pub enum Field { DataMember(FieldData), Bitfields(BitfieldUnit) }
// ItemResolver: where an id ends up behind references / aliases is an uninterpreted function of the IR
pub struct ItemResolver { pub id: ItemId, pub refs: bool, pub aliases: bool }
impl TypeId { pub fn into_resolver(self) -> (r: ItemResolver) ensures r == (ItemResolver { id: self.0, refs: false, aliases: false }) { ItemResolver { id: self.0, refs: false, aliases: false } } }
pub uninterp spec fn s_resolved(ctx: &BindgenContext, id: ItemId, refs: bool, aliases: bool) -> ItemId;
#[verifier::external_body] pub struct Item { _p: core::marker::PhantomData<()> }
impl Item {
    pub uninterp spec fn s_id(&self) -> ItemId;
    #[verifier::external_body] pub fn id(&self) -> (r: ItemId) ensures r == self.s_id() { unimplemented!() }
}
impl ItemResolver {
    pub fn through_type_refs(self) -> (r: ItemResolver) ensures r == (ItemResolver { refs: true, ..self }) { ItemResolver { id: self.id, refs: true, aliases: self.aliases } }
    pub fn through_type_aliases(self) -> (r: ItemResolver) ensures r == (ItemResolver { aliases: true, ..self }) { ItemResolver { id: self.id, refs: self.refs, aliases: true } }
    #[verifier::external_body] pub fn resolve<'a>(self, ctx: &'a BindgenContext) -> (r: &'a Item) ensures r.s_id() == s_resolved(ctx, self.id, self.refs, self.aliases) { unimplemented!() }
}

} // verus!
