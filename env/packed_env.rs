// Stub environment for unit `packed` (C02: CompInfo::already_packed).
verus! {

global size_of usize == 8;

#[verifier::external_body]
pub struct BindgenContext { _p: core::marker::PhantomData<()> }

#[verifier::external_body]
pub struct Field { _p: core::marker::PhantomData<()> }
impl Field {
    pub uninterp spec fn s_layout(&self, ctx: &BindgenContext) -> Option<Layout>;
    #[verifier::external_body] pub fn layout(&self, ctx: &BindgenContext) -> (r: Option<Layout>) ensures r == self.s_layout(ctx) { unimplemented!() }
}

#[verifier::external_body]
pub struct CompRest { _p: core::marker::PhantomData<()> }
// the two flags is_packed reads directly; everything else of CompInfo is opaque
pub struct CompInfo { pub packed_attr: bool, pub has_own_virtual_method: bool, pub rest: CompRest }
impl CompInfo {
    pub uninterp spec fn s_fields(&self) -> Seq<Field>;
    // layouts handed to the callback of each_known_field_layout, in order
    pub uninterp spec fn s_known_layouts(&self, ctx: &BindgenContext) -> Seq<Layout>;
    #[verifier::external_body] pub fn fields(&self) -> (r: &[Field]) ensures r@ == self.s_fields() { unimplemented!() }
}

// rule R16: `self.each_known_field_layout(ctx, |layout| BODY)` -> cursor loop running BODY once per
// field whose layout is known, in field order (what each_known_field_layout does)
#[verifier::external_body]
pub struct KnownLayoutCursor { _p: core::marker::PhantomData<()> }
impl KnownLayoutCursor {
    pub uninterp spec fn all(&self) -> Seq<Layout>;
    pub uninterp spec fn pos(&self) -> int;
    #[verifier::external_body]
    pub fn new(c: &CompInfo, ctx: &BindgenContext) -> (r: KnownLayoutCursor) ensures r.all() == c.s_known_layouts(ctx), r.pos() == 0 { unimplemented!() }
    #[verifier::external_body]
    pub fn has_next(&self) -> (r: bool) ensures r == (self.pos() < self.all().len()), 0 <= self.pos() <= self.all().len() { unimplemented!() }
    #[verifier::external_body]
    pub fn next_item(&mut self) -> (r: Layout)
        requires old(self).pos() < old(self).all().len(),
        ensures r == old(self).all()[old(self).pos()], final(self).pos() == old(self).pos() + 1, final(self).all() == old(self).all(),
    { unimplemented!() }
}

// `for x in slice` (rule R13): yields references to the elements in order
#[verifier::external_body]
#[verifier::reject_recursive_types(T)]
pub struct SliceCursor<'a, T> { _p: core::marker::PhantomData<&'a T> }
impl<'a, T> SliceCursor<'a, T> {
    pub uninterp spec fn all(&self) -> Seq<T>;
    pub uninterp spec fn pos(&self) -> int;
    #[verifier::external_body]
    pub fn new(v: &'a [T]) -> (r: SliceCursor<'a, T>) ensures r.all() == v@, r.pos() == 0 { unimplemented!() }
    #[verifier::external_body]
    pub fn has_next(&self) -> (r: bool) ensures r == (self.pos() < self.all().len()), 0 <= self.pos() <= self.all().len() { unimplemented!() }
    #[verifier::external_body]
    pub fn next_item(&mut self) -> (r: &'a T)
        requires old(self).pos() < old(self).all().len(),
        ensures *r == old(self).all()[old(self).pos()], final(self).pos() == old(self).pos() + 1, final(self).all() == old(self).all(),
    { unimplemented!() }
}

} // verus!
