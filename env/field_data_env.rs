// Stub environment for unit `field_data` (C06, C02): the record that carries a member's clang numbers (bit offset, bit-field
// width) from parsing to code generation.
verus! {

global size_of usize == 8;

#[derive(Clone, Copy, PartialEq, Eq, Structural)]
pub struct TypeId(pub usize);
#[verifier::external_body] pub struct Annotations { _p: core::marker::PhantomData<()> }
// Option<Annotations>::unwrap_or_default()
#[verifier::external_body] pub fn annotations_or_default(a: Option<Annotations>) -> (r: Annotations) { unimplemented!() }

} // verus!
