// Stub environment for unit `layout_tests` (C06): the per-member offset assertion generator
// (a filter_map closure) and the layout-assertion block of CompInfo::codegen, both extracted
// by rule R18.  Every assertion template is an env constructor recording WHAT it asserts.
verus! {

global size_of usize == 8;

#[derive(Clone, Copy, PartialEq, Eq)]
pub struct Layout { pub size: usize, pub align: usize, pub packed: bool }
pub struct RustFeatures { pub offset_of: bool }
#[verifier::external_body] pub struct BindgenOptions { _p: core::marker::PhantomData<()> }
impl BindgenOptions {
    pub uninterp spec fn s_features(&self) -> RustFeatures;
    pub uninterp spec fn s_layout_tests(&self) -> bool;
    #[verifier::external_body] pub fn rust_features(&self) -> (r: RustFeatures) ensures r == self.s_features() { unimplemented!() }
    #[verifier::external_body] pub fn layout_tests(&self) -> (r: bool) ensures r == self.s_layout_tests() { unimplemented!() }
}

#[verifier::external_body] pub struct Tok { _p: core::marker::PhantomData<()> }
pub uninterp spec fn ident_of(name: Seq<char>) -> Tok;
// what an assertion token asserts
pub uninterp spec fn asserts_offset(t: Tok) -> Option<(Tok, int)>;   // (field ident, byte offset)
pub uninterp spec fn asserts_size(t: Tok) -> Option<int>;
pub uninterp spec fn asserts_align(t: Tok) -> Option<int>;
pub uninterp spec fn field_checks_in(t: Tok) -> Seq<Tok>;             // the per-field checks an item embeds

#[verifier::external_body] pub struct BindgenContext { _p: core::marker::PhantomData<()> }
impl BindgenContext {
    pub uninterp spec fn spec_options(&self) -> BindgenOptions;
    #[verifier::external_body] pub fn options(&self) -> (r: &BindgenOptions) ensures *r == self.spec_options() { unimplemented!() }
    #[verifier::external_body] pub fn rust_ident(&self, name: &str) -> (r: Tok) ensures r == ident_of(name@) { unimplemented!() }
    #[verifier::external_body] pub fn rust_ident_raw(&self, name: String) -> (r: Tok) { unimplemented!() }
    #[verifier::external_body] pub fn trait_prefix(&self) -> (r: Tok) { unimplemented!() }
}

#[verifier::external_body] pub struct FieldData { _p: core::marker::PhantomData<()> }
impl FieldData {
    pub uninterp spec fn s_name(&self) -> Option<Seq<char>>;
    pub uninterp spec fn s_offset(&self) -> Option<usize>;
    #[verifier::external_body] pub fn name(&self) -> (r: Option<&str>) ensures r.is_some() == self.s_name().is_some(), r.is_some() ==> r.unwrap()@ == self.s_name().unwrap() { unimplemented!() }
    #[verifier::external_body] pub fn offset(&self) -> (r: Option<usize>) ensures r == self.s_offset() { unimplemented!() }
}
#[verifier::external_body] pub struct BitfieldUnit { _p: core::marker::PhantomData<()> }
pub enum Field { DataMember(FieldData), Bitfields(BitfieldUnit) }

// format!("Offset of field: {canonical_ident}::{field_name}") etc. (message text is irrelevant)
#[verifier::external_body] pub fn msg2(a: &Tok, b: &Tok) -> (r: String) { unimplemented!() }
#[verifier::external_body] pub fn msg1(a: &Tok) -> (r: String) { unimplemented!() }
// [#err][::prefix::mem::offset_of!(#ident, #field) - #off];   /   assert_eq!(unsafe { addr_of!((*ptr).#field) as usize - ptr as usize }, #off, #err);
#[verifier::external_body] pub fn q_offset_check(compile_time: bool, prefix: &Tok, ident: &Tok, field: &Tok, off: usize, err: &String) -> (r: Tok)
    ensures asserts_offset(r) == Some((*field, off as int)) { unimplemented!() }

// ---- block level
#[verifier::external_body] pub struct CompInfo { _p: core::marker::PhantomData<()> }
impl CompInfo {
    pub uninterp spec fn s_forward_decl(&self) -> bool;
    pub uninterp spec fn s_fields(&self) -> Seq<Field>;
    #[verifier::external_body] pub fn is_forward_declaration(&self) -> (r: bool) ensures r == self.s_forward_decl() { unimplemented!() }
}
// the offset checks of all fields, in field order = filter_map of the per-field generator below
pub uninterp spec fn s_field_checks(c: &CompInfo, ctx: &BindgenContext, ident: Tok, compile_time: bool) -> Seq<Tok>;
// stands for: self.fields().iter().filter_map(<the closure verified as field_offset_check>).collect()
#[verifier::external_body]
pub fn collect_field_checks(c: &CompInfo, ctx: &BindgenContext, ident: &Tok, compile_time: bool, prefix: &Tok) -> (r: Vec<Tok>)
    ensures r@ == s_field_checks(c, ctx, *ident, compile_time) { unimplemented!() }
// which quantity an expression token measures
pub uninterp spec fn is_size_of(t: Tok) -> bool;
pub uninterp spec fn is_align_of(t: Tok) -> bool;
#[verifier::external_body] pub fn q_size_of_expr(prefix: &Tok, ident: &Tok) -> (r: Tok) ensures is_size_of(r), !is_align_of(r) { unimplemented!() }
#[verifier::external_body] pub fn q_align_of_expr(prefix: &Tok, ident: &Tok) -> (r: Tok) ensures is_align_of(r), !is_size_of(r) { unimplemented!() }
// [#align_of_err][#align_of_expr - #align];
#[verifier::external_body] pub fn q_check_align_const(err: &String, expr: &Tok, n: &usize) -> (r: Tok) ensures asserts_align(r) == (if is_align_of(*expr) { Some(*n as int) } else { None }) { unimplemented!() }
// assert_eq!(#align_of_expr, #align, #align_of_err);
#[verifier::external_body] pub fn q_check_align_test(expr: &Tok, n: &usize, err: &String) -> (r: Tok) ensures asserts_align(r) == (if is_align_of(*expr) { Some(*n as int) } else { None }) { unimplemented!() }
#[verifier::external_body] pub fn q_uninit_decl(prefix: &Tok, ident: &Tok) -> (r: Tok) { unimplemented!() }
// const _: () = { [#size_of_err][#size_of_expr - #size]; #check_struct_align #( #check_field_offset )* };
#[verifier::external_body] pub fn q_const_assert_block(size_err: &String, size_expr: &Tok, size: &usize, check_align: &Tok, checks: &Vec<Tok>) -> (r: Tok)
    ensures asserts_size(r) == (if is_size_of(*size_expr) { Some(*size as int) } else { None }), asserts_align(r) == asserts_align(*check_align), field_checks_in(r) == checks@ { unimplemented!() }
// #[test] fn #fn_name() { #uninit_decl assert_eq!(#size_of_expr, #size, #size_of_err); #check_struct_align #( #check_field_offset )* }
#[verifier::external_body] pub fn q_test_fn(fn_name: &Option<Tok>, uninit: &Option<Tok>, size_expr: &Tok, size: &usize, size_err: &String, check_align: &Tok, checks: &Vec<Tok>) -> (r: Tok)
    ensures asserts_size(r) == (if is_size_of(*size_expr) { Some(*size as int) } else { None }), asserts_align(r) == asserts_align(*check_align), field_checks_in(r) == checks@ { unimplemented!() }
// ---- TemplateInstantiation::codegen
#[derive(Clone, Copy, PartialEq, Eq, Structural)]
pub struct ItemId(pub usize);
#[verifier::external_body] pub struct Type { _p: core::marker::PhantomData<()> }
impl Type {
    pub uninterp spec fn s_layout(&self, ctx: &BindgenContext) -> Option<Layout>;
    #[verifier::external_body] pub fn layout(&self, ctx: &BindgenContext) -> (r: Option<Layout>) ensures r == self.s_layout(ctx) { unimplemented!() }
}
#[verifier::external_body] pub struct ItemKind { _p: core::marker::PhantomData<()> }
impl ItemKind {
    pub uninterp spec fn s_type(&self) -> Type;
    #[verifier::external_body] pub fn expect_type(&self) -> (r: &Type) ensures *r == self.s_type() { unimplemented!() }
}
#[verifier::external_body] pub struct Item { _p: core::marker::PhantomData<()> }
impl Item {
    pub uninterp spec fn s_id(&self) -> ItemId;
    pub uninterp spec fn s_kind(&self) -> ItemKind;
    pub uninterp spec fn s_enabled(&self, ctx: &BindgenContext) -> bool;
    #[verifier::external_body] pub fn id(&self) -> (r: ItemId) ensures r == self.s_id() { unimplemented!() }
    #[verifier::external_body] pub fn kind(&self) -> (r: &ItemKind) ensures *r == self.s_kind() { unimplemented!() }
    #[verifier::external_body] pub fn is_enabled_for_codegen(&self, ctx: &BindgenContext) -> (r: bool) ensures r == self.s_enabled(ctx) { unimplemented!() }
    #[verifier::external_body] pub fn full_disambiguated_name(&self, ctx: &BindgenContext) -> (r: String) { unimplemented!() }
    #[verifier::external_body] pub fn to_rust_ty_or_opaque(&self, ctx: &BindgenContext, _e: &()) -> (r: Tok) { unimplemented!() }
}
impl BindgenContext {
    pub uninterp spec fn s_uses_tparams(&self, id: ItemId) -> bool;
    #[verifier::external_body] pub fn uses_any_template_parameters(&self, id: ItemId) -> (r: bool) ensures r == self.s_uses_tparams(id) { unimplemented!() }
}
#[verifier::external_body] pub struct TemplateInstantiation { _p: core::marker::PhantomData<()> }
impl TemplateInstantiation {
    pub uninterp spec fn s_opaque(&self, ctx: &BindgenContext, it: &Item) -> bool;
    #[verifier::external_body] pub fn is_opaque(&self, ctx: &BindgenContext, it: &Item) -> (r: bool) ensures r == self.s_opaque(ctx, it) { unimplemented!() }
}
// test-function name with overload counter (format!/write! on the counter; name text irrelevant)
#[verifier::external_body] pub fn instantiation_test_name(ctx: &BindgenContext, result: &mut CodegenResult, name: &String) -> (r: Tok)
    ensures final(result).items@ == old(result).items@ { unimplemented!() }
#[verifier::external_body] pub fn msg_s(a: &String) -> (r: String) { unimplemented!() }
// two `expr == number` assertions in one item: which number is asserted for size (want_size) / alignment
pub open spec fn two_asserts(want_size: bool, e1: Tok, n1: usize, e2: Tok, n2: usize) -> Option<int> {
    let m1 = if want_size { is_size_of(e1) } else { is_align_of(e1) };
    let m2 = if want_size { is_size_of(e2) } else { is_align_of(e2) };
    if m1 && !m2 { Some(n1 as int) } else if m2 && !m1 { Some(n2 as int) } else if m1 && m2 && n1 == n2 { Some(n1 as int) } else { None }
}
// const _: () = { [#size_of_err][#size_of_expr - #size]; [#align_of_err][#align_of_expr - #align]; };
#[verifier::external_body] pub fn q_const_size_align(err1: &String, e1: &Tok, n1: &usize, err2: &String, e2: &Tok, n2: &usize) -> (r: Tok)
    ensures asserts_size(r) == two_asserts(true, *e1, *n1, *e2, *n2), asserts_align(r) == two_asserts(false, *e1, *n1, *e2, *n2) { unimplemented!() }
// #[test] fn #fn_name() { assert_eq!(#size_of_expr, #size, ..); assert_eq!(#align_of_expr, #align, ..); }
#[verifier::external_body] pub fn q_test_size_align(fn_name: &Option<Tok>, e1: &Tok, n1: &usize, err1: &String, e2: &Tok, n2: &usize, err2: &String) -> (r: Tok)
    ensures asserts_size(r) == two_asserts(true, *e1, *n1, *e2, *n2), asserts_align(r) == two_asserts(false, *e1, *n1, *e2, *n2) { unimplemented!() }

pub struct CodegenResult { pub items: Vec<Tok> }
impl CodegenResult {
    #[verifier::external_body] pub fn push(&mut self, t: Tok) ensures final(self).items@ == old(self).items@.push(t) { unimplemented!() }
}

} // verus!
