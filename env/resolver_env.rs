// Stub environment for unit `resolver` (C12): ItemResolver::resolve, the loop that follows
// type references / aliases and must not run forever on a cyclic IR (#2085).  The IR is a
// finite table of items: `ctx.s_universe()` is the (finite) set of valid ids; every id stored
// in an item is valid (IR invariant, precondition).
verus! {

global size_of usize == 8;

#[derive(Clone, Copy, PartialEq, Eq, Structural)]
pub struct ItemId(pub usize);
#[derive(Clone, Copy, PartialEq, Eq, Structural)]
pub struct TypeId(pub ItemId);
impl TypeId { pub fn item(self) -> (r: ItemId) ensures r == self.0 { self.0 } }

#[verifier::external_body] pub struct Enum { _p: core::marker::PhantomData<()> }
#[verifier::external_body] pub struct ObjCInterface { _p: core::marker::PhantomData<()> }
#[verifier::external_body] pub struct Cursor { _p: core::marker::PhantomData<()> }
#[verifier::external_body] pub struct FunctionSig { _p: core::marker::PhantomData<()> }
#[verifier::external_body] pub struct CompInfo { _p: core::marker::PhantomData<()> }
#[verifier::external_body] pub struct TemplateInstantiation { _p: core::marker::PhantomData<()> }
pub mod clang { #[verifier::external_body] pub struct Type { _p: core::marker::PhantomData<()> } }
pub enum IntKind { Int, Other }
pub enum FloatKind { Float16, Float, Double, LongDouble, Float128 }

#[verifier::external_body] pub struct Type { _p: core::marker::PhantomData<()> }
impl Type {
    pub uninterp spec fn s_kind(&self) -> TypeKind;
    #[verifier::external_body] pub fn kind(&self) -> (r: &TypeKind) ensures *r == self.s_kind() { unimplemented!() }
}
#[verifier::external_body] pub struct Item { _p: core::marker::PhantomData<()> }
impl Item {
    pub uninterp spec fn s_as_type(&self) -> Option<Type>;
    #[verifier::external_body] pub fn as_type(&self) -> (r: Option<&Type>)
        ensures r.is_some() == self.s_as_type().is_some(), r.is_some() ==> *r.unwrap() == self.s_as_type().unwrap() { unimplemented!() }
}
#[verifier::external_body] pub struct BindgenContext { _p: core::marker::PhantomData<()> }
impl BindgenContext {
    pub uninterp spec fn s_collected_typerefs(&self) -> bool;
    pub uninterp spec fn s_universe(&self) -> Set<ItemId>;
    pub uninterp spec fn s_item(&self, id: ItemId) -> Item;
    #[verifier::external_body] pub fn collected_typerefs(&self) -> (r: bool) ensures r == self.s_collected_typerefs() { unimplemented!() }
    // indexes the item table: panics on an id that is not in it
    #[verifier::external_body] pub fn resolve_item(&self, id: ItemId) -> (r: &Item)
        requires self.s_universe().contains(id),
        ensures *r == self.s_item(id) { unimplemented!() }
}
#[verifier::external_body]
#[verifier::reject_recursive_types(K)]
pub struct HashSet<K> { _p: core::marker::PhantomData<K> }
impl HashSet<ItemId> {
    pub uninterp spec fn view(&self) -> Set<ItemId>;
    #[verifier::external_body] pub fn default() -> (r: Self) ensures r.view() == Set::<ItemId>::empty() { unimplemented!() }
    #[verifier::external_body] pub fn insert(&mut self, k: ItemId) -> (r: bool)
        ensures final(self).view() == old(self).view().insert(k), r == !old(self).view().contains(k) { unimplemented!() }
}
pub fn runtime_assert(b: bool) requires b {}

} // verus!
