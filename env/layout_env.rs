// Stub environment for the `layout` unit (trusted; everything here is either
// an uninterpreted read of the IR/context -- the proof then holds for every
// value it could return -- or a transcription of the Rust reference's layout
// rules for the type tokens bindgen emits).
verus! {

// host = target = 64-bit (stated assumption of every check)
global size_of usize == 8;

// ---------------------------------------------------------------- context
pub struct BindgenOptions {
    pub force_explicit_padding: bool,
    pub enable_cxx_namespaces: bool,
}

#[verifier::external_body]
pub struct BindgenContext { _p: core::marker::PhantomData<()> }

impl BindgenContext {
    pub uninterp spec fn spec_options(&self) -> BindgenOptions;
    pub uninterp spec fn spec_ptr_size(&self) -> usize;

    #[verifier::external_body]
    pub fn options(&self) -> (r: &BindgenOptions)
        ensures *r == self.spec_options(),
    { unimplemented!() }

    // bindgen/ir/context.rs: target_info.pointer_width / 8; every supported
    // target has 16-, 32- or 64-bit pointers (assumption, stated)
    #[verifier::external_body]
    pub fn target_pointer_size(&self) -> (r: usize)
        ensures r == self.spec_ptr_size(), r == 2 || r == 4 || r == 8,
    { unimplemented!() }

    // records that `__BindgenOpaqueArray{align}` must be defined in the output
    #[verifier::external_body]
    pub fn generated_opaque_array(&self, align: usize)
    { unimplemented!() }
}

#[verifier::external_body]
pub struct CompInfo { _p: core::marker::PhantomData<()> }
impl CompInfo {
    pub uninterp spec fn spec_is_union(&self) -> bool;
    #[verifier::external_body]
    pub fn is_union(&self) -> (r: bool)
        ensures r == self.spec_is_union(),
    { unimplemented!() }
}

#[verifier::external_body]
pub struct Type { _p: core::marker::PhantomData<()> }
impl Type {
    pub uninterp spec fn spec_layout(&self, ctx: &BindgenContext) -> Option<Layout>;
    // libclang's numbers: size/align of a complete object type
    #[verifier::external_body]
    pub fn layout(&self, ctx: &BindgenContext) -> (r: Option<Layout>)
        ensures r == self.spec_layout(ctx),
    { unimplemented!() }
    // the type behind typedefs / template aliases / resolved references (itself when it is none of those)
    pub uninterp spec fn spec_canonical(&self, ctx: &BindgenContext) -> Type;
    pub uninterp spec fn spec_is_canonical(&self, ctx: &BindgenContext) -> bool;
    // Some((element, length)) for array types
    pub uninterp spec fn spec_array(&self) -> Option<(TypeId, usize)>;
    #[verifier::external_body]
    pub fn canonical_type(&self, ctx: &BindgenContext) -> (r: &Type)
        ensures *r == self.spec_canonical(ctx), self.spec_is_canonical(ctx) ==> *r == *self,
    { unimplemented!() }
    #[verifier::external_body]
    pub fn kind(&self) -> (r: &TypeKind)
        ensures match self.spec_array() { Some((t, n)) => *r == TypeKind::Array(t, n), None => *r == TypeKind::Other },
    { unimplemented!() }
}
// std::ptr::eq on two type references: the same IR type
#[verifier::external_body]
pub fn type_ptr_eq(ctx: &BindgenContext, a: &Type, of: &Type) -> (r: bool)
    ensures r == (of.spec_is_canonical(ctx)), r ==> *a == *of,
{ unimplemented!() }
#[derive(Clone, Copy, PartialEq, Eq)]
pub struct TypeId(pub usize);
// the kinds saw_field distinguishes
#[derive(Clone, Copy, PartialEq, Eq)]
pub enum TypeKind { Array(TypeId, usize), Other }
impl BindgenContext {
    pub uninterp spec fn spec_type(&self, id: TypeId) -> Type;
    #[verifier::external_body]
    pub fn resolve_type(&self, id: TypeId) -> (r: &Type)
        ensures *r == self.spec_type(id),
    { unimplemented!() }
}

#[derive(Clone, Copy)]
pub enum FieldVisibilityKind { Private, PublicCrate, Public }

// ---------------------------------------------------------------- cmp (R6)
pub mod cmp {
    use super::*;
    pub fn max(a: usize, b: usize) -> (r: usize)
        ensures r == if a >= b { a } else { b },
    { if a >= b { a } else { b } }
    pub fn min(a: usize, b: usize) -> (r: usize)
        ensures r == if a <= b { a } else { b },
    { if a <= b { a } else { b } }
}

// ---------------------------------------------------------------- tokens (R4)
// Opaque token values.  ty_size/ty_align give the Rust layout of the *type*
// a token denotes on x86_64 (Rust reference: "Type layout"): primitives have
// size == align == their width; [T; n] has size n*size(T), align(T);
// #[repr(C)] struct W<T>(T) has the layout of T; #[repr(C, align(N))] struct
// W<T>(T) has align max(N, align T) and size rounded up to it.
#[verifier::external_body]
pub struct Tok { _p: core::marker::PhantomData<()> }

pub uninterp spec fn ty_size(t: Tok) -> int;
pub uninterp spec fn ty_align(t: Tok) -> int;
pub uninterp spec fn ident_align(t: Tok) -> int;   // N of the ident __BindgenOpaqueArrayN
pub uninterp spec fn field_ty(t: Tok) -> Tok;       // type of a `vis name : ty ,` field token

pub open spec fn align_up(x: int, a: int) -> int
    recommends a > 0,
{
    if x % a == 0 { x } else { x + a - x % a }
}

#[verifier::external_body]
pub fn ty_prim(bytes: usize) -> (r: Tok)
    requires bytes == 1 || bytes == 2 || bytes == 4 || bytes == 8 || bytes == 16,
    ensures ty_size(r) == bytes, ty_align(r) == bytes,
{ unimplemented!() }

// `[#ty; #len]`
#[verifier::external_body]
pub fn ty_array(ty: &Tok, len: usize) -> (r: Tok)
    ensures ty_size(r) == ty_size(*ty) * len, ty_align(r) == ty_align(*ty),
{ unimplemented!() }

// `[root::]__BindgenOpaqueArray<[#ty; #len]>`  (#[repr(C)] pub struct __BindgenOpaqueArray<T>(pub T);)
#[verifier::external_body]
pub fn ty_opaque_array(root: bool, ty: &Tok, len: usize) -> (r: Tok)
    ensures ty_size(r) == ty_size(*ty) * len, ty_align(r) == ty_align(*ty),
{ unimplemented!() }

// format_ident!("__BindgenOpaqueArray{align}")
#[verifier::external_body]
pub fn ident_opaque_array_n(align: usize) -> (r: Tok)
    ensures ident_align(r) == align,
{ unimplemented!() }

// `[root::]#ident<[u8; #size]>`  (#[repr(C, align(N))] pub struct __BindgenOpaqueArrayN<T>(pub T);)
#[verifier::external_body]
pub fn ty_opaque_array_n(root: bool, ident: &Tok, size: usize) -> (r: Tok)
    requires ident_align(*ident) > 0,
    ensures ty_align(r) == ident_align(*ident), ty_size(r) == align_up(size as int, ident_align(*ident)),
{ unimplemented!() }

// Ident::new(BITFIELD_UNIT, Span::call_site())
#[verifier::external_body]
pub fn ident_bitfield_unit() -> (r: Tok)
{ unimplemented!() }

// `#bitfield_unit_name<[u8; #size]>`  (#[repr(C)] struct __BindgenBitfieldUnit<Storage> { storage: Storage })
#[verifier::external_body]
pub fn ty_unit_of(name: &Tok, size: usize) -> (r: Tok)
    ensures ty_size(r) == size, ty_align(r) == 1,
{ unimplemented!() }

// `root::#ty`
#[verifier::external_body]
pub fn ty_rooted(ty: &Tok) -> (r: Tok)
    ensures ty_size(r) == ty_size(*ty), ty_align(r) == ty_align(*ty),
{ unimplemented!() }

// quote!{ #vis #padding_field_name : #ty , }
#[verifier::external_body]
pub fn field_tok(vis: &Tok, name: &Tok, ty: &Tok) -> (r: Tok)
    ensures field_ty(r) == *ty,
{ unimplemented!() }

#[verifier::external_body]
pub fn padding_ident(padding_count: usize) -> (r: Tok)
{ unimplemented!() }

#[verifier::external_body]
pub fn access_specifier(v: FieldVisibilityKind) -> (r: Tok)
{ unimplemented!() }

// ---------------------------------------------------------------- arithmetic lemmas
pub open spec fn is_pow2(n: int) -> bool
    decreases n,
{
    if n <= 0 { false } else if n == 1 { true } else { n % 2 == 0 && is_pow2(n / 2) }
}

pub proof fn lemma_pow2_step(n: int)
    requires n >= 2, n % 2 == 0, is_pow2(n / 2),
    ensures is_pow2(n),
{
    reveal_with_fuel(is_pow2, 2);
}

pub proof fn lemma_align_up(size: int, align: int)
    requires align > 0, size >= 0,
    ensures
        align_up(size, align) % align == 0,
        align_up(size, align) >= size,
        align_up(size, align) - size < align,
{
    vstd::arithmetic::div_mod::lemma_fundamental_div_mod(size, align);
    let q = size / align;
    if size % align != 0 {
        assert(size + align - size % align == (q + 1) * align) by (nonlinear_arith)
            requires size == align * q + size % align;
        vstd::arithmetic::div_mod::lemma_mod_multiples_basic(q + 1, align);
    }
}

// ---- field templates of CompInfo::codegen's tail (statements extracted by R18)
// quote! { pub _bindgen_opaque_blob: #ty , }   /   quote! { pub bindgen_union_field: #ty, }
#[verifier::external_body] pub fn q_blob_field(ty: &Tok) -> (r: Tok) ensures field_ty(r) == *ty { unimplemented!() }
#[verifier::external_body] pub fn q_union_field(ty: &Tok) -> (r: Tok) ensures field_ty(r) == *ty { unimplemented!() }
// quote! { u64 } .. quote! { u8 }: a primitive of the given width (size == alignment on the targets bindgen supports)
#[verifier::external_body] pub fn q_uint(bytes: usize) -> (r: Tok) ensures ty_size(r) == bytes, ty_align(r) == bytes { unimplemented!() }
// quote! { pub _bindgen_align: [#align_ty; 0], }: a zero-length array field, aligned like its element
pub uninterp spec fn zero_len_array_of(t: Tok) -> Option<Tok>;
#[verifier::external_body] pub fn q_align_field(elem: &Tok) -> (r: Tok) ensures zero_len_array_of(r) == Some(*elem) { unimplemented!() }
// #[repr(align(#explicit))]
pub uninterp spec fn repr_align_of(t: Tok) -> Option<int>;
#[verifier::external_body] pub fn q_repr_align(n: usize) -> (r: Tok) ensures repr_align_of(r) == Some(n as int) { unimplemented!() }

} // verus!
