// Stub environment for unit `builtin_ty` (C02, C12): the statement of
// BindgenContext::build_builtin_ty that maps libclang's builtin type kinds to bindgen's
// TypeKind.  CXType_* are clang-sys' constants (values from clang-c/Index.h).
verus! {

global size_of usize == 8;

pub type CXTypeKind = u32;
pub const CXType_Void: CXTypeKind = 2;
pub const CXType_Bool: CXTypeKind = 3;
pub const CXType_Char_U: CXTypeKind = 4;
pub const CXType_UChar: CXTypeKind = 5;
pub const CXType_Char16: CXTypeKind = 6;
pub const CXType_Char32: CXTypeKind = 7;
pub const CXType_UShort: CXTypeKind = 8;
pub const CXType_UInt: CXTypeKind = 9;
pub const CXType_ULong: CXTypeKind = 10;
pub const CXType_ULongLong: CXTypeKind = 11;
pub const CXType_UInt128: CXTypeKind = 12;
pub const CXType_Char_S: CXTypeKind = 13;
pub const CXType_SChar: CXTypeKind = 14;
pub const CXType_WChar: CXTypeKind = 15;
pub const CXType_Short: CXTypeKind = 16;
pub const CXType_Int: CXTypeKind = 17;
pub const CXType_Long: CXTypeKind = 18;
pub const CXType_LongLong: CXTypeKind = 19;
pub const CXType_Int128: CXTypeKind = 20;
pub const CXType_Float: CXTypeKind = 21;
pub const CXType_Double: CXTypeKind = 22;
pub const CXType_LongDouble: CXTypeKind = 23;
pub const CXType_NullPtr: CXTypeKind = 24;
pub const CXType_Float128: CXTypeKind = 30;
pub const CXType_Half: CXTypeKind = 31;
pub const CXType_Float16: CXTypeKind = 32;
pub const CXType_Complex: CXTypeKind = 100;

pub mod clang {
    use super::*;
    #[derive(Clone, Copy)] pub struct Type { pub h: usize }
    pub uninterp spec fn ffi_kind(t: Type) -> CXTypeKind;
    pub uninterp spec fn ffi_elem(t: Type) -> Option<Type>;
    impl Type {
        #[verifier::external_body] pub fn kind(&self) -> (r: CXTypeKind) ensures r == ffi_kind(*self) { unimplemented!() }
        #[verifier::external_body] pub fn elem_type(&self) -> (r: Option<Type>) ensures r == ffi_elem(*self) { unimplemented!() }
    }
}
pub struct BindgenOptions { pub use_distinct_char16_t: bool }
#[verifier::external_body] pub struct BindgenContext { _p: core::marker::PhantomData<()> }
impl BindgenContext {
    pub uninterp spec fn spec_options(&self) -> BindgenOptions;
    #[verifier::external_body] pub fn options(&self) -> (r: &BindgenOptions) ensures *r == self.spec_options() { unimplemented!() }
}
// payloads of TypeKind that this statement never builds
#[derive(Clone, Copy, PartialEq, Eq, Structural)] pub struct TypeId(pub usize);
#[derive(Clone, Copy, PartialEq, Eq, Structural)] pub struct ItemId(pub usize);
#[verifier::external_body] pub struct Enum { _p: core::marker::PhantomData<()> }
#[verifier::external_body] pub struct ObjCInterface { _p: core::marker::PhantomData<()> }
#[verifier::external_body] pub struct Cursor { _p: core::marker::PhantomData<()> }
#[verifier::external_body] pub struct FunctionSig { _p: core::marker::PhantomData<()> }
#[verifier::external_body] pub struct CompInfo { _p: core::marker::PhantomData<()> }
#[verifier::external_body] pub struct TemplateInstantiation { _p: core::marker::PhantomData<()> }

} // verus!
