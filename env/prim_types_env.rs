// Stub environment for unit `prim_types` (C02: primitive type mapping).
// Type tokens are opaque; the env records what each emitted token denotes
// (Rust reference: numeric types; std::os::raw / core::ffi docs: "c_short is
// equivalent to C's short", ...).  raw_type (prefix/std/core selection by
// options) is trusted to return the alias of that NAME.
verus! {

global size_of usize == 8;

pub struct BindgenOptions { pub convert_floats: bool, pub enable_cxx_namespaces: bool, pub size_t_is_usize: bool }

#[verifier::external_body]
pub struct BindgenContext { _p: core::marker::PhantomData<()> }
impl BindgenContext {
    pub uninterp spec fn spec_options(&self) -> BindgenOptions;
    #[verifier::external_body] pub fn options(&self) -> (r: &BindgenOptions) ensures *r == self.spec_options() { unimplemented!() }
    #[verifier::external_body] pub fn generated_bindgen_float16(&self) { unimplemented!() }
}

#[verifier::external_body]
pub struct Tok { _p: core::marker::PhantomData<()> }
pub uninterp spec fn ty_size(t: Tok) -> int;
pub uninterp spec fn ty_align(t: Tok) -> int;
pub uninterp spec fn ty_signed(t: Tok) -> Option<bool>;   // Some(s) for integer types
pub uninterp spec fn ty_is_bool(t: Tok) -> bool;
pub uninterp spec fn ty_is_float(t: Tok) -> bool;
pub uninterp spec fn ty_cname(t: Tok) -> Option<Seq<char>>; // Some(n): the std::os::raw / core::ffi alias named n
pub uninterp spec fn ty_path(t: Tok) -> Option<Seq<char>>;  // Some(p): a user/bindgen-defined path

#[verifier::external_body] pub fn ty_int(signed: bool, bytes: usize) -> (r: Tok)
    requires bytes == 1 || bytes == 2 || bytes == 4 || bytes == 8 || bytes == 16,
    ensures ty_size(r) == bytes, ty_align(r) == bytes, ty_signed(r) == Some(signed), !ty_is_bool(r), !ty_is_float(r), ty_cname(r).is_none(), ty_path(r).is_none(),
{ unimplemented!() }
#[verifier::external_body] pub fn ty_bool() -> (r: Tok)
    ensures ty_size(r) == 1, ty_is_bool(r), ty_cname(r).is_none(), ty_path(r).is_none(),
{ unimplemented!() }
#[verifier::external_body] pub fn ty_float(bytes: usize) -> (r: Tok)
    requires bytes == 4 || bytes == 8,
    ensures ty_size(r) == bytes, ty_align(r) == bytes, ty_is_float(r), ty_signed(r).is_none(), ty_cname(r).is_none(), ty_path(r).is_none(),
{ unimplemented!() }
#[verifier::external_body] pub fn ty_u64x2() -> (r: Tok)
    ensures ty_size(r) == 16, ty_align(r) == 8, ty_cname(r).is_none(), ty_path(r).is_none(),
{ unimplemented!() }
// `#prefix::#ident` / `::core::ffi::#ident` / `::std::os::raw::#ident`
#[verifier::external_body] pub fn raw_type(ctx: &BindgenContext, name: &str) -> (r: Tok)
    ensures ty_cname(r) == Some(name@), ty_path(r).is_none(),
{ unimplemented!() }
#[verifier::external_body] pub fn ty_named(path: &str) -> (r: Tok)
    ensures ty_path(r) == Some(path@), ty_cname(r).is_none(),
{ unimplemented!() }
// syn::parse_str(name).expect("Invalid integer type.")
#[verifier::external_body] pub fn ty_custom(name: &str) -> (r: Tok)
    ensures ty_path(r) == Some(name@), ty_cname(r).is_none(),
{ unimplemented!() }

// utils::primitive_ty: the Rust primitive type spelled `name` (ctx.rust_ident_raw(name))
pub uninterp spec fn ty_prim_name(t: Tok) -> Seq<char>;
#[verifier::external_body] pub fn primitive_ty(ctx: &BindgenContext, name: &str) -> (r: Tok) ensures ty_prim_name(r) == name@ { unimplemented!() }

// debug_assert!(false, ..): a debug-build panic, so an obligation
pub fn debug_assert_stub(b: bool) requires b {}

// ---- the Complex arm of <Type as TryToRustTy>::try_to_rust_ty
#[verifier::external_body] pub struct Type { _p: core::marker::PhantomData<()> }
impl Type {
    pub uninterp spec fn s_layout(&self, ctx: &BindgenContext) -> Option<Layout>;
    #[verifier::external_body] pub fn layout(&self, ctx: &BindgenContext) -> (r: Option<Layout>) ensures r == self.s_layout(ctx) { unimplemented!() }
}
impl BindgenContext { #[verifier::external_body] pub fn generated_bindgen_complex(&self) { unimplemented!() } }
#[verifier::external_body] pub struct CgError { _p: core::marker::PhantomData<()> }
// `__BindgenComplex<T>` / `root::__BindgenComplex<T>`: #[repr(C)] struct { re: T, im: T } (Rust reference, repr(C) structs)
#[verifier::external_body] pub fn ty_complex_of(rooted: bool, t: &Tok) -> (r: Tok) ensures ty_size(r) == 2 * ty_size(*t), ty_align(r) == ty_align(*t) { unimplemented!() }

} // verus!
