// Stub environment for unit `opaque_alias` (C10): the statement of <Type as CodeGenerator>::codegen that chooses what an
// alias (typedef) is an alias FOR.  `syn::Type` values are tokens (Tok); ToOpaque::to_opaque (blanket impl over
// TryToOpaque: `helpers::blob(ctx, <layout of the thing or 1 byte>, true)`) is a callee seen through its contract:
// the blob of the layout of the very thing it is called on.
verus! {

global size_of usize == 8;

#[derive(Clone, Copy, PartialEq, Eq, Structural)]
pub struct ItemId(pub usize);
#[derive(Clone, Copy, PartialEq, Eq, Structural)]
pub struct TypeId(pub ItemId);
#[derive(Clone, Copy)]
pub struct Layout { pub size: usize, pub align: usize, pub packed: bool }
#[verifier::external_body] pub struct Tok { _p: core::marker::PhantomData<()> }
#[verifier::external_body] pub struct BindgenContext { _p: core::marker::PhantomData<()> }
#[derive(Debug)]
pub enum Error { NoLayoutForOpaqueBlob, InstantiationOfOpaqueType, UnsupportedAbi }

// helpers::blob(ctx, layout, true): under contract in unit `layout` (exact size and alignment)
pub uninterp spec fn blob_ty(ctx: &BindgenContext, l: Layout) -> Tok;
// Tok::with_implicit_template_params(ctx, item)
pub uninterp spec fn with_params(t: Tok, ctx: &BindgenContext, item: &Item) -> Tok;
impl Tok {
    #[verifier::external_body] pub fn with_implicit_template_params(self, ctx: &BindgenContext, item: &Item) -> (r: Tok) ensures r == with_params(self, ctx, item) { unimplemented!() }
}

#[verifier::external_body] pub struct Type { _p: core::marker::PhantomData<()> }
impl Type {
    // the layout ToOpaque::get_layout finds for THIS type: Type::layout(ctx), or one byte
    pub uninterp spec fn s_opaque_layout(&self, ctx: &BindgenContext) -> Layout;
    #[verifier::external_body] pub fn to_opaque(&self, ctx: &BindgenContext, _item: &Item) -> (r: Tok) ensures r == blob_ty(ctx, self.s_opaque_layout(ctx)) { unimplemented!() }
}
#[verifier::external_body] pub struct Item { _p: core::marker::PhantomData<()> }
impl Item {
    pub uninterp spec fn s_type(&self) -> Type;
    pub uninterp spec fn s_rust_ty(&self, ctx: &BindgenContext) -> Result<Tok, Error>;
    pub uninterp spec fn s_used_params(&self, ctx: &BindgenContext) -> Seq<TypeId>;
    pub uninterp spec fn s_opaque(&self, ctx: &BindgenContext) -> bool;
    // <Item as TryToOpaque>::try_get_layout goes to the item's own type
    #[verifier::external_body] pub fn to_opaque(&self, ctx: &BindgenContext, _e: &()) -> (r: Tok) ensures r == blob_ty(ctx, self.s_type().s_opaque_layout(ctx)) { unimplemented!() }
    #[verifier::external_body] pub fn try_to_rust_ty_or_opaque(&self, ctx: &BindgenContext, _e: &()) -> (r: Result<Tok, Error>) ensures r == self.s_rust_ty(ctx) { unimplemented!() }
    #[verifier::external_body] pub fn try_to_rust_ty(&self, ctx: &BindgenContext, _e: &()) -> (r: Result<Tok, Error>) { unimplemented!() }
    #[verifier::external_body] pub fn to_rust_ty_or_opaque(&self, ctx: &BindgenContext, _e: &()) -> (r: Tok) { unimplemented!() }
    #[verifier::external_body] pub fn expect_type(&self) -> (r: &Type) ensures *r == self.s_type() { unimplemented!() }
    #[verifier::external_body] pub fn used_template_params(&self, ctx: &BindgenContext) -> (r: Vec<TypeId>) ensures r@ == self.s_used_params(ctx) { unimplemented!() }
    #[verifier::external_body] pub fn is_opaque(&self, ctx: &BindgenContext, _e: &()) -> (r: bool) ensures r == self.s_opaque(ctx) { unimplemented!() }
}

} // verus!
