// Stub environment for unit `typedef_methods` (C04, C12): member functions declared through a typedef of a function type
// (`typedef void fn_t(int); struct S { virtual fn_t foo; };`): the signature item of such a function is the ALIAS, its
// canonical type a function type WITHOUT `this`.  MethodKind / FunctionKind are the real enums (extracted).
verus! {

global size_of usize == 8;

#[derive(Clone, Copy, PartialEq, Eq, Structural)]
pub struct ItemId(pub usize);
#[derive(Clone, Copy, PartialEq, Eq, Structural)]
pub struct TypeId(pub ItemId);
#[derive(Clone, Copy, PartialEq, Eq, Structural)]
pub struct FunctionId(pub ItemId);
pub trait IntoItemId { spec fn iid(&self) -> ItemId; }
impl IntoItemId for ItemId { open spec fn iid(&self) -> ItemId { *self } }
impl IntoItemId for TypeId { open spec fn iid(&self) -> ItemId { self.0 } }
impl IntoItemId for FunctionId { open spec fn iid(&self) -> ItemId { self.0 } }

#[verifier::external_body] pub struct FunctionSig { _p: core::marker::PhantomData<()> }
pub enum TypeKind { Function(FunctionSig), Alias(TypeId), Other }
#[verifier::external_body] pub struct Type { _p: core::marker::PhantomData<()> }
impl Type {
    pub uninterp spec fn s_kind(&self) -> TypeKind;
    pub uninterp spec fn s_canonical(&self, ctx: &BindgenContext) -> Type;
    #[verifier::external_body] pub fn kind(&self) -> (r: &TypeKind) ensures *r == self.s_kind() { unimplemented!() }
    #[verifier::external_body] pub fn is_function(&self) -> (r: bool) ensures r == (self.s_kind() is Function) { unimplemented!() }
    #[verifier::external_body] pub fn canonical_type<'a>(&'a self, ctx: &'a BindgenContext) -> (r: &'a Type) ensures *r == self.s_canonical(ctx) { unimplemented!() }
}
#[verifier::external_body] pub struct ItemKind { _p: core::marker::PhantomData<()> }
impl ItemKind {
    pub uninterp spec fn s_type(&self) -> Type;
    pub uninterp spec fn s_function(&self) -> Function;
    // expect_type() / expect_function(): the signature of a function is a type item, a method's `signature` a function item
    #[verifier::external_body] pub fn expect_type(&self) -> (r: &Type) ensures *r == self.s_type() { unimplemented!() }
    #[verifier::external_body] pub fn expect_function(&self) -> (r: &Function) ensures *r == self.s_function() { unimplemented!() }
}
#[verifier::external_body] pub struct Item { _p: core::marker::PhantomData<()> }
impl Item {
    pub uninterp spec fn s_kind(&self) -> ItemKind;
    #[verifier::external_body] pub fn kind(&self) -> (r: &ItemKind) ensures *r == self.s_kind() { unimplemented!() }
    #[verifier::external_body] pub fn expect_type(&self) -> (r: &Type) ensures *r == self.s_kind().s_type() { unimplemented!() }
    #[verifier::external_body] pub fn expect_function(&self) -> (r: &Function) ensures *r == self.s_kind().s_function() { unimplemented!() }
}
#[verifier::external_body] pub struct Function { _p: core::marker::PhantomData<()> }
impl Function {
    pub uninterp spec fn s_kind(&self) -> FunctionKind;
    pub uninterp spec fn s_signature(&self) -> TypeId;
    #[verifier::external_body] pub fn kind(&self) -> (r: FunctionKind) ensures r == self.s_kind() { unimplemented!() }
    #[verifier::external_body] pub fn signature(&self) -> (r: TypeId) ensures r == self.s_signature() { unimplemented!() }
    #[verifier::external_body] pub fn name(&self) -> (r: &str) { unimplemented!() }
}
#[verifier::external_body] pub struct Method { _p: core::marker::PhantomData<()> }
impl Method {
    pub uninterp spec fn s_virtual(&self) -> bool;
    pub uninterp spec fn s_signature(&self) -> FunctionId;
    #[verifier::external_body] pub fn is_virtual(&self) -> (r: bool) ensures r == self.s_virtual() { unimplemented!() }
    #[verifier::external_body] pub fn signature(&self) -> (r: FunctionId) ensures r == self.s_signature() { unimplemented!() }
}
#[verifier::external_body] pub struct BindgenContext { _p: core::marker::PhantomData<()> }
impl BindgenContext {
    pub uninterp spec fn s_item(&self, id: ItemId) -> Item;
    #[verifier::external_body] pub fn resolve_item<I: IntoItemId>(&self, id: I) -> (r: &Item) ensures *r == self.s_item(id.iid()) { unimplemented!() }
}
// the type item a function's `signature` names / the kind of the type item behind a method's function
pub open spec fn sig_type(f: &Function, ctx: &BindgenContext) -> Type { ctx.s_item(f.s_signature().0).s_kind().s_type() }
pub open spec fn method_sig_type(m: &Method, ctx: &BindgenContext) -> Type { sig_type(&ctx.s_item(m.s_signature().0).s_kind().s_function(), ctx) }

// ---- the block-pointer arm of <Type as CodeGenerator>::codegen (--generate-block)
#[verifier::external_body] pub struct Tok { _p: core::marker::PhantomData<()> }
pub struct ItemResolver { pub id: ItemId, pub refs: bool, pub aliases: bool }
impl TypeId { pub fn into_resolver(self) -> (r: ItemResolver) ensures r == (ItemResolver { id: self.0, refs: false, aliases: false }) { ItemResolver { id: self.0, refs: false, aliases: false } } }
// where resolution ends is an uninterpreted function of the IR and of WHAT is looked through
pub uninterp spec fn s_resolved(ctx: &BindgenContext, id: ItemId, refs: bool, aliases: bool) -> ItemId;
impl ItemResolver {
    pub fn through_type_refs(self) -> (r: ItemResolver) ensures r == (ItemResolver { refs: true, ..self }) { ItemResolver { id: self.id, refs: true, aliases: self.aliases } }
    pub fn through_type_aliases(self) -> (r: ItemResolver) ensures r == (ItemResolver { aliases: true, ..self }) { ItemResolver { id: self.id, refs: self.refs, aliases: true } }
    #[verifier::external_body] pub fn resolve<'a>(self, ctx: &'a BindgenContext) -> (r: &'a Item) ensures *r == ctx.s_item(s_resolved(ctx, self.id, self.refs, self.aliases)) { unimplemented!() }
}
impl Item { #[verifier::external_body] pub fn canonical_name(&self, ctx: &BindgenContext) -> (r: String) { unimplemented!() } }
impl BindgenContext { #[verifier::external_body] pub fn resolve_type(&self, id: TypeId) -> (r: &Type) ensures *r == self.s_item(id.0).s_kind().s_type() { unimplemented!() } }
pub mod utils {
    #[verifier::external_body] pub fn fnsig_block(ctx: &super::BindgenContext, sig: &super::FunctionSig) -> (r: super::Tok) { unimplemented!() }
}

} // verus!
