// Stub environment for unit `rust_mangle` (C12): BindgenContext::rust_mangle, the guard in front of every
// proc_macro2::Ident::new (which panics on a string that is not an identifier).  `&str` / `String` are Name / NameBuf
// carrying their character sequence; str::contains(char), str::to_owned, str::replace(char, &str) (specified for a
// one-character replacement, all the function uses) and String::push have their std meaning.  The keyword list of the
// `matches!` is one uninterpreted predicate of the name (rule R32): WHICH words are reserved is not under contract.
verus! {

#[verifier::external_body] pub struct BindgenContext { _p: core::marker::PhantomData<()> }
#[verifier::external_body] pub struct Name { _p: core::marker::PhantomData<()> }
#[verifier::external_body] pub struct NameBuf { _p: core::marker::PhantomData<()> }
pub enum Cow<'a> { Borrowed(&'a Name), Owned(NameBuf) }

// std::str::pattern::Pattern, for the two pattern kinds a character test is written with
pub trait Pat { spec fn hits(&self, c: char) -> bool; }
impl Pat for char { open spec fn hits(&self, c: char) -> bool { *self == c } }
impl<const N: usize> Pat for [char; N] { open spec fn hits(&self, c: char) -> bool { self@.contains(c) } }
pub open spec fn has_hit<P: Pat>(s: Seq<char>, p: P) -> bool { exists|i: int| 0 <= i < s.len() && p.hits(#[trigger] s[i]) }

pub open spec fn replace_one(s: Seq<char>, c: char, w: char) -> Seq<char> { Seq::new(s.len(), |i: int| if s[i] == c { w } else { s[i] }) }
pub uninterp spec fn s_reserved(s: Seq<char>) -> bool;

impl Name {
    pub uninterp spec fn s_chars(&self) -> Seq<char>;
    #[verifier::external_body] pub fn contains<P: Pat>(&self, p: P) -> (r: bool) ensures r == has_hit(self.s_chars(), p) { unimplemented!() }
    #[verifier::external_body] pub fn to_owned(&self) -> (r: NameBuf) ensures r.s_chars() == self.s_chars() { unimplemented!() }
    #[verifier::external_body] pub fn to_string(&self) -> (r: NameBuf) ensures r.s_chars() == self.s_chars() { unimplemented!() }
    #[verifier::external_body] pub fn replace(&self, c: char, with: &str) -> (r: NameBuf)
        ensures with@.len() == 1 ==> r.s_chars() == replace_one(self.s_chars(), c, with@[0]) { unimplemented!() }
}
impl NameBuf {
    pub uninterp spec fn s_chars(&self) -> Seq<char>;
    #[verifier::external_body] pub fn contains<P: Pat>(&self, p: P) -> (r: bool) ensures r == has_hit(self.s_chars(), p) { unimplemented!() }
    #[verifier::external_body] pub fn replace(&self, c: char, with: &str) -> (r: NameBuf)
        ensures with@.len() == 1 ==> r.s_chars() == replace_one(self.s_chars(), c, with@[0]) { unimplemented!() }
    #[verifier::external_body] pub fn push(&mut self, c: char) ensures final(self).s_chars() == old(self).s_chars().push(c) { unimplemented!() }
    #[verifier::external_body] pub fn push_str(&mut self, w: &str) ensures final(self).s_chars() == old(self).s_chars() + w@ { unimplemented!() }
}
#[verifier::external_body] pub fn is_reserved_word(name: &Name) -> (r: bool) ensures r == s_reserved(name.s_chars()) { unimplemented!() }

pub open spec fn cow_chars(c: Cow) -> Seq<char> { match c { Cow::Borrowed(n) => n.s_chars(), Cow::Owned(b) => b.s_chars() } }
pub open spec fn is_special(c: char) -> bool { c == '@' || c == '?' || c == '$' }

} // verus!
