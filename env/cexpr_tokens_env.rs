// Stub environment for unit `cexpr_tokens` (C05): ClangToken::as_cexpr_token, the conversion of a macro's libclang tokens
// into the tokens cexpr evaluates.  Token kinds are libclang's CXTokenKind values; the spelling is an uninterpreted
// byte sequence; cexpr::token::{Kind, Token} are declared as in cexpr 0.6.
verus! {

pub type CXTokenKind = u32;
pub const CXToken_Punctuation: CXTokenKind = 0;
pub const CXToken_Keyword: CXTokenKind = 1;
pub const CXToken_Identifier: CXTokenKind = 2;
pub const CXToken_Literal: CXTokenKind = 3;
pub const CXToken_Comment: CXTokenKind = 4;

// (no PartialEq / Structural derive here: inside a nested module they make this Verus version crash; spec equality needs neither)
pub mod cexpr { pub mod token {
    #[derive(Clone, Copy)]
    pub enum Kind { Punctuation, Keyword, Literal, Comment, Identifier }
    pub struct Token { pub kind: Kind, pub raw: Box<[u8]> }
} }

#[verifier::external_body] pub struct CXString { _p: core::marker::PhantomData<()> }
pub struct ClangToken { pub spelling: CXString, pub extent: u64, pub kind: CXTokenKind }
impl ClangToken {
    pub uninterp spec fn s_spelling(&self) -> Seq<u8>;
    #[verifier::external_body] pub fn spelling(&self) -> (r: &[u8]) ensures r@ == self.s_spelling() { unimplemented!() }
}
// `bytes.to_vec().into_boxed_slice()`: an owned copy of the bytes (rule R21)
#[verifier::external_body] pub fn boxed_bytes(b: &[u8]) -> (r: Box<[u8]>) ensures r@ == b@ { unimplemented!() }

} // verus!
