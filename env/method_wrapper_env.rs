// Stub environment for unit `method_wrapper` (C04): how Method::codegen_method turns the
// C++ `this` parameter of a method into the Rust receiver.
verus! {

global size_of usize == 8;

#[derive(Clone, Copy, PartialEq, Eq, Structural)]
pub struct ItemId(pub usize);
#[derive(Clone, Copy, PartialEq, Eq, Structural)]
pub struct FunctionId(pub ItemId);

#[verifier::external_body] pub struct Tok { _p: core::marker::PhantomData<()> }
// what a token stream of the wrapper's signature denotes
pub enum Recv { SelfRef, SelfMut, NotAReceiver }
pub uninterp spec fn recv_of(t: Tok) -> Recv;
pub uninterp spec fn is_ret_self(t: Tok) -> bool;
#[verifier::external_body] pub fn q_self_ref() -> (r: Tok) ensures recv_of(r) == Recv::SelfRef { unimplemented!() }      // quote! { &self }
#[verifier::external_body] pub fn q_self_mut() -> (r: Tok) ensures recv_of(r) == Recv::SelfMut { unimplemented!() }      // quote! { &mut self }
#[verifier::external_body] pub fn q_ret_self() -> (r: Tok) ensures is_ret_self(r) { unimplemented!() }                   // quote! { -> Self }

} // verus!
