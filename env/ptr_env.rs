// Stub environment for unit `ptr_lowering` (C04): the Pointer/Reference arm of
// <Type as TryToRustTy>::try_to_rust_ty (block extracted by rule R18).
verus! {

global size_of usize == 8;

#[derive(Clone, Copy, PartialEq, Eq, Structural)]
pub struct ItemId(pub usize);
#[derive(Clone, Copy, PartialEq, Eq, Structural)]
pub struct TypeId(pub ItemId);

#[verifier::external_body] pub struct Enum { _p: core::marker::PhantomData<()> }
#[verifier::external_body] pub struct Cursor { _p: core::marker::PhantomData<()> }
#[verifier::external_body] pub struct CompInfo { _p: core::marker::PhantomData<()> }
#[verifier::external_body] pub struct FunctionSig { _p: core::marker::PhantomData<()> }
#[verifier::external_body] pub struct TemplateInstantiation { _p: core::marker::PhantomData<()> }
#[verifier::external_body] pub struct ObjCInterface { _p: core::marker::PhantomData<()> }
pub mod clang { #[verifier::external_body] pub struct Type { _p: core::marker::PhantomData<()> } }
pub enum IntKind { Int, Other }
pub enum FloatKind { Float16, Float, Double, LongDouble, Float128 }

#[verifier::external_body] pub struct Tok { _p: core::marker::PhantomData<()> }
pub uninterp spec fn tok_ptr(inner: Tok, is_const: bool) -> Tok;        // *const T / *mut T
pub uninterp spec fn tok_nonnull(inner: Tok) -> Tok;                     // ::core|std::ptr::NonNull<T>
pub uninterp spec fn tok_of_item(ctx: &BindgenContext, it: &Item) -> Tok; // to_rust_ty_or_opaque + implicit template params
impl Tok {
    #[verifier::external_body] pub fn to_ptr(self, is_const: bool) -> (r: Tok) ensures r == tok_ptr(self, is_const) { unimplemented!() }
}
pub struct RawTok { pub t: Tok }
impl RawTok {
    #[verifier::external_body] pub fn with_implicit_template_params(self, ctx: &BindgenContext, it: &Item) -> (r: Tok) ensures r == self.t { unimplemented!() }
}
#[verifier::external_body] pub fn q_nonnull(prefix: &Tok, ty: &Tok) -> (r: Tok) ensures r == tok_nonnull(*ty) { unimplemented!() }

pub struct Layout { pub size: usize, pub align: usize, pub packed: bool }
pub enum Error { NoLayoutForOpaqueBlob, InstantiationOfOpaqueType, UnsupportedAbi(&'static str),
                 InvalidPointerSize { ty_name: String, ty_size: usize, ptr_size: usize } }

#[verifier::external_body] pub struct Type { _p: core::marker::PhantomData<()> }
impl Type {
    pub uninterp spec fn s_kind(&self) -> TypeKind;
    pub uninterp spec fn s_canonical(&self, ctx: &BindgenContext) -> Type;
    pub uninterp spec fn s_const(&self) -> bool;
    pub uninterp spec fn s_layout_size(&self, ctx: &BindgenContext, it: &Item) -> usize;
    #[verifier::external_body] pub fn kind(&self) -> (r: &TypeKind) ensures *r == self.s_kind() { unimplemented!() }
    #[verifier::external_body] pub fn canonical_type(&self, ctx: &BindgenContext) -> (r: &Type) ensures *r == self.s_canonical(ctx) { unimplemented!() }
    #[verifier::external_body] pub fn is_const(&self) -> (r: bool) ensures r == self.s_const() { unimplemented!() }
    #[verifier::external_body] pub fn is_function(&self) -> (r: bool) ensures r == (self.s_kind() is Function) { unimplemented!() }
    #[verifier::external_body] pub fn get_layout(&self, ctx: &BindgenContext, it: &Item) -> (r: Layout) ensures r.size == self.s_layout_size(ctx, it) { unimplemented!() }
    // self.name().unwrap_or("unknown").into()
    #[verifier::external_body] pub fn name_or_unknown(&self) -> (r: String) { unimplemented!() }
}
#[verifier::external_body] pub struct Item { _p: core::marker::PhantomData<()> }
impl Item {
    pub uninterp spec fn s_type(&self) -> Type;
    #[verifier::external_body] pub fn expect_type(&self) -> (r: &Type) ensures *r == self.s_type() { unimplemented!() }
    #[verifier::external_body] pub fn to_rust_ty_or_opaque(&self, ctx: &BindgenContext, _e: &()) -> (r: RawTok) ensures r.t == tok_of_item(ctx, self) { unimplemented!() }
}
pub struct BindgenOptions { pub generate_cxx_nonnull_references: bool }
#[verifier::external_body] pub struct BindgenContext { _p: core::marker::PhantomData<()> }
impl BindgenContext {
    pub uninterp spec fn spec_options(&self) -> BindgenOptions;
    pub uninterp spec fn s_ptr_size(&self) -> usize;
    pub uninterp spec fn s_type(&self, id: TypeId) -> Type;
    pub uninterp spec fn s_through_refs(&self, id: TypeId) -> Item;
    #[verifier::external_body] pub fn options(&self) -> (r: &BindgenOptions) ensures *r == self.spec_options() { unimplemented!() }
    #[verifier::external_body] pub fn target_pointer_size(&self) -> (r: usize) ensures r == self.s_ptr_size() { unimplemented!() }
    #[verifier::external_body] pub fn resolve_type(&self, id: TypeId) -> (r: &Type) ensures *r == self.s_type(id) { unimplemented!() }
    // stands for: inner.into_resolver().through_type_refs().resolve(ctx)
    #[verifier::external_body] pub fn resolve_through_type_refs(&self, id: TypeId) -> (r: &Item) ensures *r == self.s_through_refs(id) { unimplemented!() }
    #[verifier::external_body] pub fn trait_prefix(&self) -> (r: Tok) { unimplemented!() }
}

} // verus!
