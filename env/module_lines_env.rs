// Stub environment for unit `module_lines` (C10): the statement of <Module as CodeGenerator>::codegen that emits the user's
// --module-raw-line lines into a module.  The option map lookup and the token parser are uninterpreted.
verus! {

global size_of usize == 8;

#[verifier::external_body] pub struct Tok { _p: core::marker::PhantomData<()> }
pub uninterp spec fn tok_of(line: Seq<char>) -> Tok;
// proc_macro2::TokenStream::from_str(line).unwrap()
#[verifier::external_body] pub fn tokens_from_str(line: &Box<str>) -> (r: Tok) ensures r == tok_of(line@) { unimplemented!() }
#[verifier::external_body] pub struct ModPath { _p: core::marker::PhantomData<()> }
#[verifier::external_body] pub struct ModuleLines { _p: core::marker::PhantomData<()> }
impl ModuleLines {
    pub uninterp spec fn s_get(&self, path: &ModPath) -> Option<Seq<Box<str>>>;
    #[verifier::external_body] pub fn get(&self, path: &ModPath) -> (r: Option<&Vec<Box<str>>>)
        ensures r.is_some() == self.s_get(path).is_some(), r.is_some() ==> r.unwrap()@ == self.s_get(path).unwrap() { unimplemented!() }
}
pub struct BindgenOptions { pub module_lines: ModuleLines }
#[verifier::external_body] pub struct BindgenContext { _p: core::marker::PhantomData<()> }
impl BindgenContext {
    pub uninterp spec fn spec_options(&self) -> BindgenOptions;
    #[verifier::external_body] pub fn options(&self) -> (r: &BindgenOptions) ensures *r == self.spec_options() { unimplemented!() }
}
#[verifier::external_body] pub struct CodegenResult { _p: core::marker::PhantomData<()> }
impl CodegenResult {
    pub uninterp spec fn items(&self) -> Seq<Tok>;
    #[verifier::external_body] pub fn push(&mut self, t: Tok) ensures final(self).items() == old(self).items().push(t) { unimplemented!() }
}
#[verifier::external_body]
#[verifier::reject_recursive_types(T)]
pub struct VecCursor<'a, T> { _p: core::marker::PhantomData<&'a T> }
impl<'a, T> VecCursor<'a, T> {
    pub uninterp spec fn all(&self) -> Seq<T>;
    pub uninterp spec fn pos(&self) -> int;
    #[verifier::external_body]
    pub fn new(v: &'a Vec<T>) -> (r: VecCursor<'a, T>) ensures r.all() == v@, r.pos() == 0 { unimplemented!() }
    #[verifier::external_body]
    pub fn has_next(&self) -> (r: bool) ensures r == (self.pos() < self.all().len()), 0 <= self.pos() <= self.all().len() { unimplemented!() }
    #[verifier::external_body]
    pub fn next_item(&mut self) -> (r: &'a T)
        requires old(self).pos() < old(self).all().len(),
        ensures *r == old(self).all()[old(self).pos()], final(self).pos() == old(self).pos() + 1, final(self).all() == old(self).all(),
    { unimplemented!() }
}

} // verus!
