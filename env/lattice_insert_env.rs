// Stub environment for unit `lattice_insert` (C07): the `insert` / `forward`
// functions of the lattice-valued analyses.  HashMap is an opaque type with a
// Map view; the Entry API is desugared (rule R17) into contains/get/insert on
// that map; `a < b` on the result enums (derived PartialOrd = declaration
// order, which the Kani lattice harnesses tie to the declared order) is the
// rank comparison.
verus! {

global size_of usize == 8;

#[derive(Clone, Copy, PartialEq, Eq, Structural)]
pub struct ItemId(pub usize);
#[derive(Clone, Copy, PartialEq, Eq, Structural)]
pub struct TypeId(pub ItemId);

#[verifier::external_body] pub struct BindgenContext { _p: core::marker::PhantomData<()> }

#[verifier::external_body]
#[verifier::reject_recursive_types(K)]
#[verifier::reject_recursive_types(V)]
pub struct HashMap<K, V> { _p: core::marker::PhantomData<(K, V)> }
impl<K, V> HashMap<K, V> {
    pub uninterp spec fn view(&self) -> Map<K, V>;
    #[verifier::external_body]
    pub fn get(&self, k: &K) -> (r: Option<&V>)
        ensures r.is_some() == self.view().contains_key(*k), r.is_some() ==> *r.unwrap() == self.view()[*k],
    { unimplemented!() }
}
pub enum EntryKind { Occupied, Vacant }
// R17: `match m.entry(k) { Entry::Occupied(mut e) => .. *e.get() .. e.insert(v) .., Entry::Vacant(e) => .. e.insert(v) .. }`
#[verifier::external_body]
pub fn map_entry<K, V>(m: &HashMap<K, V>, k: &K) -> (r: EntryKind)
    ensures (r is Occupied) == m.view().contains_key(*k),
{ unimplemented!() }
#[verifier::external_body]
pub fn map_get<K, V: Copy>(m: &HashMap<K, V>, k: &K) -> (r: V)
    requires m.view().contains_key(*k),
    ensures r == m.view()[*k],
{ unimplemented!() }
#[verifier::external_body]
pub fn map_insert<K, V>(m: &mut HashMap<K, V>, k: K, v: V)
    ensures final(m).view() == old(m).view().insert(k, v),
{ unimplemented!() }

} // verus!
