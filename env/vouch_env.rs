// Stub environment for unit `vouch` (C10): the two nested closures of
// BindgenContext::blocklisted_type_implements_trait that decide whether a trait may be
// derived THROUGH a blocklisted type.  The user's callback and the stdint-name test
// are uninterpreted; the memoisation around them (RefCell<HashMap> entry API) is not
// part of the extracted closures.
verus! {

global size_of usize == 8;

pub struct ParseCallbacks { pub n: usize }
impl ParseCallbacks {
    // `self.options.parse_callbacks.is_empty()`
    pub fn is_empty(&self) -> (r: bool) ensures r == (self.n == 0) { self.n == 0 }
}
pub struct BindgenOptions { pub parse_callbacks: ParseCallbacks }
impl BindgenOptions {
    // self.options.last_callback(|cb| cb.blocklisted_type_implements_trait(name, derive_trait)): what the user answered
    pub uninterp spec fn s_user_vouches(&self, name: &str, t: DeriveTrait) -> Option<CanDerive>;
    #[verifier::external_body] pub fn last_callback_vouch(&self, name: &str, t: DeriveTrait) -> (r: Option<CanDerive>)
        ensures r == self.s_user_vouches(name, t) { unimplemented!() }
}
pub struct BindgenContext { pub options: BindgenOptions }
impl BindgenContext {
    pub uninterp spec fn s_is_stdint(&self, name: &str) -> bool;
    #[verifier::external_body] pub fn is_stdint_type(&self, name: &str) -> (r: bool) ensures r == self.s_is_stdint(name) { unimplemented!() }
}
#[verifier::external_body] pub struct Type { _p: core::marker::PhantomData<()> }
impl Type {
    pub uninterp spec fn s_name(&self) -> Option<&'static str>;
    #[verifier::external_body] pub fn name(&self) -> (r: Option<&str>) ensures r == self.s_name() { unimplemented!() }
}
#[verifier::external_body] pub struct Item { _p: core::marker::PhantomData<()> }
impl Item {
    pub uninterp spec fn s_type(&self) -> Type;
    #[verifier::external_body] pub fn expect_type(&self) -> (r: &Type) ensures *r == self.s_type() { unimplemented!() }
}

// rule R7 for `X.and_then(|name| { BODY })` where BODY is the closure verified as `vouch_for_name`:
// Option::and_then applies the closure to the payload
#[verifier::external_body]
pub fn opt_and_then_vouch(o: Option<&str>, ctx: &BindgenContext, t: DeriveTrait) -> (r: Option<CanDerive>)
    ensures r == (match o { Some(n) => s_vouch(ctx, n, t), None => None }) { unimplemented!() }

} // verus!
