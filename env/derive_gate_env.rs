// Stub environment for unit `derive_gate` (C08): option reads and analysis
// lookups are uninterpreted.  The generic `impl<T: Copy + Into<ItemId>> .. for T`
// blocks are instantiated at T = ItemId (Into<ItemId> is then the identity).
verus! {

global size_of usize == 8;

#[derive(Clone, Copy, PartialEq, Eq, Structural)]
pub struct ItemId(pub usize);

pub struct BindgenOptions {
    pub derive_debug: bool, pub derive_default: bool, pub derive_copy: bool, pub derive_hash: bool,
    pub derive_partialord: bool, pub derive_partialeq: bool, pub derive_eq: bool, pub derive_ord: bool,
}

#[verifier::external_body]
pub struct BindgenContext { _p: core::marker::PhantomData<()> }
impl BindgenContext {
    pub uninterp spec fn spec_options(&self) -> BindgenOptions;
    pub uninterp spec fn s_debug(&self, id: ItemId) -> bool;
    pub uninterp spec fn s_default(&self, id: ItemId) -> bool;
    pub uninterp spec fn s_copy(&self, id: ItemId) -> bool;
    pub uninterp spec fn s_hash(&self, id: ItemId) -> bool;
    pub uninterp spec fn s_peq_or_pord(&self, id: ItemId) -> CanDerive;
    pub uninterp spec fn s_has_float(&self, id: ItemId) -> bool;
    #[verifier::external_body] pub fn options(&self) -> (r: &BindgenOptions) ensures *r == self.spec_options() { unimplemented!() }
    #[verifier::external_body] pub fn lookup_can_derive_debug(&self, id: ItemId) -> (r: bool) ensures r == self.s_debug(id) { unimplemented!() }
    #[verifier::external_body] pub fn lookup_can_derive_default(&self, id: ItemId) -> (r: bool) ensures r == self.s_default(id) { unimplemented!() }
    #[verifier::external_body] pub fn lookup_can_derive_copy(&self, id: ItemId) -> (r: bool) ensures r == self.s_copy(id) { unimplemented!() }
    #[verifier::external_body] pub fn lookup_can_derive_hash(&self, id: ItemId) -> (r: bool) ensures r == self.s_hash(id) { unimplemented!() }
    #[verifier::external_body] pub fn lookup_can_derive_partialeq_or_partialord(&self, id: ItemId) -> (r: CanDerive) ensures r == self.s_peq_or_pord(id) { unimplemented!() }
    #[verifier::external_body] pub fn lookup_has_float(&self, id: ItemId) -> (r: bool) ensures r == self.s_has_float(id) { unimplemented!() }
}

} // verus!
