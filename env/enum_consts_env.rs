// Stub environment for unit `enum_consts` (C12): the names of the constants generated for the variants of an
// unnamed (or constified) enum inside <Enum as CodeGenerator>::codegen. Strings and identifiers are opaque values;
// the point of the unit is the `parent_canonical_name.as_ref().unwrap()` in both naming statements.
verus! {

global size_of usize == 8;

#[verifier::external_body] pub struct Name { _p: core::marker::PhantomData<()> }       // Cow<str> / Ident
impl Name { #[verifier::external_body] pub fn clone(&self) -> (r: Name) ensures r == *self { unimplemented!() } }
#[verifier::external_body] pub struct PName { _p: core::marker::PhantomData<()> }      // String
#[verifier::external_body] pub struct ItemId { _p: core::marker::PhantomData<()> }
impl ItemId { #[verifier::external_body] pub fn canonical_name(&self, ctx: &BindgenContext) -> (r: PName) { unimplemented!() } }
#[verifier::external_body] pub struct BindgenContext { _p: core::marker::PhantomData<()> }
#[verifier::external_body] pub struct Item { _p: core::marker::PhantomData<()> }
impl Item {
    pub uninterp spec fn s_toplevel(&self, ctx: &BindgenContext) -> bool;
    #[verifier::external_body] pub fn is_toplevel(&self, ctx: &BindgenContext) -> (r: bool) ensures r == self.s_toplevel(ctx) { unimplemented!() }
    #[verifier::external_body] pub fn parent_id(&self) -> (r: ItemId) { unimplemented!() }
}
#[verifier::external_body] pub struct Type { _p: core::marker::PhantomData<()> }
impl Type {
    pub uninterp spec fn s_named(&self) -> bool;
    #[verifier::external_body] pub fn name(&self) -> (r: Option<&str>) ensures r.is_some() == self.s_named() { unimplemented!() }
}
// Cow::Owned(format!("{parent_name}_{variant_name}"))   /   Ident::new(&format!("{parent_name}_{variant_name}"), Span::call_site())
#[verifier::external_body] pub fn prefixed_name(parent: &PName, variant: &Name) -> (r: Name) { unimplemented!() }

} // verus!
