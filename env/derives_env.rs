// Stub environment for unit `derives` (C08: derives_of_item).  Every analysis
// query and annotation read is uninterpreted; DerivableTraits (a bitflags!
// type in the real crate) is modelled as one boolean per flag, `|=` being the
// flag-wise OR (what bitflags generates) -- trusted.
use vstd::std_specs::ops::*;
verus! {

#[derive(Clone, Copy)]
pub struct DerivableTraits {
    pub debug: bool, pub default_: bool, pub copy: bool, pub clone: bool, pub hash: bool,
    pub partial_ord: bool, pub ord: bool, pub partial_eq: bool, pub eq: bool,
}
pub open spec fn dt_none() -> DerivableTraits {
    DerivableTraits { debug: false, default_: false, copy: false, clone: false, hash: false, partial_ord: false, ord: false, partial_eq: false, eq: false }
}
impl DerivableTraits {
    pub const DEBUG: DerivableTraits = DerivableTraits { debug: true, default_: false, copy: false, clone: false, hash: false, partial_ord: false, ord: false, partial_eq: false, eq: false };
    pub const DEFAULT: DerivableTraits = DerivableTraits { debug: false, default_: true, copy: false, clone: false, hash: false, partial_ord: false, ord: false, partial_eq: false, eq: false };
    pub const COPY: DerivableTraits = DerivableTraits { debug: false, default_: false, copy: true, clone: false, hash: false, partial_ord: false, ord: false, partial_eq: false, eq: false };
    pub const CLONE: DerivableTraits = DerivableTraits { debug: false, default_: false, copy: false, clone: true, hash: false, partial_ord: false, ord: false, partial_eq: false, eq: false };
    pub const HASH: DerivableTraits = DerivableTraits { debug: false, default_: false, copy: false, clone: false, hash: true, partial_ord: false, ord: false, partial_eq: false, eq: false };
    pub const PARTIAL_ORD: DerivableTraits = DerivableTraits { debug: false, default_: false, copy: false, clone: false, hash: false, partial_ord: true, ord: false, partial_eq: false, eq: false };
    pub const ORD: DerivableTraits = DerivableTraits { debug: false, default_: false, copy: false, clone: false, hash: false, partial_ord: false, ord: true, partial_eq: false, eq: false };
    pub const PARTIAL_EQ: DerivableTraits = DerivableTraits { debug: false, default_: false, copy: false, clone: false, hash: false, partial_ord: false, ord: false, partial_eq: true, eq: false };
    pub const EQ: DerivableTraits = DerivableTraits { debug: false, default_: false, copy: false, clone: false, hash: false, partial_ord: false, ord: false, partial_eq: false, eq: true };
    pub fn empty() -> (r: DerivableTraits) ensures r == dt_none() {
        DerivableTraits { debug: false, default_: false, copy: false, clone: false, hash: false, partial_ord: false, ord: false, partial_eq: false, eq: false }
    }
}
impl BitOrAssignSpecImpl<DerivableTraits> for DerivableTraits {
    open spec fn obeys_bitor_assign_spec() -> bool { true }
    open spec fn bitor_assign_req(&self, o: DerivableTraits) -> bool { true }
    open spec fn bitor_assign_spec(&self, o: DerivableTraits) -> &DerivableTraits {
        &DerivableTraits { debug: self.debug || o.debug, default_: self.default_ || o.default_, copy: self.copy || o.copy,
            clone: self.clone || o.clone, hash: self.hash || o.hash, partial_ord: self.partial_ord || o.partial_ord,
            ord: self.ord || o.ord, partial_eq: self.partial_eq || o.partial_eq, eq: self.eq || o.eq }
    }
}
impl core::ops::BitOrAssign for DerivableTraits {
    fn bitor_assign(&mut self, o: DerivableTraits) {
        self.debug = self.debug || o.debug; self.default_ = self.default_ || o.default_; self.copy = self.copy || o.copy;
        self.clone = self.clone || o.clone; self.hash = self.hash || o.hash; self.partial_ord = self.partial_ord || o.partial_ord;
        self.ord = self.ord || o.ord; self.partial_eq = self.partial_eq || o.partial_eq; self.eq = self.eq || o.eq;
    }
}

#[verifier::external_body]
pub struct BindgenContext { _p: core::marker::PhantomData<()> }

#[verifier::external_body]
pub struct Annotations { _p: core::marker::PhantomData<()> }
impl Annotations {
    pub uninterp spec fn s_no_copy(&self) -> bool;
    pub uninterp spec fn s_no_debug(&self) -> bool;
    pub uninterp spec fn s_no_default(&self) -> bool;
    #[verifier::external_body] pub fn disallow_copy(&self) -> (r: bool) ensures r == self.s_no_copy() { unimplemented!() }
    #[verifier::external_body] pub fn disallow_debug(&self) -> (r: bool) ensures r == self.s_no_debug() { unimplemented!() }
    #[verifier::external_body] pub fn disallow_default(&self) -> (r: bool) ensures r == self.s_no_default() { unimplemented!() }
}

#[verifier::external_body]
pub struct Item { _p: core::marker::PhantomData<()> }
impl Item {
    pub uninterp spec fn s_annotations(&self) -> Annotations;
    pub uninterp spec fn s_copy(&self, c: &BindgenContext) -> bool;
    pub uninterp spec fn s_debug(&self, c: &BindgenContext) -> bool;
    pub uninterp spec fn s_default(&self, c: &BindgenContext) -> bool;
    pub uninterp spec fn s_hash(&self, c: &BindgenContext) -> bool;
    pub uninterp spec fn s_partialord(&self, c: &BindgenContext) -> bool;
    pub uninterp spec fn s_ord(&self, c: &BindgenContext) -> bool;
    pub uninterp spec fn s_partialeq(&self, c: &BindgenContext) -> bool;
    pub uninterp spec fn s_eq(&self, c: &BindgenContext) -> bool;
    #[verifier::external_body] pub fn annotations(&self) -> (r: &Annotations) ensures *r == self.s_annotations() { unimplemented!() }
    #[verifier::external_body] pub fn can_derive_copy(&self, c: &BindgenContext) -> (r: bool) ensures r == self.s_copy(c) { unimplemented!() }
    #[verifier::external_body] pub fn can_derive_debug(&self, c: &BindgenContext) -> (r: bool) ensures r == self.s_debug(c) { unimplemented!() }
    #[verifier::external_body] pub fn can_derive_default(&self, c: &BindgenContext) -> (r: bool) ensures r == self.s_default(c) { unimplemented!() }
    #[verifier::external_body] pub fn can_derive_hash(&self, c: &BindgenContext) -> (r: bool) ensures r == self.s_hash(c) { unimplemented!() }
    #[verifier::external_body] pub fn can_derive_partialord(&self, c: &BindgenContext) -> (r: bool) ensures r == self.s_partialord(c) { unimplemented!() }
    #[verifier::external_body] pub fn can_derive_ord(&self, c: &BindgenContext) -> (r: bool) ensures r == self.s_ord(c) { unimplemented!() }
    #[verifier::external_body] pub fn can_derive_partialeq(&self, c: &BindgenContext) -> (r: bool) ensures r == self.s_partialeq(c) { unimplemented!() }
    #[verifier::external_body] pub fn can_derive_eq(&self, c: &BindgenContext) -> (r: bool) ensures r == self.s_eq(c) { unimplemented!() }
}

// ---- hand-written-impl decisions in <CompInfo as CodeGenerator>::codegen (statements extracted by R18)
#[derive(Clone, Copy, PartialEq, Eq, Structural)]
pub struct ItemId(pub usize);
pub struct BindgenOptions {
    pub derive_debug: bool, pub impl_debug: bool, pub derive_default: bool,
    pub derive_partialeq: bool, pub impl_partialeq: bool,
}
impl DerivableTraits {
    // bitflags' contains(): every flag set in `o` is set in `self`
    pub open spec fn s_contains(&self, o: DerivableTraits) -> bool {
        (o.debug ==> self.debug) && (o.default_ ==> self.default_) && (o.copy ==> self.copy) && (o.clone ==> self.clone) && (o.hash ==> self.hash)
        && (o.partial_ord ==> self.partial_ord) && (o.ord ==> self.ord) && (o.partial_eq ==> self.partial_eq) && (o.eq ==> self.eq)
    }
    #[verifier::external_body] pub fn contains(&self, o: DerivableTraits) -> (r: bool) ensures r == self.s_contains(o) { unimplemented!() }
}
impl BindgenContext {
    pub uninterp spec fn spec_options(&self) -> BindgenOptions;
    pub uninterp spec fn s_no_debug_by_name(&self, it: &Item) -> bool;
    pub uninterp spec fn s_no_default_by_name(&self, it: &Item) -> bool;
    pub uninterp spec fn s_peq_or_pord(&self, id: ItemId) -> CanDerive;
    #[verifier::external_body] pub fn options(&self) -> (r: &BindgenOptions) ensures *r == self.spec_options() { unimplemented!() }
    #[verifier::external_body] pub fn no_debug_by_name(&self, it: &Item) -> (r: bool) ensures r == self.s_no_debug_by_name(it) { unimplemented!() }
    #[verifier::external_body] pub fn no_default_by_name(&self, it: &Item) -> (r: bool) ensures r == self.s_no_default_by_name(it) { unimplemented!() }
    #[verifier::external_body] pub fn lookup_can_derive_partialeq_or_partialord(&self, id: ItemId) -> (r: CanDerive) ensures r == self.s_peq_or_pord(id) { unimplemented!() }
    // the rest of the lookup_can_derive_* family (env completeness rule): the raw analysis answers, before options and annotations
    pub uninterp spec fn s_lookup_debug(&self, id: ItemId) -> bool;
    pub uninterp spec fn s_lookup_default(&self, id: ItemId) -> bool;
    pub uninterp spec fn s_lookup_copy(&self, id: ItemId) -> bool;
    pub uninterp spec fn s_lookup_hash(&self, id: ItemId) -> bool;
    #[verifier::external_body] pub fn lookup_can_derive_debug(&self, id: ItemId) -> (r: bool) ensures r == self.s_lookup_debug(id) { unimplemented!() }
    #[verifier::external_body] pub fn lookup_can_derive_default(&self, id: ItemId) -> (r: bool) ensures r == self.s_lookup_default(id) { unimplemented!() }
    #[verifier::external_body] pub fn lookup_can_derive_copy(&self, id: ItemId) -> (r: bool) ensures r == self.s_lookup_copy(id) { unimplemented!() }
    #[verifier::external_body] pub fn lookup_can_derive_hash(&self, id: ItemId) -> (r: bool) ensures r == self.s_lookup_hash(id) { unimplemented!() }
}
impl Item {
    pub uninterp spec fn s_id(&self) -> ItemId;
    #[verifier::external_body] pub fn id(&self) -> (r: ItemId) ensures r == self.s_id() { unimplemented!() }
}
#[verifier::external_body]
pub struct CompInfo { _p: core::marker::PhantomData<()> }
impl CompInfo {
    pub uninterp spec fn s_forward_decl(&self) -> bool;
    #[verifier::external_body] pub fn is_forward_declaration(&self) -> (r: bool) ensures r == self.s_forward_decl() { unimplemented!() }
}

} // verus!
