// Stub environment for unit `gates` (C14): small code-generation statements that must
// consult a Rust-target feature flag before using a construct.
verus! {

global size_of usize == 8;

pub struct RustFeatures { pub unsafe_extern_blocks: bool, pub layout_for_ptr: bool, pub ptr_metadata: bool, pub offset_of: bool, pub const_cstr: bool, pub literal_cstr: bool, pub core_ffi_c: bool, pub thiscall_abi: bool, pub vectorcall_abi: bool, pub c_unwind_abi: bool, pub abi_efiapi: bool }
pub struct BindgenOptions { pub rust_features: RustFeatures }
#[verifier::external_body] pub struct BindgenContext { _p: core::marker::PhantomData<()> }
impl BindgenContext {
    pub uninterp spec fn spec_options(&self) -> BindgenOptions;
    #[verifier::external_body] pub fn options(&self) -> (r: &BindgenOptions) ensures *r == self.spec_options() { unimplemented!() }
}
#[verifier::external_body] pub struct Tok { _p: core::marker::PhantomData<()> }
pub uninterp spec fn is_unsafe_kw(t: Tok) -> bool;
// quote!(unsafe)
#[verifier::external_body] pub fn q_unsafe_kw() -> (r: Tok) ensures is_unsafe_kw(r) { unimplemented!() }
// bool::then with a closure that builds the `unsafe` keyword token (rule R7: `b.then(|| E)` = if b { Some(E) } else { None })
pub fn then_unsafe_kw(b: bool) -> (r: Option<Tok>) ensures r.is_some() == b, r.is_some() ==> is_unsafe_kw(r.unwrap()) { if b { Some(q_unsafe_kw()) } else { None } }

} // verus!
