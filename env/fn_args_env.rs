// Stub environment for unit `fn_args` (C04): whose parameters does FunctionSig::from_ty read. libclang types and
// cursors are opaque handles with uninterpreted accessors; `Type == Type` is clang_equalTypes (s_same); the pointee /
// element of a canonical type is a structurally smaller canonical type (measure s_cdepth, unchanged by canonical_type()).
verus! {

global size_of usize == 8;

pub type CXTypeKind = i32;
pub const CXType_Pointer: CXTypeKind = 101;
pub const CXType_BlockPointer: CXTypeKind = 102;
pub const CXType_LValueReference: CXTypeKind = 103;
pub const CXType_RValueReference: CXTypeKind = 104;
pub const CXType_FunctionNoProto: CXTypeKind = 110;
pub const CXType_FunctionProto: CXTypeKind = 111;
pub const CXType_ConstantArray: CXTypeKind = 112;
pub const CXType_IncompleteArray: CXTypeKind = 114;
pub const CXType_VariableArray: CXTypeKind = 115;
pub const CXType_DependentSizedArray: CXTypeKind = 116;
pub const CXType_MemberPointer: CXTypeKind = 117;

pub type CXCursorKind = i32;
pub const CXCursor_FunctionDecl: CXCursorKind = 8;
pub const CXCursor_ParmDecl: CXCursorKind = 10;
pub const CXCursor_ObjCInstanceMethodDecl: CXCursorKind = 16;
pub const CXCursor_ObjCClassMethodDecl: CXCursorKind = 17;
pub const CXCursor_CXXMethod: CXCursorKind = 21;
pub const CXCursor_Constructor: CXCursorKind = 24;
pub type CXChildVisitResult = i32;
pub const CXChildVisit_Break: CXChildVisitResult = 0;
pub const CXChildVisit_Continue: CXChildVisitResult = 1;
pub const CXChildVisit_Recurse: CXChildVisitResult = 2;

pub mod clang {
    use super::*;
    #[derive(Clone, Copy)] pub struct Type { pub h: usize }
    #[derive(Clone, Copy)] pub struct Cursor { pub h: usize }
    pub uninterp spec fn s_kind(t: Type) -> CXTypeKind;
    pub uninterp spec fn s_canonical(t: Type) -> Type;
    pub uninterp spec fn s_pointee(t: Type) -> Option<Type>;
    pub uninterp spec fn s_elem(t: Type) -> Option<Type>;
    pub uninterp spec fn s_cdepth(t: Type) -> nat;            // nesting depth of the canonical type expression
    pub uninterp spec fn s_same(a: Type, b: Type) -> bool;    // clang_equalTypes
    pub uninterp spec fn s_type_args(t: Type) -> Option<Seq<Type>>;      // clang_getNumArgTypes / clang_getArgType (None: not a prototype)
    pub uninterp spec fn s_cur_type(c: Cursor) -> Type;
    pub uninterp spec fn s_cursor_args(c: Cursor) -> Option<Seq<Cursor>>; // clang_Cursor_getNumArguments / getArgument
    impl Type {
        #[verifier::external_body] pub fn kind(&self) -> (r: CXTypeKind) ensures r == s_kind(*self) { unimplemented!() }
        #[verifier::external_body] pub fn canonical_type(&self) -> (r: Type) ensures r == s_canonical(*self), s_cdepth(r) == s_cdepth(*self) { unimplemented!() }
        #[verifier::external_body] pub fn pointee_type(&self) -> (r: Option<Type>) ensures r == s_pointee(*self), r.is_some() ==> s_cdepth(r.unwrap()) < s_cdepth(*self) { unimplemented!() }
        #[verifier::external_body] pub fn elem_type(&self) -> (r: Option<Type>) ensures r == s_elem(*self), r.is_some() ==> s_cdepth(r.unwrap()) < s_cdepth(*self) { unimplemented!() }
        #[verifier::external_body] pub fn args(&self) -> (r: Option<Vec<Type>>) ensures r.is_some() == s_type_args(*self).is_some(), r.is_some() ==> r.unwrap()@ == s_type_args(*self).unwrap() { unimplemented!() }
    }
    pub uninterp spec fn s_ckind(c: Cursor) -> CXCursorKind;
    // the direct children of kind ParmDecl, in order (what a non-recursing visitor sees)
    pub uninterp spec fn s_parm_children(c: Cursor) -> Seq<Cursor>;
    impl Cursor {
        #[verifier::external_body] pub fn kind(&self) -> (r: CXCursorKind) ensures r == s_ckind(*self) { unimplemented!() }
        #[verifier::external_body] pub fn spelling(&self) -> (r: String) { unimplemented!() }
        #[verifier::external_body] pub fn is_valid(&self) -> (r: bool) { unimplemented!() }
        #[verifier::external_body] pub fn cur_type(&self) -> (r: Type) ensures r == s_cur_type(*self) { unimplemented!() }
        #[verifier::external_body] pub fn args(&self) -> (r: Option<Vec<Cursor>>) ensures r.is_some() == s_cursor_args(*self).is_some(), r.is_some() ==> r.unwrap()@ == s_cursor_args(*self).unwrap() { unimplemented!() }
    }
    // <Type as PartialEq>::eq / ne
    #[verifier::external_body] pub fn type_ne(a: &Type, b: &Type) -> (r: bool) ensures r == !s_same(*a, *b) { unimplemented!() }
}

// Option<Vec<T>>::unwrap_or_default()
pub fn vec_or_empty<T>(o: Option<Vec<T>>) -> (r: Vec<T>) ensures r@ == (match o { Some(v) => v@, None => Seq::<T>::empty() }) { match o { Some(v) => v, None => Vec::new() } }

#[verifier::external_body] pub struct BindgenContext { _p: core::marker::PhantomData<()> }
#[verifier::external_body] pub struct TypeId { _p: core::marker::PhantomData<()> }
pub type ArgName = Option<String>;
// arg_cur.map(|a| a.spelling()).and_then(|name| if name.is_empty() { None } else { Some(name) })
#[verifier::external_body] pub fn arg_name_of(c: Option<clang::Cursor>) -> (r: ArgName) { unimplemented!() }
pub struct Item { }
impl Item {
    // the IR type of the argument: decided by the clang type handed in
    pub uninterp spec fn s_type_of(ty: clang::Type) -> TypeId;
    #[verifier::external_body] pub fn from_ty_or_ref(ty: clang::Type, location: clang::Cursor, parent: Option<usize>, ctx: &mut BindgenContext) -> (r: TypeId) ensures r == Item::s_type_of(ty) { unimplemented!() }
}

// String::is_empty
#[verifier::external_body] pub fn string_is_empty(s: &String) -> (r: bool) { unimplemented!() }
// `cursor.visit(|c| BODY)` with the BODY of FunctionSig::from_ty (verified separately as parm_decl_visitor: one entry per ParmDecl
// child, of that child's type, and the traversal continues without recursing): the fold of that contract over the direct children
#[verifier::external_body] pub fn visit_children(cursor: &clang::Cursor, args: &mut Vec<(ArgName, TypeId)>, ctx: &mut BindgenContext)
    ensures final(args)@.len() == old(args)@.len() + clang::s_parm_children(*cursor).len(),
            final(args)@.subrange(0, old(args)@.len() as int) == old(args)@,
            forall|j: int| 0 <= j < clang::s_parm_children(*cursor).len() ==> (#[trigger] final(args)@[old(args)@.len() + j]).1 == Item::s_type_of(clang::s_cur_type(clang::s_parm_children(*cursor)[j])) { unimplemented!() }

} // verus!
