// Stub environment for unit `link_name` (C04): utils::names_will_be_identical_after_mangling,
// the decision whether a binding may omit #[link_name].  Rule R21: the std str/slice
// operations Verus has no specification for (&str ==, str::as_bytes, range slicing,
// slice !=, iter().all(u8::is_ascii_digit)) are replaced by the env functions below,
// whose contracts are the std operations' documented meaning over Seq<u8> (trusted),
// INCLUDING their panic conditions as preconditions (so slice bounds are proved).
verus! {

global size_of usize == 8;

pub type CXCallingConv = u32;

// the UTF-8 bytes of a str
pub uninterp spec fn bytes_of(s: &str) -> Seq<u8>;
#[verifier::external_body] pub fn str_eq(a: &str, b: &str) -> (r: bool) ensures r == (bytes_of(a) == bytes_of(b)) { unimplemented!() }
#[verifier::external_body] pub fn as_bytes(a: &str) -> (r: &[u8]) ensures r@ == bytes_of(a), r@.len() <= 0x7fff_ffff_ffff_ffff /* no allocation exceeds isize::MAX bytes */ { unimplemented!() }
// &s[lo..=hi]
#[verifier::external_body] pub fn slice_incl(s: &[u8], lo: usize, hi: usize) -> (r: &[u8])
    requires lo <= hi + 1, hi < s@.len(), hi < usize::MAX
    ensures r@ == s@.subrange(lo as int, hi + 1) { unimplemented!() }
// &s[lo..]
#[verifier::external_body] pub fn slice_from(s: &[u8], lo: usize) -> (r: &[u8])
    requires lo <= s@.len()
    ensures r@ == s@.subrange(lo as int, s@.len() as int) { unimplemented!() }
#[verifier::external_body] pub fn slice_ne(a: &[u8], b: &[u8]) -> (r: bool) ensures r == (a@ != b@) { unimplemented!() }
pub open spec fn is_digit(c: u8) -> bool { 48 <= c <= 57 }
#[verifier::external_body] pub fn all_ascii_digit(a: &[u8]) -> (r: bool) ensures r == (forall|i: int| 0 <= i < a@.len() ==> is_digit(#[trigger] a@[i])) { unimplemented!() }

} // verus!
