// Stub environment for unit `link_name` (C04): utils::names_will_be_identical_after_mangling,
// the decision whether a binding may omit #[link_name].  Rule R21: the std str/slice
// operations Verus has no specification for (&str ==, str::as_bytes, range slicing,
// slice !=, iter().all(u8::is_ascii_digit)) are replaced by the env functions below,
// whose contracts are the std operations' documented meaning over Seq<u8> (trusted),
// INCLUDING their panic conditions as preconditions (so slice bounds are proved).
verus! {

global size_of usize == 8;

pub type CXCallingConv = u32;

// the UTF-8 bytes of a str
pub uninterp spec fn bytes_of(s: &str) -> Seq<u8>;
#[verifier::external_body] pub fn str_eq(a: &str, b: &str) -> (r: bool) ensures r == (bytes_of(a) == bytes_of(b)) { unimplemented!() }
#[verifier::external_body] pub fn as_bytes(a: &str) -> (r: &[u8]) ensures r@ == bytes_of(a), r@.len() <= 0x7fff_ffff_ffff_ffff /* no allocation exceeds isize::MAX bytes */ { unimplemented!() }
// &s[lo..=hi]
#[verifier::external_body] pub fn slice_incl(s: &[u8], lo: usize, hi: usize) -> (r: &[u8])
    requires lo <= hi + 1, hi < s@.len(), hi < usize::MAX
    ensures r@ == s@.subrange(lo as int, hi + 1) { unimplemented!() }
// &s[lo..]
#[verifier::external_body] pub fn slice_from(s: &[u8], lo: usize) -> (r: &[u8])
    requires lo <= s@.len()
    ensures r@ == s@.subrange(lo as int, s@.len() as int) { unimplemented!() }
#[verifier::external_body] pub fn slice_ne(a: &[u8], b: &[u8]) -> (r: bool) ensures r == (a@ != b@) { unimplemented!() }
pub open spec fn is_digit(c: u8) -> bool { 48 <= c <= 57 }
#[verifier::external_body] pub fn all_ascii_digit(a: &[u8]) -> (r: bool) ensures r == (forall|i: int| 0 <= i < a@.len() ==> is_digit(#[trigger] a@[i])) { unimplemented!() }

// ---- Var::codegen: which symbol a global binds and whether #[link_name] is spelled out
#[verifier::external_body] pub struct Tok { _p: core::marker::PhantomData<()> }
pub uninterp spec fn link_name_of(t: Tok) -> Seq<u8>;       // the symbol a #[link_name = "\u{1}.."] attribute names
// attributes::link_name::<false>(name)
#[verifier::external_body] pub fn attr_link_name(name: &str) -> (r: Tok) ensures link_name_of(r) == bytes_of(name) { unimplemented!() }
#[verifier::external_body] pub struct Var { _p: core::marker::PhantomData<()> }
impl Var {
    pub uninterp spec fn s_link_name(&self) -> Option<&'static str>;       // generated_link_name_override callback
    pub uninterp spec fn s_mangled_name(&self) -> Option<&'static str>;
    pub uninterp spec fn s_name(&self) -> &'static str;
    #[verifier::external_body] pub fn link_name(&self) -> (r: Option<&str>) ensures r == self.s_link_name() { unimplemented!() }
    #[verifier::external_body] pub fn mangled_name(&self) -> (r: Option<&str>) ensures r == self.s_mangled_name() { unimplemented!() }
    #[verifier::external_body] pub fn name(&self) -> (r: &str) ensures r == self.s_name() { unimplemented!() }
}
// canonical_name.as_str()
#[verifier::external_body] pub fn string_as_str(s: &String) -> (r: &str) ensures bytes_of(r) == bytes_of_string(s) { unimplemented!() }
pub uninterp spec fn bytes_of_string(s: &String) -> Seq<u8>;

} // verus!
