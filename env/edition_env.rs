// Stub environment for unit `edition` (C14): the feature-synchronisation / edition
// validation expression at the top of Builder::generate (extracted by rule R18 as the
// body of `match opts.rust_edition`).  RustFeatures::new, new_with_latest_edition and
// RustEdition::is_available are proved on the real features.rs by Kani; here they are
// uninterpreted.
verus! {

#[derive(Clone, Copy, PartialEq, Eq, Structural)]
pub struct RustTarget(pub u64);
// RustTarget is ordered (derived PartialOrd in features.rs); the order itself is not needed by the contract and left
// uninterpreted, so a comparison that starts to matter makes the obligations fail instead of the front end (env completeness)
impl vstd::std_specs::cmp::PartialOrdSpecImpl<RustTarget> for RustTarget {
    open spec fn obeys_partial_cmp_spec() -> bool { false }
    open spec fn partial_cmp_spec(&self, other: &RustTarget) -> Option<core::cmp::Ordering> { None }
}
impl core::cmp::PartialOrd for RustTarget {
    #[verifier::external_body]
    fn partial_cmp(&self, other: &RustTarget) -> (r: Option<core::cmp::Ordering>) { unimplemented!() }
}
impl RustTarget {
    pub uninterp spec fn s_latest_edition(self) -> RustEdition;
    #[verifier::external_body] pub fn latest_edition(self) -> (r: RustEdition) ensures r == self.s_latest_edition() { unimplemented!() }
}
pub const LATEST_STABLE_RUST: RustTarget = RustTarget(82);
pub const EARLIEST_STABLE_RUST: RustTarget = RustTarget(51);
#[derive(Clone, Copy, PartialEq, Eq, Structural)]
pub enum RustEdition { Edition2018, Edition2021, Edition2024 }
impl RustEdition {
    pub uninterp spec fn s_available(self, t: RustTarget) -> bool;
    #[verifier::external_body] pub fn is_available(self, t: RustTarget) -> (r: bool) ensures r == self.s_available(t) { unimplemented!() }
}
#[derive(Clone, Copy, PartialEq, Eq, Structural)]
pub struct RustFeatures(pub u64);
pub uninterp spec fn s_new(t: RustTarget, e: RustEdition) -> RustFeatures;
pub uninterp spec fn s_new_latest(t: RustTarget) -> RustFeatures;
impl RustFeatures {
    #[verifier::external_body] pub fn new(t: RustTarget, e: RustEdition) -> (r: RustFeatures) ensures r == s_new(t, e) { unimplemented!() }
    #[verifier::external_body] pub fn new_with_latest_edition(t: RustTarget) -> (r: RustFeatures) ensures r == s_new_latest(t) { unimplemented!() }
}
pub enum BindgenError { UnsupportedEdition(RustEdition, RustTarget), Other }
pub struct BindgenOptions { pub rust_edition: Option<RustEdition>, pub rust_target: RustTarget, pub rust_features: RustFeatures }
pub struct Builder { pub options: BindgenOptions }

} // verus!
