// Stub environment for unit `clang_layout` (C02, C06): the functions that read sizes,
// alignments and field offsets back from libclang.  Every libclang entry point is a
// distinct uninterpreted function of the handle (rule R20); the values are 64-bit
// (c_longlong), negative = one of libclang's CXTypeLayoutError codes.
verus! {

global size_of usize == 8;

pub type c_longlong = i64;
pub type CXTypeKind = u32;
pub const CXType_Auto: CXTypeKind = 118;
pub const CXType_LValueReference: CXTypeKind = 103;
pub const CXType_RValueReference: CXTypeKind = 104;

#[derive(Clone, Copy)] pub struct CXCursor(pub usize);
#[derive(Clone, Copy)] pub struct CXType(pub usize);
pub struct Cursor { pub x: CXCursor }
pub struct Type { pub x: CXType }

pub uninterp spec fn ffi_offset_of_field(x: CXCursor) -> c_longlong;
pub uninterp spec fn ffi_size_of(x: CXType) -> c_longlong;
pub uninterp spec fn ffi_align_of(x: CXType) -> c_longlong;
pub uninterp spec fn ffi_type_kind(x: CXType) -> CXTypeKind;
#[verifier::external_body] pub fn clang_Cursor_getOffsetOfField(x: CXCursor) -> (r: c_longlong) ensures r == ffi_offset_of_field(x) { unimplemented!() }
#[verifier::external_body] pub fn clang_Type_getSizeOf(x: CXType) -> (r: c_longlong) ensures r == ffi_size_of(x) { unimplemented!() }
#[verifier::external_body] pub fn clang_Type_getAlignOf(x: CXType) -> (r: c_longlong) ensures r == ffi_align_of(x) { unimplemented!() }
impl Type {
    pub uninterp spec fn s_non_deductible_auto(&self) -> bool;
    #[verifier::external_body] pub fn kind(&self) -> (r: CXTypeKind) ensures r == ffi_type_kind(self.x) { unimplemented!() }
    #[verifier::external_body] pub fn is_non_deductible_auto_type(&self) -> (r: bool) ensures r == self.s_non_deductible_auto() { unimplemented!() }
}
#[verifier::external_body] pub struct BindgenContext { _p: core::marker::PhantomData<()> }
impl BindgenContext {
    pub uninterp spec fn s_ptr_size(&self) -> usize;
    #[verifier::external_body] pub fn target_pointer_size(&self) -> (r: usize) ensures r == self.s_ptr_size(), 0 < r <= 16 { unimplemented!() }
}
// LayoutError::from(code): the error class of a (negative, 32-bit) libclang code
pub uninterp spec fn s_layout_error(code: i32) -> LayoutError;
impl LayoutError {
    #[verifier::external_body] pub fn from(code: i32) -> (r: LayoutError) ensures r == s_layout_error(code) { unimplemented!() }
}
pub mod crate_ir_layout {
    // crate::ir::layout::Layout::new (under contract in unit layout)
    pub struct Layout { pub size: usize, pub align: usize, pub packed: bool }
    impl Layout { pub fn new(size: usize, align: usize) -> (r: Layout) ensures r.size == size, r.align == align, !r.packed { Layout { size, align, packed: false } } }
}

} // verus!
