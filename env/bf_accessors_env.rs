// Stub environment for unit `bf_accessors` (C03): the accessor-emitting statement of
// <Bitfield as FieldCodegen>::codegen and Bitfield::extend_ctor_impl.  Each quote! template
// is an env constructor that receives the template's OWN interpolations in order of
// occurrence (rule R4q) and records which (unit field, bit offset, bit width) the emitted
// getter / setter / constructor step addresses -- determined by POSITION in the template
// (the calls `get(#a, #b)`, `set_const::<#a, #b>` take offset first, width second).
verus! {

global size_of usize == 8;

#[verifier::external_body] pub struct Tok { _p: core::marker::PhantomData<()> }
pub type Target = (Tok, int, int);   // (unit field ident, bit offset, bit width)
pub uninterp spec fn getter_target(t: Tok) -> Option<Target>;
pub uninterp spec fn setter_target(t: Tok) -> Option<Target>;
pub uninterp spec fn ctor_step_target(t: Tok) -> Option<(int, int)>;   // set_const::<offset, width> on the unit under construction
pub uninterp spec fn is_raw(t: Tok) -> bool;
// does the emitted getter sign-extend the field's bits before handing them out?  None of the four templates does:
// `get*(..)` returns the bits zero-extended in a u64, `as #int_ty` truncates, `transmute` / `as _` reinterprets at the
// full width of the declared type (transcription of the template text; see known finding F18)
pub uninterp spec fn getter_sign_extends(t: Tok) -> bool;
pub uninterp spec fn ty_is_signed(t: Tok) -> bool;

// union, wrapper style:  fn #getter(&self) -> #ty { self.#unit.as_ref().get(#o, #w) as #int as _ }   fn #setter(..) { .. self.#unit.as_mut().set(#o, #w, val as u64) }
#[verifier::external_body] pub fn q_union_accessors(a1: &Tok, a2: &Tok, a3: &Tok, unit1: &Tok, o1: &usize, w1: &u8, a7: &Tok, a8: &Tok, a9: &Tok, a10: &Tok, a11: &Tok, unit2: &Tok, o2: &usize, w2: &u8) -> (r: Tok)
    ensures getter_target(r) == Some((*unit1, *o1 as int, *w1 as int)), setter_target(r) == Some((*unit2, *o2 as int, *w2 as int)), !is_raw(r), !getter_sign_extends(r) { unimplemented!() }
// union, wrapper style, raw:  <#unit_ty>::raw_get((*addr_of!((*this).#unit)).as_ref() .., #o, #w) ..   raw_set((*addr_of_mut!((*this).#unit)).as_mut() .., #o, #w, val as u64)
#[verifier::external_body] pub fn q_union_raw_accessors(a1: &Tok, a2: &Tok, a3: &Tok, a4: &Tok, a5: &Tok, unit1: &Tok, o1: &usize, w1: &u8, a9: &Tok, a10: &Tok, a11: &Tok, a12: &Tok, a13: &Tok, a14: &Tok, a15: &Tok, unit2: &Tok, o2: &usize, w2: &u8) -> (r: Tok)
    ensures getter_target(r) == Some((*unit1, *o1 as int, *w1 as int)), setter_target(r) == Some((*unit2, *o2 as int, *w2 as int)), is_raw(r), !getter_sign_extends(r) { unimplemented!() }
// struct / Rust union:  transmute(self.#unit.get_const::<#o, #w>() as #int)    self.#unit.set_const::<#o, #w>(val as u64)
#[verifier::external_body] pub fn q_accessors(a1: &Tok, a2: &Tok, a3: &Tok, a4: &Tok, unit1: &Tok, o1: &usize, w1: &u8, a8: &Tok, a9: &Tok, a10: &Tok, a11: &Tok, a12: &Tok, unit2: &Tok, o2: &usize, w2: &u8) -> (r: Tok)
    ensures getter_target(r) == Some((*unit1, *o1 as int, *w1 as int)), setter_target(r) == Some((*unit2, *o2 as int, *w2 as int)), !is_raw(r), !getter_sign_extends(r) { unimplemented!() }
// raw:  transmute(<#unit_ty>::raw_get_const::<#o, #w>(addr_of!((*this).#unit)) as #int)   <#unit_ty>::raw_set_const::<#o, #w>(addr_of_mut!((*this).#unit), val as u64)
#[verifier::external_body] pub fn q_raw_accessors(a1: &Tok, a2: &Tok, a3: &Tok, a4: &Tok, a5: &Tok, o1: &usize, w1: &u8, a8: &Tok, unit1: &Tok, a10: &Tok, a11: &Tok, a12: &Tok, a13: &Tok, a14: &Tok, a15: &Tok, o2: &usize, w2: &u8, a18: &Tok, unit2: &Tok) -> (r: Tok)
    ensures getter_target(r) == Some((*unit1, *o1 as int, *w1 as int)), setter_target(r) == Some((*unit2, *o2 as int, *w2 as int)), is_raw(r), !getter_sign_extends(r) { unimplemented!() }
// __bindgen_bitfield_unit.set_const::<#offset, #width>({ let #p: #int = #p as _; #p as u64 });
#[verifier::external_body] pub fn q_ctor_step(o: &usize, w: &u8, p1: &Tok, int_ty: &Tok, p2: &Tok, p3: &Tok) -> (r: Tok)
    ensures ctor_step_target(r) == Some((*o as int, *w as int)) { unimplemented!() }

#[verifier::external_body] pub struct CompInfo { _p: core::marker::PhantomData<()> }
impl CompInfo {
    pub uninterp spec fn s_is_union(&self) -> bool;
    #[verifier::external_body] pub fn is_union(&self) -> (r: bool) ensures r == self.s_is_union() { unimplemented!() }
}
pub struct StructLayoutTracker { pub is_rust_union: bool }
impl StructLayoutTracker { pub fn is_rust_union(&self) -> (r: bool) ensures r == self.is_rust_union { self.is_rust_union } }
// methods.extend(Some(x)) with M = Vec<Tok> (rule R12)
pub fn extend_one(methods: &mut Vec<Tok>, x: Tok) ensures final(methods)@ == old(methods)@.push(x) { methods.push(x); }

// ---- Bitfield::extend_ctor_impl
#[derive(Clone, Copy)] pub struct TypeId(pub usize);
pub struct Layout { pub size: usize, pub align: usize, pub packed: bool }
#[verifier::external_body] pub struct Type { _p: core::marker::PhantomData<()> }
impl Type {
    pub uninterp spec fn s_layout(&self, ctx: &BindgenContext) -> Option<Layout>;
    #[verifier::external_body] pub fn layout(&self, ctx: &BindgenContext) -> (r: Option<Layout>) ensures r == self.s_layout(ctx) { unimplemented!() }
}
#[verifier::external_body] pub struct BindgenContext { _p: core::marker::PhantomData<()> }
impl BindgenContext {
    pub uninterp spec fn s_type(&self, id: TypeId) -> Type;
    #[verifier::external_body] pub fn resolve_type(&self, id: TypeId) -> (r: &Type) ensures *r == self.s_type(id) { unimplemented!() }
}
pub mod helpers {
    use super::*;
    pub uninterp spec fn s_integer_type(l: Layout) -> Option<Tok>;
    // helpers::integer_type (under contract in unit layout)
    #[verifier::external_body] pub fn integer_type(l: Layout) -> (r: Option<Tok>) ensures r == s_integer_type(l) { unimplemented!() }
}
#[verifier::external_body] pub struct Bitfield { _p: core::marker::PhantomData<()> }
impl Bitfield {
    pub uninterp spec fn s_ty(&self) -> TypeId;
    pub uninterp spec fn s_offset_into_unit(&self) -> usize;
    pub uninterp spec fn s_width(&self) -> u32;
    #[verifier::external_body] pub fn ty(&self) -> (r: TypeId) ensures r == self.s_ty() { unimplemented!() }
    #[verifier::external_body] pub fn offset_into_unit(&self) -> (r: usize) ensures r == self.s_offset_into_unit() { unimplemented!() }
    #[verifier::external_body] pub fn width(&self) -> (r: u32) ensures r == self.s_width() { unimplemented!() }
}
// the constructor body under construction: a sequence of statements
pub struct TokenStream { pub stmts: Vec<Tok> }
pub fn append_tokens(ts: &mut TokenStream, t: Tok) ensures final(ts).stmts@ == old(ts).stmts@.push(t) { ts.stmts.push(t); }

} // verus!
