// Stub environment for unit `gen_errors` (C12): the two places where generation turns a bad
// input into an error value: the input-path checks of Bindings::generate and the diagnostic
// scan of parse() (both blocks extracted by rule R18).  The file system and libclang are
// uninterpreted.
verus! {

global size_of usize == 8;

pub type CXDiagnosticSeverity = i32;
// clang-c/Index.h: enum CXDiagnosticSeverity
pub const CXDiagnostic_Ignored: i32 = 0;
pub const CXDiagnostic_Note: i32 = 1;
pub const CXDiagnostic_Warning: i32 = 2;
pub const CXDiagnostic_Error: i32 = 3;
pub const CXDiagnostic_Fatal: i32 = 4;

#[verifier::external_body] pub struct PathBuf { _p: core::marker::PhantomData<()> }
#[verifier::external_body] pub struct Path { _p: core::marker::PhantomData<()> }
pub uninterp spec fn pathbuf_of(name: Seq<char>) -> PathBuf;
impl Path {
    pub uninterp spec fn s_name(&self) -> Seq<char>;
    #[verifier::external_body] pub fn new(s: &str) -> (r: &'static Path) ensures r.s_name() == s@ { unimplemented!() }
    #[verifier::external_body] pub fn into(&self) -> (r: PathBuf) ensures r == pathbuf_of(self.s_name()) { unimplemented!() }
}
#[verifier::external_body] pub struct Permissions { _p: core::marker::PhantomData<()> }
#[verifier::external_body] pub struct Metadata { _p: core::marker::PhantomData<()> }
impl Metadata {
    pub uninterp spec fn s_is_dir(&self) -> bool;
    pub uninterp spec fn s_perms(&self) -> Permissions;
    #[verifier::external_body] pub fn is_dir(&self) -> (r: bool) ensures r == self.s_is_dir() { unimplemented!() }
    #[verifier::external_body] pub fn permissions(&self) -> (r: Permissions) ensures r == self.s_perms() { unimplemented!() }
}
// the state of the file system at the time of the call
pub uninterp spec fn fs_metadata(name: Seq<char>) -> Option<Metadata>;
pub uninterp spec fn fs_symlink_metadata(name: Seq<char>) -> Option<Metadata>;
pub uninterp spec fn s_can_read(p: Permissions) -> bool;
pub mod std { pub mod fs {
    use super::super::*;
    #[verifier::external_body] pub fn metadata(p: &Path) -> (r: Result<Metadata, ()>)
        ensures r.is_ok() == fs_metadata(p.s_name()).is_some(), r.is_ok() ==> r.unwrap() == fs_metadata(p.s_name()).unwrap() { unimplemented!() }
    // lstat: the link itself, not what it points to -- a different function of the file system state
    #[verifier::external_body] pub fn symlink_metadata(p: &Path) -> (r: Result<Metadata, ()>)
        ensures r.is_ok() == fs_symlink_metadata(p.s_name()).is_some(), r.is_ok() ==> r.unwrap() == fs_symlink_metadata(p.s_name()).unwrap() { unimplemented!() }
} }
// nested fn can_read(perms) of Bindings::generate (mode & 0o444 > 0 on unix)
#[verifier::external_body] pub fn can_read(p: &Permissions) -> (r: bool) ensures r == s_can_read(*p) { unimplemented!() }

#[verifier::external_body] pub struct HeaderName { _p: core::marker::PhantomData<()> }   // Box<str>
impl HeaderName {
    pub uninterp spec fn view(&self) -> Seq<char>;
    #[verifier::external_body] pub fn as_ref(&self) -> (r: &str) ensures r@ == self.view() { unimplemented!() }
    #[verifier::external_body] pub fn clone(&self) -> (r: HeaderName) ensures r == *self { unimplemented!() }
}
pub struct BindgenOptions { pub clang_args: Vec<HeaderName> }

pub enum BindgenError { FolderAsHeader(PathBuf), InsufficientPermissions(PathBuf), NotExist(PathBuf), ClangDiagnostic(String) }

#[verifier::external_body] pub struct Diagnostic { _p: core::marker::PhantomData<()> }
impl Diagnostic {
    pub uninterp spec fn s_format(&self) -> Seq<char>;
    pub uninterp spec fn s_severity(&self) -> i32;
    #[verifier::external_body] pub fn format(&self) -> (r: String) ensures r@ == self.s_format() { unimplemented!() }
    #[verifier::external_body] pub fn severity(&self) -> (r: CXDiagnosticSeverity) ensures r == self.s_severity() { unimplemented!() }
}
// error.get_or_insert_with(String::new); push_str(&msg); push('\n')   (string plumbing)
#[verifier::external_body]
pub fn append_line(error: &mut Option<String>, msg: &String)
    ensures final(error).is_some(),
{ unimplemented!() }
#[verifier::external_body] pub fn eprint_diag(msg: &String) { unimplemented!() }

} // verus!
