// Stub environment for unit `var_const` (C04): is a global variable immutable.  libclang types
// are opaque handles; `elem_type` of an array type is a structurally smaller type (measure
// s_depth); `[A, B].contains(&k)` on the two array kinds is is_array_kind (rule R21).
verus! {

global size_of usize == 8;

pub type CXTypeKind = u32;
pub const CXType_ConstantArray: CXTypeKind = 112;
pub const CXType_IncompleteArray: CXTypeKind = 114;
pub fn is_array_kind(k: CXTypeKind) -> (r: bool) ensures r == (k == CXType_ConstantArray || k == CXType_IncompleteArray) { k == CXType_ConstantArray || k == CXType_IncompleteArray }

pub mod clang {
    use super::*;
    #[derive(Clone, Copy)] pub struct Type { pub h: usize }
    pub uninterp spec fn s_kind(t: Type) -> CXTypeKind;
    pub uninterp spec fn s_const(t: Type) -> bool;            // the type itself is const-qualified
    pub uninterp spec fn s_elem(t: Type) -> Option<Type>;
    pub uninterp spec fn s_canonical(t: Type) -> Type;
    pub uninterp spec fn s_depth(t: Type) -> nat;             // nesting depth of the type expression
    impl Type {
        #[verifier::external_body] pub fn kind(&self) -> (r: CXTypeKind) ensures r == s_kind(*self) { unimplemented!() }
        #[verifier::external_body] pub fn is_const(&self) -> (r: bool) ensures r == s_const(*self) { unimplemented!() }
        #[verifier::external_body] pub fn elem_type(&self) -> (r: Option<Type>) ensures r == s_elem(*self), r.is_some() ==> s_depth(r.unwrap()) < s_depth(*self) { unimplemented!() }
        #[verifier::external_body] pub fn canonical_type(&self) -> (r: Type) ensures r == s_canonical(*self) { unimplemented!() }
    }
}

} // verus!
