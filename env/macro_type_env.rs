// Stub environment for unit `macro_type` (C05): the two option reads of
// default_macro_constant_type are uninterpreted.
verus! {

global size_of usize == 8;

// std widening conversions Verus has no built-in spec for (trusted: lossless)
pub assume_specification[ <i64 as core::convert::From<u32>>::from ](x: u32) -> (r: i64)
    ensures r == x as i64;
pub assume_specification[ <i64 as core::convert::From<u16>>::from ](x: u16) -> (r: i64)
    ensures r == x as i64;
pub assume_specification[ <i64 as core::convert::From<u8>>::from ](x: u8) -> (r: i64)
    ensures r == x as i64;

pub struct BindgenOptions {
    pub default_macro_constant_type: MacroTypeVariation,
    pub fit_macro_constants: bool,
}

#[verifier::external_body]
pub struct BindgenContext { _p: core::marker::PhantomData<()> }

impl BindgenContext {
    pub uninterp spec fn spec_options(&self) -> BindgenOptions;
    #[verifier::external_body]
    pub fn options(&self) -> (r: &BindgenOptions)
        ensures *r == self.spec_options(),
    { unimplemented!() }
}

// ir::layout::Layout (the three numbers clang reports)
#[derive(Clone, Copy)]
pub struct Layout { pub size: usize, pub align: usize, pub packed: bool }

} // verus!
