// Stub environment for unit `traversal` (C09): the graph walk ItemTraversal that
// computes "everything reachable from the roots along the edges the predicate
// follows" (allowlisted items, codegen items).  Generic over the REAL type
// parameters Storage and Queue, whose traits are declared here as Verus traits with
// specifications (the contracts of the trait declarations in traversal.rs):
//   TraversalStorage::add  = set insert, returns "newly discovered";
//   TraversalQueue         = a bag: push adds one occurrence, next removes SOME
//                            occurrence (so LIFO Vec and FIFO VecDeque are both covered);
//                            `Queue::default()` is named new_empty (rule R22).
// TraversalPredicate (a fn pointer type) is an opaque value applied through
// apply_predicate (uninterpreted result).  `id.trace(ctx, self, &())` is trace_item:
// the Trace impls (unverified, trusted) call self.visit_kind(to, kind) once per
// outgoing edge of `id`, in order; its contract is the fold of visit_kind's OWN proved
// effect (visit_view) over s_edges(ctx, id).
use vstd::multiset::*;
verus! {

global size_of usize == 8;

#[derive(Clone, Copy, PartialEq, Eq, Structural)]
pub struct ItemId(pub usize);

#[verifier::external_body] pub struct BindgenContext { _p: core::marker::PhantomData<()> }
#[verifier::external_body] pub struct TraversalPredicate { _p: core::marker::PhantomData<()> }
pub uninterp spec fn s_pred(p: TraversalPredicate, ctx: &BindgenContext, e: Edge) -> bool;
#[verifier::external_body] pub fn apply_predicate(p: &TraversalPredicate, ctx: &BindgenContext, e: Edge) -> (r: bool) ensures r == s_pred(*p, ctx, e) { unimplemented!() }

pub trait TraversalStorage<'ctx>: Sized {
    spec fn view(&self) -> Set<ItemId>;
    fn new(ctx: &'ctx BindgenContext) -> (r: Self) ensures r.view() == Set::<ItemId>::empty();
    fn add(&mut self, from: Option<ItemId>, item: ItemId) -> (r: bool)
        ensures final(self).view() == old(self).view().insert(item), r == !old(self).view().contains(item);
}
pub trait TraversalQueue: Sized {
    spec fn view(&self) -> Multiset<ItemId>;
    fn new_empty() -> (r: Self) ensures r.view() == Multiset::<ItemId>::empty();
    fn push(&mut self, item: ItemId) ensures final(self).view() == old(self).view().insert(item);
    fn next(&mut self) -> (r: Option<ItemId>)
        ensures r.is_none() ==> old(self).view().len() == 0 && final(self).view() == old(self).view(),
                r.is_some() ==> old(self).view().count(r.unwrap()) > 0 && final(self).view() == old(self).view().remove(r.unwrap());
}

// outgoing edges of an item, in the order its Trace impl reports them
pub uninterp spec fn s_edges(ctx: &BindgenContext, id: ItemId) -> Seq<Edge>;

#[verifier::external_body]
pub fn trace_item<'ctx, S: TraversalStorage<'ctx>, Q: TraversalQueue>(id: ItemId, ctx: &BindgenContext, tracer: &mut ItemTraversal<'ctx, S, Q>)
    ensures
        (final(tracer).seen.view(), final(tracer).queue.view()) == visit_all(old(tracer).seen.view(), old(tracer).queue.view(), old(tracer).predicate, old(tracer).ctx, s_edges(ctx, id)),
        final(tracer).ctx == old(tracer).ctx, final(tracer).predicate == old(tracer).predicate, final(tracer).currently_traversing == old(tracer).currently_traversing,
{ unimplemented!() }

pub fn runtime_assert(b: bool) requires b {}

// R13: `for x in v` over a by-value Vec
#[verifier::external_body]
#[verifier::reject_recursive_types(T)]
pub struct VecCursor<T> { _p: core::marker::PhantomData<T> }
impl<T> VecCursor<T> {
    pub uninterp spec fn all(&self) -> Seq<T>;
    pub uninterp spec fn pos(&self) -> int;
    #[verifier::external_body]
    pub fn new(v: Vec<T>) -> (r: VecCursor<T>) ensures r.all() == v@, r.pos() == 0 { unimplemented!() }
    #[verifier::external_body]
    pub fn has_next(&self) -> (r: bool) ensures r == (self.pos() < self.all().len()), 0 <= self.pos() <= self.all().len() { unimplemented!() }
    #[verifier::external_body]
    pub fn next_item(&mut self) -> (r: T)
        requires old(self).pos() < old(self).all().len(),
        ensures r == old(self).all()[old(self).pos()], final(self).pos() == old(self).pos() + 1, final(self).all() == old(self).all(),
    { unimplemented!() }
}

} // verus!
