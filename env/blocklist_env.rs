// Stub environment for unit `blocklist` (C10): Item::is_blocklisted.
// Regex matching and path computation are uninterpreted functions of their
// inputs; the Item struct carries the four fields the function reads.
verus! {

global size_of usize == 8;

#[derive(Clone, Copy, PartialEq, Eq, Structural)]
pub struct ItemId(pub usize);

#[verifier::external_body] pub struct Module { _p: core::marker::PhantomData<()> }
#[verifier::external_body] pub struct Type { _p: core::marker::PhantomData<()> }
#[verifier::external_body] pub struct Function { _p: core::marker::PhantomData<()> }
#[verifier::external_body] pub struct Var { _p: core::marker::PhantomData<()> }

#[verifier::external_body]
pub struct Annotations { _p: core::marker::PhantomData<()> }
impl Annotations {
    pub uninterp spec fn s_hide(&self) -> bool;
    #[verifier::external_body] pub fn hide(&self) -> (r: bool) ensures r == self.s_hide() { unimplemented!() }
}

pub mod clang {
    use super::*;
    #[verifier::external_body] pub struct File { _p: core::marker::PhantomData<()> }
    impl File {
        pub uninterp spec fn s_name(&self) -> Option<String>;
        #[verifier::external_body] pub fn name(&self) -> (r: Option<String>) ensures r == self.s_name() { unimplemented!() }
    }
    #[verifier::external_body] pub struct SourceLocation { _p: core::marker::PhantomData<()> }
    impl SourceLocation {
        pub uninterp spec fn s_file(&self) -> File;
        #[verifier::external_body] pub fn location(&self) -> (r: (File, usize, usize, usize)) ensures r.0 == self.s_file() { unimplemented!() }
    }
}

#[verifier::external_body]
pub struct RegexSet { _p: core::marker::PhantomData<()> }
impl RegexSet {
    pub uninterp spec fn s_empty(&self) -> bool;
    pub uninterp spec fn s_matches(&self, s: Seq<char>) -> bool;
    #[verifier::external_body] pub fn is_empty(&self) -> (r: bool) ensures r == self.s_empty() { unimplemented!() }
    // the real signature is generic over S: AsRef<str>; both call shapes used here
    #[verifier::external_body] pub fn matches(&self, s: &String) -> (r: bool) ensures r == self.s_matches(s@) { unimplemented!() }
    #[verifier::external_body] pub fn matches_owned(&self, s: String) -> (r: bool) ensures r == self.s_matches(s@) { unimplemented!() }
}

pub struct BindgenOptions {
    pub blocklisted_files: RegexSet,
    pub blocklisted_items: RegexSet,
    pub blocklisted_types: RegexSet,
    pub blocklisted_functions: RegexSet,
    pub blocklisted_vars: RegexSet,
}

#[verifier::external_body]
pub struct BindgenContext { _p: core::marker::PhantomData<()> }
impl BindgenContext {
    pub uninterp spec fn spec_options(&self) -> BindgenOptions;
    pub uninterp spec fn s_in_codegen(&self) -> bool;
    pub uninterp spec fn s_replaced(&self, path: Seq<String>, id: ItemId) -> bool;
    #[verifier::external_body] pub fn options(&self) -> (r: &BindgenOptions) ensures *r == self.spec_options() { unimplemented!() }
    #[verifier::external_body] pub fn in_codegen_phase(&self) -> (r: bool) ensures r == self.s_in_codegen() { unimplemented!() }
    #[verifier::external_body] pub fn is_replaced_type(&self, path: &Vec<String>, id: ItemId) -> (r: bool) ensures r == self.s_replaced(path@, id) { unimplemented!() }
}

pub struct Item {
    pub id: ItemId,
    pub annotations: Annotations,
    pub kind: ItemKind,
    pub location: Option<clang::SourceLocation>,
}
impl Item {
    pub uninterp spec fn s_path(&self, ctx: &BindgenContext) -> Seq<String>;
    #[verifier::external_body]
    pub fn path_for_allowlisting(&self, ctx: &BindgenContext) -> (r: &Vec<String>) ensures r@ == self.s_path(ctx) { unimplemented!() }
}
// stands for: path[1..].join("::")
pub uninterp spec fn s_joined(path: Seq<String>) -> Seq<char>;
#[verifier::external_body]
pub fn join_path_tail(path: &Vec<String>) -> (r: String) ensures r@ == s_joined(path@) { unimplemented!() }

// ---- Item::process_before_codegen / <Item as CodeGenerator>::codegen
#[verifier::external_body] pub struct ItemSet { _p: core::marker::PhantomData<()> }
impl ItemSet {
    pub uninterp spec fn s_contains(&self, id: ItemId) -> bool;
    #[verifier::external_body] pub fn contains(&self, id: &ItemId) -> (r: bool) ensures r == self.s_contains(*id) { unimplemented!() }
}
impl BindgenContext {
    pub uninterp spec fn s_codegen_items(&self) -> ItemSet;
    #[verifier::external_body] pub fn codegen_items(&self) -> (r: &ItemSet) ensures *r == self.s_codegen_items() { unimplemented!() }
}
// the generated items and the set of items already handled
pub struct CodegenResult { pub items: Vec<usize>, pub seen_items: Ghost<Set<ItemId>> }
impl CodegenResult {
    #[verifier::external_body] pub fn seen(&self, id: ItemId) -> (r: bool) ensures r == self.seen_items@.contains(id) { unimplemented!() }
    #[verifier::external_body] pub fn set_seen(&mut self, id: ItemId)
        ensures final(self).seen_items@ == old(self).seen_items@.insert(id), final(self).items@ == old(self).items@ { unimplemented!() }
}
impl Item {
    pub uninterp spec fn s_enabled(&self, ctx: &BindgenContext) -> bool;
    #[verifier::external_body] pub fn is_enabled_for_codegen(&self, ctx: &BindgenContext) -> (r: bool) ensures r == self.s_enabled(ctx) { unimplemented!() }
    pub fn id(&self) -> (r: ItemId) ensures r == self.id { self.id }
    pub fn kind(&self) -> (r: &ItemKind) ensures *r == self.kind { &self.kind }
}
// the per-kind generators: whatever they emit, they are only reached through Item::codegen
impl Module   { #[verifier::external_body] pub fn codegen(&self, ctx: &BindgenContext, result: &mut CodegenResult, item: &Item) { unimplemented!() } }
impl Function { #[verifier::external_body] pub fn codegen(&self, ctx: &BindgenContext, result: &mut CodegenResult, item: &Item) { unimplemented!() } }
impl Var      { #[verifier::external_body] pub fn codegen(&self, ctx: &BindgenContext, result: &mut CodegenResult, item: &Item) { unimplemented!() } }
impl Type     { #[verifier::external_body] pub fn codegen(&self, ctx: &BindgenContext, result: &mut CodegenResult, item: &Item) { unimplemented!() } }

} // verus!
