// Stub environment for unit `bf_getters` (C03): the getters of ir::comp::Bitfield through which code generation reads the
// numbers libclang and the allocation-unit computation stored. FieldData (the raw field record) is opaque.
verus! {

global size_of usize == 8;

#[verifier::external_body] pub struct FieldData { _p: core::marker::PhantomData<()> }
impl FieldData {
    pub uninterp spec fn s_offset(&self) -> Option<usize>;         // clang's bit offset of the field in the record
    pub uninterp spec fn s_width(&self) -> Option<u32>;            // declared bit width
    pub uninterp spec fn s_named(&self) -> bool;
    pub uninterp spec fn s_public(&self) -> bool;
    #[verifier::external_body] pub fn offset(&self) -> (r: Option<usize>) ensures r == self.s_offset() { unimplemented!() }
    #[verifier::external_body] pub fn bitfield_width(&self) -> (r: Option<u32>) ensures r == self.s_width() { unimplemented!() }
    #[verifier::external_body] pub fn name(&self) -> (r: Option<&str>) ensures r.is_some() == self.s_named() { unimplemented!() }
    #[verifier::external_body] pub fn is_public(&self) -> (r: bool) ensures r == self.s_public() { unimplemented!() }
}

// ---- CompInfo::compute_bitfield_units: which packing rule the allocation of bit-field units is run with
pub struct Layout { pub size: usize, pub align: usize, pub packed: bool }
#[verifier::external_body] pub struct BindgenContext { _p: core::marker::PhantomData<()> }
#[verifier::external_body] pub struct CompFields { _p: core::marker::PhantomData<()> }
impl CompFields {
    // the `packed` flag bitfields_to_allocation_units was run with (unit bf_alloc: its contracts are stated per flag)
    pub uninterp spec fn s_allocated_as_packed(&self) -> bool;
    #[verifier::external_body] pub fn compute_bitfield_units(&mut self, ctx: &BindgenContext, packed: bool)
        ensures final(self).s_allocated_as_packed() == packed { unimplemented!() }
}
pub struct CompInfo { pub fields: CompFields, pub packed_attr: bool }
impl CompInfo {
    // CompInfo::is_packed (under contract in unit packed): the attribute, or #pragma pack seen through the member layouts
    pub uninterp spec fn s_is_packed(&self, ctx: &BindgenContext, layout: Option<&Layout>) -> bool;
    #[verifier::external_body] pub fn is_packed(&self, ctx: &BindgenContext, layout: Option<&Layout>) -> (r: bool) ensures r == self.s_is_packed(ctx, layout) { unimplemented!() }
}

} // verus!
