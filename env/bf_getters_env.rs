// Stub environment for unit `bf_getters` (C03): the getters of ir::comp::Bitfield through which code generation reads the
// numbers libclang and the allocation-unit computation stored. FieldData (the raw field record) is opaque.
verus! {

global size_of usize == 8;

#[verifier::external_body] pub struct FieldData { _p: core::marker::PhantomData<()> }
impl FieldData {
    pub uninterp spec fn s_offset(&self) -> Option<usize>;         // clang's bit offset of the field in the record
    pub uninterp spec fn s_width(&self) -> Option<u32>;            // declared bit width
    pub uninterp spec fn s_named(&self) -> bool;
    pub uninterp spec fn s_public(&self) -> bool;
    #[verifier::external_body] pub fn offset(&self) -> (r: Option<usize>) ensures r == self.s_offset() { unimplemented!() }
    #[verifier::external_body] pub fn bitfield_width(&self) -> (r: Option<u32>) ensures r == self.s_width() { unimplemented!() }
    #[verifier::external_body] pub fn name(&self) -> (r: Option<&str>) ensures r.is_some() == self.s_named() { unimplemented!() }
    #[verifier::external_body] pub fn is_public(&self) -> (r: bool) ensures r == self.s_public() { unimplemented!() }
}

} // verus!
