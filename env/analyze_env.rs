// Stub environment for unit `analyze` (C07 iii): the worklist driver
// ir::analysis::analyze::<A>, verified ONCE for every analysis A against the
// obligations the MonotoneFramework trait places on its implementors, written here
// as a Verus trait with specifications (Verus accepts contracts on trait
// declarations, not on impls).  What the trait contract demands of an analysis:
//   (a) initial_worklist covers the node set the run must stabilise;
//   (b) constrain(n) leaves n stable (re-applying the rule at n changes nothing);
//   (c) constrain(n) == Same changes nothing; constrain(n) == Changed can
//       de-stabilise only nodes registered as depending on n (each_depending_on) --
//       this is the subscription-completeness condition the units `edges` /
//       kani subscriptions check per analysis for the edge kinds;
//   (d) the dependency graph and the node set do not change during the run.
// (b)-(d) are ASSUMED of the analyses here (they are what units has_float,
// has_tp_array, has_destructor, lattice_insert, edges establish piecewise).
// each_depending_on(node, |d| worklist.push(d)) is modelled by push_dependents
// (rule R16: a callback that pushes every element = append of the sequence).
verus! {

pub trait MonotoneFramework: Sized {
    type Node: Copy;
    type Extra;
    type Output;

    // the nodes this run has to bring to a fix-point
    spec fn nodes(&self) -> Set<Self::Node>;
    // re-applying the rule at n to the current state changes nothing
    spec fn stable(&self, n: Self::Node) -> bool;
    // reverse dependency edges (who has to be re-examined when n changes)
    spec fn deps(&self, n: Self::Node) -> Seq<Self::Node>;
    spec fn spec_output(self) -> Self::Output;

    fn new(extra: Self::Extra) -> (r: Self);

    fn initial_worklist(&self) -> (r: Vec<Self::Node>)
        ensures forall|n: Self::Node| #[trigger] self.nodes().contains(n) ==> r@.contains(n);

    fn constrain(&mut self, node: Self::Node) -> (r: ConstrainResult)
        ensures
            final(self).nodes() == old(self).nodes(),
            forall|n: Self::Node| #[trigger] final(self).deps(n) == old(self).deps(n),
            final(self).stable(node),
            r == ConstrainResult::Same ==> forall|m: Self::Node| old(self).stable(m) ==> #[trigger] final(self).stable(m),
            r == ConstrainResult::Changed ==> forall|m: Self::Node| old(self).stable(m) && !old(self).deps(node).contains(m) ==> #[trigger] final(self).stable(m);

    fn push_dependents(&self, node: Self::Node, worklist: &mut Vec<Self::Node>)
        ensures final(worklist)@ == old(worklist)@ + self.deps(node);

    // `analysis.into()` (Output: From<Self>)
    fn into_output(self) -> (r: Self::Output)
        ensures r == self.spec_output();
}

// property C07: "re-applying any rule to the final answer changes no fact"
pub open spec fn fixpoint<A: MonotoneFramework>(a: A) -> bool {
    forall|n: A::Node| a.nodes().contains(n) ==> #[trigger] a.stable(n)
}

} // verus!
