// Stub environment for unit `template_params` (C07): UsedTemplateParameters::constrain_instantiation,
// the rule "an instantiation uses what its arguments use, for those parameters the definition uses".
// ItemSet (a BTreeSet) is an opaque type with a Set view; the `used` table lookups
// (`self.used.get(&id).expect(..).as_ref().expect(..)`) are one env accessor with the function's own
// expectations as precondition; `args.iter().zip(params.iter())` is a cursor over the pairs (rule R13).
verus! {

global size_of usize == 8;

#[derive(Clone, Copy, PartialEq, Eq, Structural)]
pub struct ItemId(pub usize);
#[derive(Clone, Copy, PartialEq, Eq, Structural)]
pub struct TypeId(pub ItemId);
impl TypeId { pub fn item(self) -> (r: ItemId) ensures r == self.0 { self.0 } }

#[verifier::external_body] pub struct ItemSet { _p: core::marker::PhantomData<()> }
impl ItemSet {
    pub uninterp spec fn view(&self) -> Set<ItemId>;
    #[verifier::external_body] pub fn contains(&self, k: &ItemId) -> (r: bool) ensures r == self.view().contains(*k) { unimplemented!() }
    #[verifier::external_body] pub fn len(&self) -> (r: usize) ensures self.view().finite() ==> r == self.view().len() { unimplemented!() }
    #[verifier::external_body] pub fn insert(&mut self, k: ItemId) -> (r: bool) ensures final(self).view() == old(self).view().insert(k) { unimplemented!() }
}
// `dst.extend(src.iter())`
#[verifier::external_body] pub fn extend_from(dst: &mut ItemSet, src: &ItemSet) ensures final(dst).view() == old(dst).view().union(src.view()) { unimplemented!() }

#[verifier::external_body]
#[verifier::reject_recursive_types(K)]
#[verifier::reject_recursive_types(V)]
pub struct HashMap<K, V> { _p: core::marker::PhantomData<(K, V)> }
// the used-parameter set recorded for `id` (entries are Option<ItemSet>; None only while an id is being constrained)
pub uninterp spec fn s_used(m: &HashMap<ItemId, Option<ItemSet>>, id: ItemId) -> Option<Set<ItemId>>;
#[verifier::external_body]
pub fn used_set_of<'a>(m: &'a HashMap<ItemId, Option<ItemSet>>, id: ItemId) -> (r: &'a ItemSet)
    requires s_used(m, id).is_some(),       // the two `.expect(..)`s of the real code
    ensures r.view() == s_used(m, id).unwrap() { unimplemented!() }

#[verifier::external_body]
#[verifier::reject_recursive_types(K)]
pub struct HashSet<K> { _p: core::marker::PhantomData<K> }
#[verifier::external_body] pub struct Type { _p: core::marker::PhantomData<()> }
impl Type {
    pub uninterp spec fn s_self_params(&self, ctx: &BindgenContext) -> Seq<TypeId>;
    #[verifier::external_body] pub fn self_template_params(&self, ctx: &BindgenContext) -> (r: Vec<TypeId>) ensures r@ == self.s_self_params(ctx) { unimplemented!() }
}
#[verifier::external_body] pub struct BindgenContext { _p: core::marker::PhantomData<()> }
impl BindgenContext {
    pub uninterp spec fn s_type(&self, id: TypeId) -> Type;
    // x.into_resolver().through_type_refs().through_type_aliases().resolve(ctx).id()
    pub uninterp spec fn s_resolve(&self, id: TypeId) -> ItemId;
    #[verifier::external_body] pub fn resolve_type(&self, id: TypeId) -> (r: &Type) ensures *r == self.s_type(id) { unimplemented!() }
    #[verifier::external_body] pub fn resolve_through(&self, id: TypeId) -> (r: ItemId) ensures r == self.s_resolve(id) { unimplemented!() }
}
#[verifier::external_body] pub struct TemplateInstantiation { _p: core::marker::PhantomData<()> }
impl TemplateInstantiation {
    pub uninterp spec fn s_definition(&self) -> TypeId;
    pub uninterp spec fn s_args(&self) -> Seq<TypeId>;
    #[verifier::external_body] pub fn template_definition(&self) -> (r: TypeId) ensures r == self.s_definition() { unimplemented!() }
    #[verifier::external_body] pub fn template_arguments(&self) -> (r: &[TypeId]) ensures r@ == self.s_args() { unimplemented!() }
}
// `for (a, b) in xs.iter().zip(ys.iter())`: pairs up to the shorter length
#[verifier::external_body] pub struct ZipCursor<'a> { _p: core::marker::PhantomData<&'a ()> }
impl<'a> ZipCursor<'a> {
    pub uninterp spec fn xs(&self) -> Seq<TypeId>;
    pub uninterp spec fn ys(&self) -> Seq<TypeId>;
    pub uninterp spec fn pos(&self) -> int;
    pub open spec fn n(&self) -> int { if self.xs().len() <= self.ys().len() { self.xs().len() as int } else { self.ys().len() as int } }
    #[verifier::external_body] pub fn new(xs: &'a [TypeId], ys: &'a [TypeId]) -> (r: ZipCursor<'a>) ensures r.xs() == xs@, r.ys() == ys@, r.pos() == 0 { unimplemented!() }
    #[verifier::external_body] pub fn has_next(&self) -> (r: bool) ensures r == (self.pos() < self.n()), 0 <= self.pos() <= self.n() { unimplemented!() }
    #[verifier::external_body] pub fn next_pair(&mut self) -> (r: (&'a TypeId, &'a TypeId))
        requires old(self).pos() < old(self).n(),
        ensures *r.0 == old(self).xs()[old(self).pos()], *r.1 == old(self).ys()[old(self).pos()], final(self).pos() == old(self).pos() + 1, final(self).xs() == old(self).xs(), final(self).ys() == old(self).ys() { unimplemented!() }
}

// ---- additions for constrain / constrain_join / constrain_instantiation_of_blocklisted_template ----
impl HashSet<ItemId> {
    pub uninterp spec fn s_contains(&self, k: ItemId) -> bool;
    #[verifier::external_body] pub fn contains(&self, k: &ItemId) -> (r: bool) ensures r == self.s_contains(*k) { unimplemented!() }
}
// `self.used.get_mut(&id).expect(..).take().expect(..)`: moves id's set out of the table, leaving None
#[verifier::external_body]
pub fn take_entry(m: &mut HashMap<ItemId, Option<ItemSet>>, id: ItemId) -> (r: ItemSet)
    requires s_used(old(m), id).is_some(),      // the two `.expect(..)`s of the real code
    ensures r.view() == s_used(old(m), id).unwrap(), s_used(final(m), id).is_none(),
            forall|j: ItemId| j != id ==> s_used(final(m), j) == s_used(old(m), j) { unimplemented!() }
// `self.used.insert(id, Some(set));`
#[verifier::external_body]
pub fn put_entry(m: &mut HashMap<ItemId, Option<ItemSet>>, id: ItemId, v: ItemSet)
    ensures s_used(final(m), id) == Some(v.view()),
            forall|j: ItemId| j != id ==> s_used(final(m), j) == s_used(old(m), j) { unimplemented!() }
// `assert!(c, "..")`: not panicking is a proof obligation
pub fn assert_or_panic(c: bool) requires c { }

// the two kinds the analysis singles out; every other TypeKind is `Other`
pub enum TypeKind { TypeParam, TemplateInstantiation(TemplateInstantiation), Other }
#[verifier::external_body] pub struct Item { _p: core::marker::PhantomData<()> }
impl Item {
    pub uninterp spec fn s_id(&self) -> ItemId;
    // item.as_type().map(|ty| ty.kind()): None for items that are not types
    pub uninterp spec fn s_type_kind(&self) -> Option<TypeKind>;
    // the (successor, edge kind) pairs `item.trace(ctx, cb, &())` hands to its callback, in order
    pub uninterp spec fn s_edges(&self, ctx: &BindgenContext) -> Seq<(ItemId, EdgeKind)>;
    #[verifier::external_body] pub fn id(&self) -> (r: ItemId) ensures r == self.s_id() { unimplemented!() }
    #[verifier::external_body] pub fn type_kind(&self) -> (r: Option<&TypeKind>)
        ensures r.is_some() == self.s_type_kind().is_some(), r.is_some() ==> *r.unwrap() == self.s_type_kind().unwrap() { unimplemented!() }
    #[verifier::external_body] pub fn traced_edges(&self, ctx: &BindgenContext) -> (r: Vec<(ItemId, EdgeKind)>) ensures r@ == self.s_edges(ctx) { unimplemented!() }
}
impl BindgenContext {
    pub uninterp spec fn s_item(&self, id: ItemId) -> Item;
    #[verifier::external_body] pub fn resolve_item(&self, id: ItemId) -> (r: &Item) ensures *r == self.s_item(id), r.s_id() == id { unimplemented!() }
}

} // verus!
