// Stub environment for unit `attrs` (C04): when does a token of an unexposed attribute cursor name a given attribute.
// Byte-slice comparisons are the std operations, specified over Seq<u8> (rule R21).
verus! {

global size_of usize == 8;

pub type CXCursorKind = i32;
pub type CXTokenKind = u32;

pub struct ClangToken { pub kind: CXTokenKind, pub sp: Ghost<Seq<u8>> }
impl ClangToken {
    pub open spec fn s_spelling(&self) -> Seq<u8> { self.sp@ }
    #[verifier::external_body] pub fn spelling(&self) -> (r: &[u8]) ensures r@ == self.s_spelling() { unimplemented!() }
}
// <[u8] as PartialEq>::eq, <[u8]>::ends_with / starts_with (std: element-wise equality / suffix / prefix)
#[verifier::external_body] pub fn bytes_eq(a: &[u8], b: &[u8]) -> (r: bool) ensures r == (a@ == b@) { unimplemented!() }
#[verifier::external_body] pub fn bytes_ends_with(a: &[u8], b: &[u8]) -> (r: bool)
    ensures r == (b@.len() <= a@.len() && a@.subrange(a@.len() - b@.len(), a@.len() as int) == b@) { unimplemented!() }
#[verifier::external_body] pub fn bytes_starts_with(a: &[u8], b: &[u8]) -> (r: bool)
    ensures r == (b@.len() <= a@.len() && a@.subrange(0, b@.len() as int) == b@) { unimplemented!() }

} // verus!
