// Stub environment for unit `impl_debug` (C10, C08): the array arm of <Item as ImplDebug>::impl_debug
// (hand-written Debug impls).  What an item contributes to the format string is opaque; whether it
// contributes at all (Some/None) is the decision under contract.
verus! {

global size_of usize == 8;

#[derive(Clone, Copy, PartialEq, Eq, Structural)]
pub struct ItemId(pub usize);
#[derive(Clone, Copy, PartialEq, Eq, Structural)]
pub struct TypeId(pub ItemId);
#[verifier::external_body] pub struct Tok { _p: core::marker::PhantomData<()> }
#[verifier::external_body] pub struct Piece { _p: core::marker::PhantomData<()> }   // (String, Vec<TokenStream>)
#[verifier::external_body] pub struct BindgenContext { _p: core::marker::PhantomData<()> }
#[verifier::external_body] pub struct Item { _p: core::marker::PhantomData<()> }
impl TypeId { pub fn item(self) -> (r: ItemId) ensures r == self.0 { self.0 } }
#[verifier::external_body] pub struct ItemSet { _p: core::marker::PhantomData<()> }
impl ItemSet {
    pub uninterp spec fn view(&self) -> Set<ItemId>;
    #[verifier::external_body] pub fn contains(&self, k: &ItemId) -> (r: bool) ensures r == self.view().contains(*k) { unimplemented!() }
}
impl BindgenContext {
    // the items that will be generated (env completeness: the other way code in this file could ask "is it blocklisted")
    pub uninterp spec fn s_allowlisted(&self) -> ItemSet;
    #[verifier::external_body] pub fn allowlisted_items(&self) -> (r: &ItemSet) ensures *r == self.s_allowlisted() { unimplemented!() }
    pub uninterp spec fn s_item(&self, id: TypeId) -> Item;
    #[verifier::external_body] pub fn resolve_item(&self, id: TypeId) -> (r: &Item) ensures *r == self.s_item(id) { unimplemented!() }
}
impl Item {
    // does this item take part in a hand-written Debug impl (None: e.g. a blocklisted type, of which we do not know
    // whether it implements Debug)
    pub uninterp spec fn s_debuggable(&self, ctx: &BindgenContext) -> bool;
    pub uninterp spec fn s_tp_in_array(&self, ctx: &BindgenContext) -> bool;
    #[verifier::external_body] pub fn impl_debug(&self, ctx: &BindgenContext, name: &str) -> (r: Option<Piece>) ensures r.is_some() == self.s_debuggable(ctx) { unimplemented!() }
    #[verifier::external_body] pub fn has_type_param_in_array(&self, ctx: &BindgenContext) -> (r: bool) ensures r == self.s_tp_in_array(ctx) { unimplemented!() }
}
// format!("{name}: Array with length {len}") with no arguments
#[verifier::external_body] pub fn piece_text_only(name: &str, len: usize) -> (r: Piece) { unimplemented!() }
// the nested fn debug_print(name, &quote! { #name_ident }): prints the member with {:?}
pub uninterp spec fn prints_member(p: Piece) -> bool;
#[verifier::external_body] pub fn debug_print_member(name: &str, name_ident: &Tok) -> (r: Option<Piece>) ensures r.is_some(), prints_member(r.unwrap()) { unimplemented!() }

// ---- BitfieldUnit::impl_debug: the hand-written Debug impl reads each named bit-field through its getter
#[verifier::external_body] pub struct FmtString { _p: core::marker::PhantomData<()> }     // String (the format string; its text is not under contract)
impl FmtString {
    #[verifier::external_body] pub fn new() -> (r: FmtString) { unimplemented!() }
    #[verifier::external_body] pub fn push_str(&mut self, s: &str) { unimplemented!() }
}
// `let _ = write!(format_string, "{bitfield_name} : {{:?}}");`
#[verifier::external_body] pub fn fmt_push_member(f: &mut FmtString, name: &str) { unimplemented!() }
#[verifier::external_body] pub struct Bitfield { _p: core::marker::PhantomData<()> }
impl Bitfield {
    pub uninterp spec fn s_name(&self) -> Option<Seq<char>>;
    pub uninterp spec fn s_getter_name(&self) -> Seq<char>;
    pub uninterp spec fn s_setter_name(&self) -> Seq<char>;
    #[verifier::external_body] pub fn name(&self) -> (r: Option<&str>) ensures r.is_some() == self.s_name().is_some(), r.is_some() ==> r.unwrap()@ == self.s_name().unwrap() { unimplemented!() }
    #[verifier::external_body] pub fn getter_name(&self) -> (r: &str) ensures r@ == self.s_getter_name() { unimplemented!() }
    #[verifier::external_body] pub fn setter_name(&self) -> (r: &str) ensures r@ == self.s_setter_name() { unimplemented!() }
}
#[verifier::external_body] pub struct BitfieldUnit { _p: core::marker::PhantomData<()> }
impl BitfieldUnit {
    pub uninterp spec fn s_bitfields(&self) -> Seq<Bitfield>;
    #[verifier::external_body] pub fn bitfields(&self) -> (r: &[Bitfield]) ensures r@ == self.s_bitfields() { unimplemented!() }
}
pub uninterp spec fn ident_raw(name: Seq<char>) -> Tok;
impl BindgenContext {
    #[verifier::external_body] pub fn rust_ident_raw(&self, name: &str) -> (r: Tok) ensures r == ident_raw(name@) { unimplemented!() }
    #[verifier::external_body] pub fn rust_ident(&self, name: &str) -> (r: Tok) { unimplemented!() }
}
// quote! { self.#name_ident () }: a call of the method of that name on self
pub uninterp spec fn calls_method(t: Tok) -> Option<Tok>;
#[verifier::external_body] pub fn q_call_method_on_self(name_ident: &Tok) -> (r: Tok) ensures calls_method(r) == Some(*name_ident) { unimplemented!() }
// `for (i, x) in xs.iter().enumerate()`: position + element (rule R13)
#[verifier::external_body] pub struct EnumCursor<'a> { _p: core::marker::PhantomData<&'a ()> }
impl<'a> EnumCursor<'a> {
    pub uninterp spec fn all(&self) -> Seq<Bitfield>;
    pub uninterp spec fn pos(&self) -> int;
    #[verifier::external_body] pub fn new(v: &'a [Bitfield]) -> (r: EnumCursor<'a>) ensures r.all() == v@, r.pos() == 0 { unimplemented!() }
    #[verifier::external_body] pub fn has_next(&self) -> (r: bool) ensures r == (self.pos() < self.all().len()), 0 <= self.pos() <= self.all().len() { unimplemented!() }
    #[verifier::external_body] pub fn next_pair(&mut self) -> (r: (usize, &'a Bitfield))
        requires old(self).pos() < old(self).all().len(),
        ensures r.0 == old(self).pos(), *r.1 == old(self).all()[old(self).pos()], final(self).pos() == old(self).pos() + 1, final(self).all() == old(self).all() { unimplemented!() }
}

// ---- the template-instantiation arm
#[verifier::external_body] pub struct TemplateInstantiation { _p: core::marker::PhantomData<()> }
impl TemplateInstantiation {
    pub uninterp spec fn s_args(&self) -> Seq<TypeId>;
    pub uninterp spec fn s_opaque(&self, ctx: &BindgenContext, item: &Item) -> bool;
    #[verifier::external_body] pub fn template_arguments(&self) -> (r: &[TypeId]) ensures r@ == self.s_args() { unimplemented!() }
    #[verifier::external_body] pub fn is_opaque(&self, ctx: &BindgenContext, item: &Item) -> (r: bool) ensures r == self.s_opaque(ctx, item) { unimplemented!() }
}
// format!("{name}: opaque") with no arguments
#[verifier::external_body] pub fn piece_opaque(name: &str) -> (r: Piece) ensures !prints_member(r) { unimplemented!() }
// `for arg in xs` over a slice of type ids (rule R13)
#[verifier::external_body] pub struct IdCursor<'a> { _p: core::marker::PhantomData<&'a ()> }
impl<'a> IdCursor<'a> {
    pub uninterp spec fn all(&self) -> Seq<TypeId>;
    pub uninterp spec fn pos(&self) -> int;
    #[verifier::external_body] pub fn new(v: &'a [TypeId]) -> (r: IdCursor<'a>) ensures r.all() == v@, r.pos() == 0 { unimplemented!() }
    #[verifier::external_body] pub fn has_next(&self) -> (r: bool) ensures r == (self.pos() < self.all().len()), 0 <= self.pos() <= self.all().len() { unimplemented!() }
    #[verifier::external_body] pub fn next_item(&mut self) -> (r: &'a TypeId)
        requires old(self).pos() < old(self).all().len(),
        ensures *r == old(self).all()[old(self).pos()], final(self).pos() == old(self).pos() + 1, final(self).all() == old(self).all() { unimplemented!() }
}

} // verus!
