// Stub environment for unit `impl_debug` (C10, C08): the array arm of <Item as ImplDebug>::impl_debug
// (hand-written Debug impls).  What an item contributes to the format string is opaque; whether it
// contributes at all (Some/None) is the decision under contract.
verus! {

global size_of usize == 8;

#[derive(Clone, Copy, PartialEq, Eq, Structural)]
pub struct ItemId(pub usize);
#[derive(Clone, Copy, PartialEq, Eq, Structural)]
pub struct TypeId(pub ItemId);
#[verifier::external_body] pub struct Tok { _p: core::marker::PhantomData<()> }
#[verifier::external_body] pub struct Piece { _p: core::marker::PhantomData<()> }   // (String, Vec<TokenStream>)
#[verifier::external_body] pub struct BindgenContext { _p: core::marker::PhantomData<()> }
#[verifier::external_body] pub struct Item { _p: core::marker::PhantomData<()> }
impl BindgenContext {
    pub uninterp spec fn s_item(&self, id: TypeId) -> Item;
    #[verifier::external_body] pub fn resolve_item(&self, id: TypeId) -> (r: &Item) ensures *r == self.s_item(id) { unimplemented!() }
}
impl Item {
    // does this item take part in a hand-written Debug impl (None: e.g. a blocklisted type, of which we do not know
    // whether it implements Debug)
    pub uninterp spec fn s_debuggable(&self, ctx: &BindgenContext) -> bool;
    pub uninterp spec fn s_tp_in_array(&self, ctx: &BindgenContext) -> bool;
    #[verifier::external_body] pub fn impl_debug(&self, ctx: &BindgenContext, name: &str) -> (r: Option<Piece>) ensures r.is_some() == self.s_debuggable(ctx) { unimplemented!() }
    #[verifier::external_body] pub fn has_type_param_in_array(&self, ctx: &BindgenContext) -> (r: bool) ensures r == self.s_tp_in_array(ctx) { unimplemented!() }
}
// format!("{name}: Array with length {len}") with no arguments
#[verifier::external_body] pub fn piece_text_only(name: &str, len: usize) -> (r: Piece) { unimplemented!() }
// the nested fn debug_print(name, &quote! { #name_ident }): prints the member with {:?}
pub uninterp spec fn prints_member(p: Piece) -> bool;
#[verifier::external_body] pub fn debug_print_member(name: &str, name_ident: &Tok) -> (r: Option<Piece>) ensures r.is_some(), prints_member(r.unwrap()) { unimplemented!() }

} // verus!
