// Stub environment for units `has_float` / `has_tp_array` / `has_destructor`
// (C07: the constrain rules of the set-valued analyses).  The IR is read through
// uninterpreted accessors; "does any base / field / template argument already
// have the fact" (iterator chains with closures in the real code) are
// uninterpreted functions of (current fact set, node) -- rule R5.
verus! {

global size_of usize == 8;

#[derive(Clone, Copy, PartialEq, Eq, Structural)]
pub struct ItemId(pub usize);
#[derive(Clone, Copy, PartialEq, Eq, Structural)]
pub struct TypeId(pub ItemId);
impl TypeId {
    // stands for `.into()` (TypeId -> ItemId)
    pub fn item(self) -> (r: ItemId) ensures r == self.0 { self.0 }
}

#[verifier::external_body] pub struct Enum { _p: core::marker::PhantomData<()> }
#[verifier::external_body] pub struct ObjCInterface { _p: core::marker::PhantomData<()> }
#[verifier::external_body] pub struct Cursor { _p: core::marker::PhantomData<()> }
#[verifier::external_body] pub struct FunctionSig { _p: core::marker::PhantomData<()> }
pub mod clang { #[verifier::external_body] pub struct Type { _p: core::marker::PhantomData<()> } }
pub enum IntKind { Int, Other }
pub enum FloatKind { Float16, Float, Double, LongDouble, Float128 }

#[verifier::external_body] pub struct CompInfo { _p: core::marker::PhantomData<()> }
impl CompInfo {
    pub uninterp spec fn s_own_destructor(&self) -> bool;
    pub uninterp spec fn s_kind(&self) -> CompKind;
    #[verifier::external_body] pub fn has_own_destructor(&self) -> (r: bool) ensures r == self.s_own_destructor() { unimplemented!() }
    #[verifier::external_body] pub fn kind(&self) -> (r: CompKind) ensures r == self.s_kind() { unimplemented!() }
}
#[derive(Clone, Copy, PartialEq, Eq, Structural)]
pub enum CompKind { Struct, Union }
#[verifier::external_body] pub struct TemplateInstantiation { _p: core::marker::PhantomData<()> }
impl TemplateInstantiation {
    pub uninterp spec fn s_definition(&self) -> TypeId;
    #[verifier::external_body] pub fn template_definition(&self) -> (r: TypeId) ensures r == self.s_definition() { unimplemented!() }
}

#[verifier::external_body] pub struct Type { _p: core::marker::PhantomData<()> }
impl Type {
    pub uninterp spec fn s_kind(&self) -> TypeKind;
    pub uninterp spec fn s_canonical(&self, ctx: &BindgenContext) -> Type;
    #[verifier::external_body] pub fn kind(&self) -> (r: &TypeKind) ensures *r == self.s_kind() { unimplemented!() }
    #[verifier::external_body] pub fn canonical_type(&self, ctx: &BindgenContext) -> (r: &Type) ensures *r == self.s_canonical(ctx) { unimplemented!() }
}
#[verifier::external_body] pub struct Item { _p: core::marker::PhantomData<()> }
impl Item {
    pub uninterp spec fn s_as_type(&self) -> Option<Type>;
    #[verifier::external_body] pub fn as_type(&self) -> (r: Option<&Type>)
        ensures r.is_some() == self.s_as_type().is_some(), r.is_some() ==> *r.unwrap() == self.s_as_type().unwrap() { unimplemented!() }
}
#[verifier::external_body] pub struct BindgenContext { _p: core::marker::PhantomData<()> }
impl BindgenContext {
    pub uninterp spec fn s_item(&self, id: ItemId) -> Item;
    pub uninterp spec fn s_type(&self, id: TypeId) -> Type;
    #[verifier::external_body] pub fn resolve_item(&self, id: ItemId) -> (r: &Item) ensures *r == self.s_item(id) { unimplemented!() }
    #[verifier::external_body] pub fn resolve_type(&self, id: TypeId) -> (r: &Type) ensures *r == self.s_type(id) { unimplemented!() }
}

// the incremental fact set
#[verifier::external_body]
#[verifier::reject_recursive_types(K)]
pub struct HashSet<K> { _p: core::marker::PhantomData<K> }
impl HashSet<ItemId> {
    pub uninterp spec fn view(&self) -> Set<ItemId>;
    #[verifier::external_body] pub fn contains(&self, k: &ItemId) -> (r: bool) ensures r == self.view().contains(*k) { unimplemented!() }
    #[verifier::external_body] pub fn insert(&mut self, k: ItemId) -> (r: bool)
        ensures final(self).view() == old(self).view().insert(k), r == !old(self).view().contains(k) { unimplemented!() }
}
#[verifier::external_body]
#[verifier::reject_recursive_types(K)]
#[verifier::reject_recursive_types(V)]
pub struct HashMap<K, V> { _p: core::marker::PhantomData<(K, V)> }

// stands for: info.base_members().iter().any(|base| self.<set>.contains(&base.ty.into()))
pub uninterp spec fn s_any_base(s: Set<ItemId>, info: &CompInfo) -> bool;
#[verifier::external_body] pub fn any_base_in(s: &HashSet<ItemId>, info: &CompInfo) -> (r: bool) ensures r == s_any_base(s.view(), info) { unimplemented!() }
// stands for: info.fields().iter().any(|f| match *f { DataMember(d) => set.contains(d.ty), Bitfields(u) => u.bitfields().iter().any(..) })
pub uninterp spec fn s_any_field(s: Set<ItemId>, info: &CompInfo) -> bool;
#[verifier::external_body] pub fn any_field_in(s: &HashSet<ItemId>, info: &CompInfo) -> (r: bool) ensures r == s_any_field(s.view(), info) { unimplemented!() }
// stands for: template.template_arguments().iter().any(|arg| set.contains(&arg.into()))
pub uninterp spec fn s_any_arg(s: Set<ItemId>, t: &TemplateInstantiation) -> bool;
#[verifier::external_body] pub fn any_arg_in(s: &HashSet<ItemId>, t: &TemplateInstantiation) -> (r: bool) ensures r == s_any_arg(s.view(), t) { unimplemented!() }

pub fn runtime_assert(b: bool) requires b {}

} // verus!
