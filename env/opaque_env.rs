// Stub environment for unit `opaque` (C10): the decision "is this item/type opaque".
// Annotation reads, the --opaque-type name match and the recursive queries on other
// items (template instantiation, compound, referenced type) are uninterpreted.
verus! {

global size_of usize == 8;

#[derive(Clone, Copy, PartialEq, Eq, Structural)]
pub struct ItemId(pub usize);
#[derive(Clone, Copy, PartialEq, Eq, Structural)]
pub struct TypeId(pub ItemId);
impl TypeId {
    pub uninterp spec fn s_opaque(&self, ctx: &BindgenContext) -> bool;
    #[verifier::external_body] pub fn is_opaque(&self, ctx: &BindgenContext, _e: &()) -> (r: bool) ensures r == self.s_opaque(ctx) { unimplemented!() }
}
pub struct Layout { pub size: usize, pub align: usize, pub packed: bool }

#[verifier::external_body] pub struct Enum { _p: core::marker::PhantomData<()> }
#[verifier::external_body] pub struct ObjCInterface { _p: core::marker::PhantomData<()> }
#[verifier::external_body] pub struct Cursor { _p: core::marker::PhantomData<()> }
#[verifier::external_body] pub struct FunctionSig { _p: core::marker::PhantomData<()> }
pub mod clang { #[verifier::external_body] pub struct Type { _p: core::marker::PhantomData<()> } }
pub enum IntKind { Int, Other }
pub enum FloatKind { Float16, Float, Double, LongDouble, Float128 }

#[verifier::external_body] pub struct CompInfo { _p: core::marker::PhantomData<()> }
impl CompInfo {
    pub uninterp spec fn s_opaque(&self, ctx: &BindgenContext, layout: Option<Layout>) -> bool;
    #[verifier::external_body] pub fn is_opaque(&self, ctx: &BindgenContext, layout: &Option<Layout>) -> (r: bool) ensures r == self.s_opaque(ctx, *layout) { unimplemented!() }
}
#[verifier::external_body] pub struct TemplateInstantiation { _p: core::marker::PhantomData<()> }
impl TemplateInstantiation {
    pub uninterp spec fn s_opaque(&self, ctx: &BindgenContext, item: &Item) -> bool;
    #[verifier::external_body] pub fn is_opaque(&self, ctx: &BindgenContext, item: &Item) -> (r: bool) ensures r == self.s_opaque(ctx, item) { unimplemented!() }
}

#[verifier::external_body] pub struct Annotations { _p: core::marker::PhantomData<()> }
impl Annotations {
    pub uninterp spec fn s_opaque(&self) -> bool;     // <div rustbindgen opaque>
    #[verifier::external_body] pub fn opaque(&self) -> (r: bool) ensures r == self.s_opaque() { unimplemented!() }
}
#[verifier::external_body] pub struct PathVec { _p: core::marker::PhantomData<()> }
pub struct Item { pub annotations: Annotations, pub ty: Option<Type> }
impl Item {
    pub uninterp spec fn s_path(&self, ctx: &BindgenContext) -> PathVec;
    pub fn as_type(&self) -> (r: Option<&Type>) ensures r.is_some() == self.ty.is_some(), r.is_some() ==> *r.unwrap() == self.ty.unwrap()
    { match &self.ty { Some(t) => Some(t), None => None } }
    #[verifier::external_body] pub fn path_for_allowlisting(&self, ctx: &BindgenContext) -> (r: &PathVec) ensures *r == self.s_path(ctx) { unimplemented!() }
}
#[verifier::external_body] pub struct BindgenContext { _p: core::marker::PhantomData<()> }
impl BindgenContext {
    pub uninterp spec fn s_in_codegen(&self) -> bool;
    pub uninterp spec fn s_opaque_by_name(&self, p: PathVec) -> bool;   // matched by an --opaque-type pattern
    #[verifier::external_body] pub fn in_codegen_phase(&self) -> (r: bool) ensures r == self.s_in_codegen() { unimplemented!() }
    #[verifier::external_body] pub fn opaque_by_name(&self, p: &PathVec) -> (r: bool) ensures r == self.s_opaque_by_name(*p) { unimplemented!() }
}

} // verus!
