// Stub environment for unit `roots` (C09): the root-selection predicate of
// compute_allowlisted_and_codegen_items (a closure, extracted by rule R18).
verus! {

global size_of usize == 8;

#[derive(Clone, Copy, PartialEq, Eq, Structural)]
pub struct ItemId(pub usize);
#[derive(Clone, Copy, PartialEq, Eq, Structural)]
pub struct TypeId(pub ItemId);

#[verifier::external_body] pub struct Module { _p: core::marker::PhantomData<()> }
#[verifier::external_body] pub struct Function { _p: core::marker::PhantomData<()> }
#[verifier::external_body] pub struct Var { _p: core::marker::PhantomData<()> }
#[verifier::external_body] pub struct Cursor { _p: core::marker::PhantomData<()> }
#[verifier::external_body] pub struct CompInfo { _p: core::marker::PhantomData<()> }
#[verifier::external_body] pub struct FunctionSig { _p: core::marker::PhantomData<()> }
#[verifier::external_body] pub struct TemplateInstantiation { _p: core::marker::PhantomData<()> }
#[verifier::external_body] pub struct ObjCInterface { _p: core::marker::PhantomData<()> }
#[verifier::external_body] pub struct Enum { _p: core::marker::PhantomData<()> }
pub enum IntKind { Int, Other }
pub enum FloatKind { Float16, Float, Double, LongDouble, Float128 }

pub mod clang {
    use super::*;
    #[verifier::external_body] pub struct Type { _p: core::marker::PhantomData<()> }
    #[verifier::external_body] pub struct File { _p: core::marker::PhantomData<()> }
    impl File {
        pub uninterp spec fn s_name(&self) -> Option<String>;
        #[verifier::external_body] pub fn name(&self) -> (r: Option<String>) ensures r == self.s_name() { unimplemented!() }
    }
    #[verifier::external_body] pub struct SourceLocation { _p: core::marker::PhantomData<()> }
    impl SourceLocation {
        pub uninterp spec fn s_file(&self) -> File;
        #[verifier::external_body] pub fn location(&self) -> (r: (File, usize, usize, usize)) ensures r.0 == self.s_file() { unimplemented!() }
    }
}

#[verifier::external_body] pub struct Annotations { _p: core::marker::PhantomData<()> }
impl Annotations {
    pub uninterp spec fn s_use_instead_of(&self) -> bool;
    #[verifier::external_body] pub fn use_instead_of(&self) -> (r: Option<&Vec<String>>) ensures r.is_some() == self.s_use_instead_of() { unimplemented!() }
}

#[verifier::external_body] pub struct RegexSet { _p: core::marker::PhantomData<()> }
impl RegexSet {
    pub uninterp spec fn s_empty(&self) -> bool;
    pub uninterp spec fn s_matches(&self, s: Seq<char>) -> bool;
    #[verifier::external_body] pub fn is_empty(&self) -> (r: bool) ensures r == self.s_empty() { unimplemented!() }
    #[verifier::external_body] pub fn matches(&self, s: &String) -> (r: bool) ensures r == self.s_matches(s@) { unimplemented!() }
    #[verifier::external_body] pub fn matches_owned(&self, s: String) -> (r: bool) ensures r == self.s_matches(s@) { unimplemented!() }
}

pub struct BindgenOptions {
    pub allowlisted_types: RegexSet, pub allowlisted_functions: RegexSet, pub allowlisted_vars: RegexSet,
    pub allowlisted_files: RegexSet, pub allowlisted_items: RegexSet, pub allowlist_recursively: bool,
}

#[verifier::external_body] pub struct Type { _p: core::marker::PhantomData<()> }
impl Type {
    pub uninterp spec fn s_kind(&self) -> TypeKind;
    pub uninterp spec fn s_named(&self) -> bool;
    #[verifier::external_body] pub fn kind(&self) -> (r: &TypeKind) ensures *r == self.s_kind() { unimplemented!() }
    #[verifier::external_body] pub fn name(&self) -> (r: Option<&str>) ensures r.is_some() == self.s_named() { unimplemented!() }
}

#[verifier::external_body] pub struct Item { _p: core::marker::PhantomData<()> }
impl Item {
    pub uninterp spec fn s_annotations(&self) -> Annotations;
    pub uninterp spec fn s_location(&self) -> Option<clang::SourceLocation>;
    pub uninterp spec fn s_path(&self, ctx: &BindgenContext) -> Seq<String>;
    pub uninterp spec fn s_kind(&self) -> ItemKind;
    pub uninterp spec fn s_parent(&self) -> ItemId;
    pub uninterp spec fn s_is_module(&self) -> bool;
    #[verifier::external_body] pub fn annotations(&self) -> (r: &Annotations) ensures *r == self.s_annotations() { unimplemented!() }
    #[verifier::external_body] pub fn location(&self) -> (r: Option<&clang::SourceLocation>)
        ensures r.is_some() == self.s_location().is_some(), r.is_some() ==> *r.unwrap() == self.s_location().unwrap() { unimplemented!() }
    #[verifier::external_body] pub fn path_for_allowlisting(&self, ctx: &BindgenContext) -> (r: &Vec<String>) ensures r@ == self.s_path(ctx) { unimplemented!() }
    #[verifier::external_body] pub fn kind(&self) -> (r: &ItemKind) ensures *r == self.s_kind() { unimplemented!() }
    #[verifier::external_body] pub fn parent_id(&self) -> (r: ItemId) ensures r == self.s_parent() { unimplemented!() }
    #[verifier::external_body] pub fn is_module(&self) -> (r: bool) ensures r == self.s_is_module() { unimplemented!() }
}

#[verifier::external_body] pub struct BindgenContext { _p: core::marker::PhantomData<()> }
impl BindgenContext {
    pub uninterp spec fn spec_options(&self) -> BindgenOptions;
    pub uninterp spec fn s_item(&self, id: ItemId) -> Item;
    pub uninterp spec fn s_stdint(&self, name: Seq<char>) -> bool;
    #[verifier::external_body] pub fn options(&self) -> (r: &BindgenOptions) ensures *r == self.spec_options() { unimplemented!() }
    #[verifier::external_body] pub fn resolve_item(&self, id: ItemId) -> (r: &Item) ensures *r == self.s_item(id) { unimplemented!() }
    #[verifier::external_body] pub fn is_stdint_type(&self, name: &String) -> (r: bool) ensures r == self.s_stdint(name@) { unimplemented!() }
}

// stands for: path[1..].join("::")
pub uninterp spec fn s_joined(path: Seq<String>) -> Seq<char>;
#[verifier::external_body]
pub fn join_path_tail(path: &Vec<String>) -> (r: String) ensures r@ == s_joined(path@) { unimplemented!() }
// stands for the unnamed-enum clause: some variant's path (parent path + variant name) matches
// --allowlist-var or --allowlist-item (clone/push/join/pop loop in the real closure)
pub uninterp spec fn s_variant_allowlisted(ctx: &BindgenContext, parent: &Item, e: &Enum) -> bool;
#[verifier::external_body]
pub fn unnamed_enum_variant_allowlisted(ctx: &BindgenContext, parent: &Item, e: &Enum) -> (r: bool) ensures r == s_variant_allowlisted(ctx, parent, e) { unimplemented!() }

} // verus!
