// Stub environment for unit `constrain` (C08, C10): the per-type rule
// CannotDerive::constrain_type.  Every IR/context read is an uninterpreted
// function of the item/type; the analysis' own table (`self.can_derive`) is
// read through one accessor; constrain_join (a closure over Trace) is an
// uninterpreted function of (item, which-edge-predicate).
verus! {

global size_of usize == 8;

#[derive(Clone, Copy, PartialEq, Eq, Structural)]
pub struct ItemId(pub usize);
#[derive(Clone, Copy, PartialEq, Eq, Structural)]
pub struct TypeId(pub ItemId);
impl ItemId {
    #[verifier::external_body]
    pub fn expect_type_id(&self, ctx: &BindgenContext) -> (r: TypeId) ensures r == TypeId(*self) { unimplemented!() }
}

// payload types of TypeKind that this rule only passes along
#[verifier::external_body] pub struct Enum { _p: core::marker::PhantomData<()> }
#[verifier::external_body] pub struct TemplateInstantiation { _p: core::marker::PhantomData<()> }
#[verifier::external_body] pub struct ObjCInterface { _p: core::marker::PhantomData<()> }
#[verifier::external_body] pub struct Cursor { _p: core::marker::PhantomData<()> }
pub mod clang { #[verifier::external_body] pub struct Type { _p: core::marker::PhantomData<()> } }
pub enum IntKind { Int, Other }
pub enum FloatKind { Float16, Float, Double, LongDouble, Float128 }

#[verifier::external_body]
pub struct FunctionSig { _p: core::marker::PhantomData<()> }
impl FunctionSig {
    pub uninterp spec fn s_fnptr_can_derive(&self) -> bool;
    #[verifier::external_body]
    pub fn function_pointers_can_derive(&self) -> (r: bool) ensures r == self.s_fnptr_can_derive() { unimplemented!() }
}

#[verifier::external_body]
pub struct CompInfo { _p: core::marker::PhantomData<()> }
impl CompInfo {
    pub uninterp spec fn s_non_type_tparams(&self) -> bool;
    pub uninterp spec fn s_forward_decl(&self) -> bool;
    pub uninterp spec fn s_kind(&self) -> CompKind;
    pub uninterp spec fn s_self_tparams_empty(&self, ctx: &BindgenContext) -> bool;
    pub uninterp spec fn s_large_bitfield_unit(&self) -> bool;
    #[verifier::external_body] pub fn has_non_type_template_params(&self) -> (r: bool) ensures r == self.s_non_type_tparams() { unimplemented!() }
    #[verifier::external_body] pub fn is_forward_declaration(&self) -> (r: bool) ensures r == self.s_forward_decl() { unimplemented!() }
    #[verifier::external_body] pub fn kind(&self) -> (r: CompKind) ensures r == self.s_kind() { unimplemented!() }
    #[verifier::external_body] pub fn self_template_params(&self, ctx: &BindgenContext) -> (r: Vec<TypeId>) ensures (r@.len() == 0) == self.s_self_tparams_empty(ctx) { unimplemented!() }
    #[verifier::external_body] pub fn has_too_large_bitfield_unit(&self) -> (r: bool) ensures r == self.s_large_bitfield_unit() { unimplemented!() }
    // info.is_packed(ctx, ty.layout(ctx).as_ref()): packed attribute, or #pragma pack seen through the layout of `ty`
    pub uninterp spec fn s_packed(&self, ctx: &BindgenContext, ty: &Type) -> bool;
    #[verifier::external_body] pub fn is_packed_for(&self, ctx: &BindgenContext, ty: &Type) -> (r: bool) ensures r == self.s_packed(ctx, ty) { unimplemented!() }
}

#[verifier::external_body]
pub struct Type { _p: core::marker::PhantomData<()> }
impl Type {
    pub uninterp spec fn s_kind(&self) -> TypeKind;
    pub uninterp spec fn s_is_union(&self) -> bool;
    pub uninterp spec fn s_canonical(&self, ctx: &BindgenContext) -> Type;
    #[verifier::external_body] pub fn kind(&self) -> (r: &TypeKind) ensures *r == self.s_kind() { unimplemented!() }
    #[verifier::external_body] pub fn is_union(&self) -> (r: bool) ensures r == self.s_is_union() { unimplemented!() }
    #[verifier::external_body] pub fn canonical_type(&self, ctx: &BindgenContext) -> (r: &Type) ensures *r == self.s_canonical(ctx) { unimplemented!() }
}

#[verifier::external_body]
pub struct Item { _p: core::marker::PhantomData<()> }
impl Item {
    pub uninterp spec fn s_id(&self) -> ItemId;
    pub uninterp spec fn s_opaque(&self, ctx: &BindgenContext) -> bool;
    pub uninterp spec fn s_all_tparams_empty(&self, ctx: &BindgenContext) -> bool;
    pub uninterp spec fn s_has_vtable(&self, ctx: &BindgenContext) -> bool;
    #[verifier::external_body] pub fn id(&self) -> (r: ItemId) ensures r == self.s_id() { unimplemented!() }
    #[verifier::external_body] pub fn is_opaque(&self, ctx: &BindgenContext, _e: &()) -> (r: bool) ensures r == self.s_opaque(ctx) { unimplemented!() }
    #[verifier::external_body] pub fn all_template_params(&self, ctx: &BindgenContext) -> (r: Vec<TypeId>) ensures (r@.len() == 0) == self.s_all_tparams_empty(ctx) { unimplemented!() }
    #[verifier::external_body] pub fn has_vtable(&self, ctx: &BindgenContext) -> (r: bool) ensures r == self.s_has_vtable(ctx) { unimplemented!() }
    // the finished Copy analysis (it runs before the other traits') and the `nocopy` annotation: does the item GET Copy
    pub uninterp spec fn s_can_derive_copy(&self, ctx: &BindgenContext) -> bool;
    pub uninterp spec fn s_disallow_copy(&self) -> bool;
    #[verifier::external_body] pub fn can_derive_copy(&self, ctx: &BindgenContext) -> (r: bool) ensures r == self.s_can_derive_copy(ctx) { unimplemented!() }
    #[verifier::external_body] pub fn annotations(&self) -> (r: Annotations) ensures r.nocopy == self.s_disallow_copy() { unimplemented!() }
}
pub struct Annotations { pub nocopy: bool }
impl Annotations { pub fn disallow_copy(&self) -> (r: bool) ensures r == self.nocopy { self.nocopy } }

pub struct BindgenOptions { pub untagged_union: bool }

#[verifier::external_body]
pub struct ItemSet { _p: core::marker::PhantomData<()> }
impl ItemSet {
    pub uninterp spec fn s_contains(&self, id: ItemId) -> bool;
    #[verifier::external_body] pub fn contains(&self, id: &ItemId) -> (r: bool) ensures r == self.s_contains(*id) { unimplemented!() }
}

#[verifier::external_body]
pub struct BindgenContext { _p: core::marker::PhantomData<()> }
impl BindgenContext {
    pub uninterp spec fn spec_options(&self) -> BindgenOptions;
    pub uninterp spec fn s_allowlisted(&self) -> ItemSet;
    pub uninterp spec fn s_blocklisted_implements(&self, item: &Item, t: DeriveTrait) -> CanDerive;
    pub uninterp spec fn s_no_copy(&self, item: &Item) -> bool;
    pub uninterp spec fn s_no_debug(&self, item: &Item) -> bool;
    pub uninterp spec fn s_no_default(&self, item: &Item) -> bool;
    pub uninterp spec fn s_no_hash(&self, item: &Item) -> bool;
    pub uninterp spec fn s_no_partialeq(&self, item: &Item) -> bool;
    pub uninterp spec fn s_type(&self, id: TypeId) -> Type;
    pub uninterp spec fn s_has_destructor(&self, id: TypeId) -> bool;
    #[verifier::external_body] pub fn options(&self) -> (r: &BindgenOptions) ensures *r == self.spec_options() { unimplemented!() }
    #[verifier::external_body] pub fn allowlisted_items(&self) -> (r: &ItemSet) ensures *r == self.s_allowlisted() { unimplemented!() }
    #[verifier::external_body] pub fn blocklisted_type_implements_trait(&self, item: &Item, t: DeriveTrait) -> (r: CanDerive) ensures r == self.s_blocklisted_implements(item, t) { unimplemented!() }
    #[verifier::external_body] pub fn no_copy_by_name(&self, item: &Item) -> (r: bool) ensures r == self.s_no_copy(item) { unimplemented!() }
    #[verifier::external_body] pub fn no_debug_by_name(&self, item: &Item) -> (r: bool) ensures r == self.s_no_debug(item) { unimplemented!() }
    #[verifier::external_body] pub fn no_default_by_name(&self, item: &Item) -> (r: bool) ensures r == self.s_no_default(item) { unimplemented!() }
    #[verifier::external_body] pub fn no_hash_by_name(&self, item: &Item) -> (r: bool) ensures r == self.s_no_hash(item) { unimplemented!() }
    #[verifier::external_body] pub fn no_partialeq_by_name(&self, item: &Item) -> (r: bool) ensures r == self.s_no_partialeq(item) { unimplemented!() }
    #[verifier::external_body] pub fn resolve_type(&self, id: TypeId) -> (r: &Type) ensures *r == self.s_type(id) { unimplemented!() }
    #[verifier::external_body] pub fn lookup_has_destructor(&self, id: TypeId) -> (r: bool) ensures r == self.s_has_destructor(id) { unimplemented!() }
}

// the analysis' own incremental table; absent = CanDerive::default() = Yes
#[verifier::external_body]
#[verifier::reject_recursive_types(K)]
#[verifier::reject_recursive_types(V)]
pub struct HashMap<K, V> { _p: core::marker::PhantomData<(K, V)> }
impl<K, V> HashMap<K, V> {
    pub uninterp spec fn view(&self) -> Map<K, V>;
    #[verifier::external_body]
    pub fn get(&self, k: &K) -> (r: Option<&V>)
        ensures r.is_some() == self.view().contains_key(*k), r.is_some() ==> *r.unwrap() == self.view()[*k],
    { unimplemented!() }
}
pub enum EntryKind { Occupied, Vacant }
// R17 (as in unit lattice_insert): the Entry API on the table
#[verifier::external_body]
pub fn map_entry<K, V>(m: &HashMap<K, V>, k: &K) -> (r: EntryKind) ensures (r is Occupied) == m.view().contains_key(*k) { unimplemented!() }
#[verifier::external_body]
pub fn map_get<K, V: Copy>(m: &HashMap<K, V>, k: &K) -> (r: V) requires m.view().contains_key(*k), ensures r == m.view()[*k] { unimplemented!() }
#[verifier::external_body]
pub fn map_insert<K, V>(m: &mut HashMap<K, V>, k: K, v: V) ensures final(m).view() == old(m).view().insert(k, v) { unimplemented!() }
pub struct Layout { pub size: usize, pub align: usize, pub packed: bool }
impl Type {
    pub uninterp spec fn s_layout(&self, ctx: &BindgenContext) -> Option<Layout>;
    #[verifier::external_body] pub fn layout(&self, ctx: &BindgenContext) -> (r: Option<Layout>) ensures r == self.s_layout(ctx) { unimplemented!() }
}
impl Item {
    pub uninterp spec fn s_as_type(&self) -> Option<Type>;
    #[verifier::external_body] pub fn as_type(&self) -> (r: Option<&Type>)
        ensures r.is_some() == self.s_as_type().is_some(), r.is_some() ==> *r.unwrap() == self.s_as_type().unwrap() { unimplemented!() }
}
impl BindgenContext {
    pub uninterp spec fn s_item(&self, id: ItemId) -> Item;
    #[verifier::external_body] pub fn resolve_item(&self, id: ItemId) -> (r: &Item) ensures *r == self.s_item(id) { unimplemented!() }
}
pub uninterp spec fn s_lookup(m: &HashMap<ItemId, CanDerive>, t: TypeId) -> CanDerive;
// stands for: self.can_derive.get(&t.into()).copied().unwrap_or_default()
#[verifier::external_body]
pub fn table_lookup(m: &HashMap<ItemId, CanDerive>, t: TypeId) -> (r: CanDerive) ensures r == s_lookup(m, t) { unimplemented!() }

// which of the three reader predicates (returned as fn pointers by the real code)
#[derive(Clone, Copy, PartialEq, Eq, Structural)]
pub enum EdgePredicate { Comp(DeriveTrait), TypeRef(DeriveTrait), TmplInst(DeriveTrait), Default }
impl DeriveTrait {
    #[verifier::external_body] pub fn consider_edge_comp(self) -> (r: EdgePredicate) ensures r == EdgePredicate::Comp(self) { unimplemented!() }
    #[verifier::external_body] pub fn consider_edge_typeref(self) -> (r: EdgePredicate) ensures r == EdgePredicate::TypeRef(self) { unimplemented!() }
    #[verifier::external_body] pub fn consider_edge_tmpl_inst(self) -> (r: EdgePredicate) ensures r == EdgePredicate::TmplInst(self) { unimplemented!() }
}
// join of the members' facts along the selected edges (constrain_join: closure over Trace)
pub uninterp spec fn s_join(a: &CannotDerive, item: &Item, p: EdgePredicate) -> CanDerive;
impl<'ctx> CannotDerive<'ctx> {
    #[verifier::external_body]
    pub fn constrain_join(&mut self, item: &Item, p: EdgePredicate) -> (r: CanDerive)
        ensures r == s_join(old(self), item, p), *final(self) == *old(self),
    { unimplemented!() }
}

} // verus!
