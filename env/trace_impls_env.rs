// Stub environment for unit `trace_impls` (C07 ii / C09): the Trace implementations,
// i.e. WHICH outgoing edges of WHICH kind an IR node reports.  The tracer is the real
// generic parameter T: Tracer; the trait is declared here as a Verus trait whose
// visit_kind appends (item, kind) to a log (what any tracer observes).  Slices are
// walked through SliceCursor (rule R13).  `.into()` (TypeId/FunctionId/VarId -> ItemId)
// is `.item()` (rule R12).
verus! {

global size_of usize == 8;

#[derive(Clone, Copy, PartialEq, Eq, Structural)]
pub struct ItemId(pub usize);
#[derive(Clone, Copy, PartialEq, Eq, Structural)]
pub struct TypeId(pub ItemId);
impl TypeId { pub fn item(self) -> (r: ItemId) ensures r == self.0 { self.0 } }
#[derive(Clone, Copy, PartialEq, Eq, Structural)]
pub struct FunctionId(pub ItemId);
impl FunctionId { pub fn item(self) -> (r: ItemId) ensures r == self.0 { self.0 } }
#[derive(Clone, Copy, PartialEq, Eq, Structural)]
pub struct VarId(pub ItemId);
impl VarId { pub fn item(self) -> (r: ItemId) ensures r == self.0 { self.0 } }


// `id.into()` (TypeId / FunctionId / VarId -> ItemId) where a unit's R12 rewrite did not apply: the id of the item
impl vstd::std_specs::convert::FromSpecImpl<TypeId> for ItemId { open spec fn obeys_from_spec() -> bool { true } open spec fn from_spec(t: TypeId) -> ItemId { t.0 } }
impl core::convert::From<TypeId> for ItemId { fn from(t: TypeId) -> (r: ItemId) { t.0 } }
impl vstd::std_specs::convert::FromSpecImpl<FunctionId> for ItemId { open spec fn obeys_from_spec() -> bool { true } open spec fn from_spec(t: FunctionId) -> ItemId { t.0 } }
impl core::convert::From<FunctionId> for ItemId { fn from(t: FunctionId) -> (r: ItemId) { t.0 } }
impl vstd::std_specs::convert::FromSpecImpl<VarId> for ItemId { open spec fn obeys_from_spec() -> bool { true } open spec fn from_spec(t: VarId) -> ItemId { t.0 } }
impl core::convert::From<VarId> for ItemId { fn from(t: VarId) -> (r: ItemId) { t.0 } }
#[verifier::external_body] pub struct BindgenContext { _p: core::marker::PhantomData<()> }
impl BindgenContext {
    pub uninterp spec fn s_is_stdint(&self, name: &str) -> bool;
    #[verifier::external_body] pub fn is_stdint_type(&self, name: &str) -> (r: bool) ensures r == self.s_is_stdint(name) { unimplemented!() }
}

pub type Edges = Seq<(ItemId, EdgeKind)>;
pub trait Tracer: Sized {
    spec fn log(&self) -> Edges;
    fn visit_kind(&mut self, item: ItemId, kind: EdgeKind) ensures final(self).log() == old(self).log().push((item, kind));
    fn visit(&mut self, item: ItemId) ensures final(self).log() == old(self).log().push((item, EdgeKind::Generic));
}
// the edges `ids` contribute when each is reported with kind `k`, in order
pub open spec fn edges_of(ids: Seq<TypeId>, k: EdgeKind) -> Edges { Seq::new(ids.len(), |i: int| (ids[i].0, k)) }

#[verifier::external_body]
#[verifier::reject_recursive_types(T)]
pub struct SliceCursor<'a, T> { _p: core::marker::PhantomData<&'a T> }
impl<'a, T> SliceCursor<'a, T> {
    pub uninterp spec fn all(&self) -> Seq<T>;
    pub uninterp spec fn pos(&self) -> int;
    #[verifier::external_body]
    pub fn new(v: &'a [T]) -> (r: SliceCursor<'a, T>) ensures r.all() == v@, r.pos() == 0 { unimplemented!() }
    #[verifier::external_body]
    pub fn has_next(&self) -> (r: bool) ensures r == (self.pos() < self.all().len()), 0 <= self.pos() <= self.all().len() { unimplemented!() }
    #[verifier::external_body]
    pub fn next_item(&mut self) -> (r: &'a T)
        requires old(self).pos() < old(self).all().len(),
        ensures *r == old(self).all()[old(self).pos()], final(self).pos() == old(self).pos() + 1, final(self).all() == old(self).all(),
    { unimplemented!() }
}

// ---- payloads of TypeKind that are only passed along or read through getters
#[verifier::external_body] pub struct Cursor { _p: core::marker::PhantomData<()> }
pub mod clang { #[verifier::external_body] pub struct Type { _p: core::marker::PhantomData<()> } }
pub enum IntKind { Int, Other }
pub enum FloatKind { Float16, Float, Double, LongDouble, Float128 }
#[derive(Clone, Copy)]
pub struct Layout { pub size: usize, pub align: usize, pub packed: bool }
#[verifier::external_body] pub struct Enum { _p: core::marker::PhantomData<()> }
impl Enum {
    pub uninterp spec fn s_repr(&self) -> Option<TypeId>;
    #[verifier::external_body] pub fn repr(&self) -> (r: Option<TypeId>) ensures r == self.s_repr() { unimplemented!() }
}
// ObjCInterface::trace (methods' signatures, protocols) is not under contract: its report is an uninterpreted sequence
#[verifier::external_body] pub struct ObjCInterface { _p: core::marker::PhantomData<()> }
impl ObjCInterface {
    pub uninterp spec fn s_edges(&self, ctx: &BindgenContext) -> Edges;
    #[verifier::external_body] pub fn trace<T: Tracer>(&self, ctx: &BindgenContext, tracer: &mut T, _e: &())
        ensures final(tracer).log() == old(tracer).log() + self.s_edges(ctx) { unimplemented!() }
}
// `self.name().is_some_and(|name| context.is_stdint_type(name))`
pub uninterp spec fn s_named_stdint(t: &Type, ctx: &BindgenContext) -> bool;
#[verifier::external_body] pub fn named_stdint(t: &Type, ctx: &BindgenContext) -> (r: bool) ensures r == s_named_stdint(t, ctx) { unimplemented!() }

// ---- CompInfo: the getters CompInfo::trace reads (plain field getters in comp.rs)
// MethodKind, Method and their getters are extracted from comp.rs (real text) in the unit
pub struct Base { pub ty: TypeId, pub is_pub: bool }
impl Base {
    pub uninterp spec fn s_virtual(&self) -> bool;
    #[verifier::external_body] pub fn is_virtual(&self) -> (r: bool) ensures r == self.s_virtual() { unimplemented!() }
}
// Field payloads: only the members Field::trace / CompFields::trace read (stand-ins; `ty` getters uninterpreted)
pub struct FieldData { pub ty: TypeId }
#[verifier::external_body] pub struct RawField { _p: core::marker::PhantomData<()> }
impl RawField {
    pub uninterp spec fn s_ty(&self) -> TypeId;
    #[verifier::external_body] pub fn ty(&self) -> (r: TypeId) ensures r == self.s_ty() { unimplemented!() }
}
#[verifier::external_body] pub struct Bitfield { _p: core::marker::PhantomData<()> }
impl Bitfield {
    pub uninterp spec fn s_ty(&self) -> TypeId;
    #[verifier::external_body] pub fn ty(&self) -> (r: TypeId) ensures r == self.s_ty() { unimplemented!() }
}
pub struct BitfieldUnit { pub nth: usize, pub layout: Layout, pub bitfields: Vec<Bitfield> }
pub struct CompInfo { pub fields: CompFields, pub g: CompGetters }
#[verifier::external_body] pub struct CompGetters { _p: core::marker::PhantomData<()> }
impl CompInfo {
    pub uninterp spec fn s_inner_types(&self) -> Seq<TypeId>;
    pub uninterp spec fn s_inner_vars(&self) -> Seq<VarId>;
    pub uninterp spec fn s_methods(&self) -> Seq<Method>;
    pub uninterp spec fn s_destructor(&self) -> Option<(MethodKind, FunctionId)>;
    pub uninterp spec fn s_constructors(&self) -> Seq<FunctionId>;
    pub uninterp spec fn s_bases(&self) -> Seq<Base>;
    #[verifier::external_body] pub fn inner_types(&self) -> (r: &[TypeId]) ensures r@ == self.s_inner_types() { unimplemented!() }
    #[verifier::external_body] pub fn inner_vars(&self) -> (r: &[VarId]) ensures r@ == self.s_inner_vars() { unimplemented!() }
    #[verifier::external_body] pub fn methods(&self) -> (r: &[Method]) ensures r@ == self.s_methods() { unimplemented!() }
    #[verifier::external_body] pub fn destructor(&self) -> (r: Option<(MethodKind, FunctionId)>) ensures r == self.s_destructor() { unimplemented!() }
    #[verifier::external_body] pub fn constructors(&self) -> (r: &[FunctionId]) ensures r@ == self.s_constructors() { unimplemented!() }
    #[verifier::external_body] pub fn base_members(&self) -> (r: &[Base]) ensures r@ == self.s_bases() { unimplemented!() }
}
#[verifier::external_body] pub struct Module { _p: core::marker::PhantomData<()> }
#[verifier::external_body] pub struct Function { _p: core::marker::PhantomData<()> }
impl Function {
    pub uninterp spec fn s_signature(&self) -> TypeId;
    #[verifier::external_body] pub fn signature(&self) -> (r: TypeId) ensures r == self.s_signature() { unimplemented!() }
}
#[verifier::external_body] pub struct Var { _p: core::marker::PhantomData<()> }
impl Var {
    pub uninterp spec fn s_ty(&self) -> TypeId;
    #[verifier::external_body] pub fn ty(&self) -> (r: TypeId) ensures r == self.s_ty() { unimplemented!() }
    // the rest of Var's getters (env completeness rule)
    pub uninterp spec fn s_has_val(&self) -> bool;
    pub uninterp spec fn s_is_const(&self) -> bool;
    #[verifier::external_body] pub fn val(&self) -> (r: Option<&VarType>) ensures r.is_some() == self.s_has_val() { unimplemented!() }
    #[verifier::external_body] pub fn is_const(&self) -> (r: bool) ensures r == self.s_is_const() { unimplemented!() }
    #[verifier::external_body] pub fn name(&self) -> (r: &str) { unimplemented!() }
    #[verifier::external_body] pub fn mangled_name(&self) -> (r: Option<&str>) { unimplemented!() }
}
#[verifier::external_body] pub struct VarType { _p: core::marker::PhantomData<()> }
#[verifier::external_body] pub struct Item { _p: core::marker::PhantomData<()> }
impl Item {
    pub uninterp spec fn s_kind(&self) -> ItemKind;
    #[verifier::external_body] pub fn kind(&self) -> (r: &ItemKind) ensures *r == self.s_kind() { unimplemented!() }
    pub uninterp spec fn s_all_tparams(&self, ctx: &BindgenContext) -> Seq<TypeId>;
    pub uninterp spec fn s_opaque(&self, ctx: &BindgenContext) -> bool;
    #[verifier::external_body] pub fn all_template_params(&self, ctx: &BindgenContext) -> (r: Vec<TypeId>) ensures r@ == self.s_all_tparams(ctx) { unimplemented!() }
    #[verifier::external_body] pub fn is_opaque(&self, ctx: &BindgenContext, _e: &()) -> (r: bool) ensures r == self.s_opaque(ctx) { unimplemented!() }
    pub uninterp spec fn s_id(&self) -> ItemId;
    #[verifier::external_body] pub fn id(&self) -> (r: ItemId) ensures r == self.s_id() { unimplemented!() }
}

// ---- ItemResolver (ir/context.rs): where an id ends up after following refs / aliases is an uninterpreted function of the IR
pub struct ItemResolver { pub id: ItemId, pub refs: bool, pub aliases: bool }
impl TypeId { pub fn into_resolver(self) -> (r: ItemResolver) ensures r == (ItemResolver { id: self.0, refs: false, aliases: false }) { ItemResolver { id: self.0, refs: false, aliases: false } } }
impl ItemId { pub fn into_resolver(self) -> (r: ItemResolver) ensures r == (ItemResolver { id: self, refs: false, aliases: false }) { ItemResolver { id: self, refs: false, aliases: false } } }
pub uninterp spec fn s_resolved(ctx: &BindgenContext, id: ItemId, refs: bool, aliases: bool) -> ItemId;
impl ItemResolver {
    pub fn through_type_refs(self) -> (r: ItemResolver) ensures r == (ItemResolver { refs: true, ..self }) { ItemResolver { id: self.id, refs: true, aliases: self.aliases } }
    pub fn through_type_aliases(self) -> (r: ItemResolver) ensures r == (ItemResolver { aliases: true, ..self }) { ItemResolver { id: self.id, refs: self.refs, aliases: true } }
    #[verifier::external_body] pub fn resolve<'a>(self, ctx: &'a BindgenContext) -> (r: &'a Item) ensures r.s_id() == s_resolved(ctx, self.id, self.refs, self.aliases) { unimplemented!() }
}

#[verifier::external_body]
#[verifier::reject_recursive_types(T)]
pub struct VecCursor<T> { _p: core::marker::PhantomData<T> }
impl<T> VecCursor<T> {
    pub uninterp spec fn all(&self) -> Seq<T>;
    pub uninterp spec fn pos(&self) -> int;
    #[verifier::external_body]
    pub fn new(v: Vec<T>) -> (r: VecCursor<T>) ensures r.all() == v@, r.pos() == 0 { unimplemented!() }
    #[verifier::external_body]
    pub fn has_next(&self) -> (r: bool) ensures r == (self.pos() < self.all().len()), 0 <= self.pos() <= self.all().len() { unimplemented!() }
    #[verifier::external_body]
    pub fn next_item(&mut self) -> (r: T)
        requires old(self).pos() < old(self).all().len(),
        ensures r == old(self).all()[old(self).pos()], final(self).pos() == old(self).pos() + 1, final(self).all() == old(self).all(),
    { unimplemented!() }
}
// the edges a sequence of things contributes when each is reported as (f(x), k), in order
pub open spec fn edges_map<X>(s: Seq<X>, f: spec_fn(X) -> ItemId, k: EdgeKind) -> Edges { Seq::new(s.len(), |i: int| (f(s[i]), k)) }
pub proof fn lemma_edges_step<X>(s: Seq<X>, n: int, f: spec_fn(X) -> ItemId, k: EdgeKind)
    requires 0 <= n < s.len(),
    ensures edges_map(s.subrange(0, n + 1), f, k) =~= edges_map(s.subrange(0, n), f, k).push((f(s[n]), k)),
            edges_map(s.subrange(0, 0), f, k) =~= Seq::<(ItemId, EdgeKind)>::empty(),
{}
// one loop step: the log after reporting element n equals prefix + edges of the first n+1 elements
pub proof fn lemma_loop_step<X>(prefix: Edges, s: Seq<X>, n: int, f: spec_fn(X) -> ItemId, k: EdgeKind)
    requires 0 <= n < s.len(),
    ensures (prefix + edges_map(s.subrange(0, n), f, k)).push((f(s[n]), k)) =~= prefix + edges_map(s.subrange(0, n + 1), f, k),
{ lemma_edges_step(s, n, f, k); }
pub proof fn lemma_edges_full<X>(s: Seq<X>, f: spec_fn(X) -> ItemId, k: EdgeKind)
    ensures edges_map(s.subrange(0, s.len() as int), f, k) =~= edges_map(s, f, k),
            edges_map(s.subrange(0, 0), f, k) =~= Seq::<(ItemId, EdgeKind)>::empty(),
{ assert(s.subrange(0, s.len() as int) =~= s); }

} // verus!
