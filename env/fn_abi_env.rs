// Stub environment for unit `fn_abi` (C14: ABI gating at the codegen site
// FunctionSig::abi).  The override lookup (a HashMap<Abi, RegexSet> scan with a
// closure) is replaced by ONE uninterpreted accessor (rule R5); the feature
// flags are uninterpreted booleans.
verus! {

global size_of usize == 8;

pub type CXCallingConv = u32;

#[derive(Clone, Copy, PartialEq, Eq, Structural)]
pub struct ItemId(pub usize);
#[derive(Clone, Copy, PartialEq, Eq, Structural)]
pub struct TypeId(pub ItemId);

pub struct RustFeatures {
    pub thiscall_abi: bool,
    pub vectorcall_abi: bool,
    pub c_unwind_abi: bool,
    pub abi_efiapi: bool,
}

#[verifier::external_body]
pub struct RegexSet { _p: core::marker::PhantomData<()> }

#[verifier::external_body]
pub struct BindgenOptions { _p: core::marker::PhantomData<()> }
impl BindgenOptions {
    pub uninterp spec fn s_features(&self) -> RustFeatures;
    #[verifier::external_body]
    pub fn rust_features(&self) -> (r: RustFeatures) ensures r == self.s_features() { unimplemented!() }
}

#[verifier::external_body]
pub struct BindgenContext { _p: core::marker::PhantomData<()> }
impl BindgenContext {
    pub uninterp spec fn spec_options(&self) -> BindgenOptions;
    // the ABI an --override-abi pattern assigns to `name`, if any
    pub uninterp spec fn s_override(&self, name: Seq<char>) -> Option<Abi>;
    #[verifier::external_body]
    pub fn options(&self) -> (r: &BindgenOptions) ensures *r == self.spec_options() { unimplemented!() }
    // stands for: ctx.options().abi_overrides.iter().find(|(_, regex_set)| regex_set.matches(name))
    #[verifier::external_body]
    pub fn abi_override_for(&self, name: &str) -> (r: Option<(&Abi, &RegexSet)>)
        ensures
            r.is_some() == self.s_override(name@).is_some(),
            r.is_some() ==> *r.unwrap().0 == self.s_override(name@).unwrap(),
    { unimplemented!() }
}

pub mod codegen {
    pub mod error {
        use super::super::*;
        // bindgen/codegen/error.rs (variants without payload types this unit does not need)
        pub enum Error {
            NoLayoutForOpaqueBlob,
            InstantiationOfOpaqueType,
            UnsupportedAbi(&'static str),
        }
        pub type Result<T> = core::result::Result<T, Error>;
    }
}

} // verus!
