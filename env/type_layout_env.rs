// Extra environment of unit `type_layout` (C06/C02), on top of trace_impls_env.rs (which declares the IR payload types):
// what Type::layout reads besides its own fields.  The recursive calls (`ctx.resolve_type(inner).layout(ctx)`) and
// CompInfo::layout are callees seen through their contract only: an uninterpreted "layout of that type / compound".
verus! {

impl BindgenContext {
    pub uninterp spec fn s_type(&self, id: TypeId) -> Type;
    pub uninterp spec fn s_ptr_size(&self) -> usize;
    #[verifier::external_body] pub fn resolve_type(&self, id: TypeId) -> (r: &Type) ensures *r == self.s_type(id) { unimplemented!() }
    #[verifier::external_body] pub fn target_pointer_size(&self) -> (r: usize) ensures r == self.s_ptr_size() { unimplemented!() }
}
impl Type {
    // the callee side of Type::layout (the function under contract is checked against this at its own recursive calls)
    pub uninterp spec fn s_layout_of(&self, ctx: &BindgenContext) -> Option<Layout>;
    #[verifier::external_body] pub fn layout(&self, ctx: &BindgenContext) -> (r: Option<Layout>) ensures r == self.s_layout_of(ctx) { unimplemented!() }
}
impl CompInfo {
    pub uninterp spec fn s_layout(&self, ctx: &BindgenContext) -> Option<Layout>;
    #[verifier::external_body] pub fn layout(&self, ctx: &BindgenContext) -> (r: Option<Layout>) ensures r == self.s_layout(ctx) { unimplemented!() }
}

// ---- BindgenContext::instantiate_template: where the layout of a new instantiation item comes from
#[derive(Debug)]
pub enum LayoutError { Invalid, Incomplete, Dependent, NotConstantSize, InvalidFieldName, Unknown }
impl clang::Type {
    // what libclang computes for THIS type (uninterpreted)
    pub uninterp spec fn s_fallible_layout(&self, ctx: &BindgenContext) -> Result<Layout, LayoutError>;
    pub uninterp spec fn s_const(&self) -> bool;
    #[verifier::external_body] pub fn fallible_layout(&self, ctx: &BindgenContext) -> (r: Result<Layout, LayoutError>) ensures r == self.s_fallible_layout(ctx) { unimplemented!() }
    #[verifier::external_body] pub fn is_const(&self) -> (r: bool) ensures r == self.s_const() { unimplemented!() }
    #[verifier::external_body] pub fn canonical_type(&self) -> (r: clang::Type) { unimplemented!() }
    #[verifier::external_body] pub fn declaration(&self) -> (r: Cursor) { unimplemented!() }
}
impl Cursor {
    // the type of the cursor the instantiation was found at: NOT necessarily the instantiation (it may be a pointer to it)
    #[verifier::external_body] pub fn cur_type(&self) -> (r: clang::Type) { unimplemented!() }
}

} // verus!
