// Stub environment for unit `bitfield_limit` (C08): CompInfo::has_too_large_bitfield_unit.
// Rule R25: `X.iter().any(|v| BODY)` -> a cursor loop that stops at the first element for which
// BODY holds (the definition of Iterator::any).
verus! {

global size_of usize == 8;

pub struct Layout { pub size: usize, pub align: usize, pub packed: bool }
#[verifier::external_body] pub struct FieldData { _p: core::marker::PhantomData<()> }
pub struct BitfieldUnit { pub nth: usize, pub layout: Layout }
#[verifier::external_body] pub struct CompInfo { _p: core::marker::PhantomData<()> }
impl CompInfo {
    pub uninterp spec fn s_fields(&self) -> Seq<Field>;
    pub uninterp spec fn s_has_bitfields(&self) -> bool;
    #[verifier::external_body] pub fn fields(&self) -> (r: &[Field]) ensures r@ == self.s_fields() { unimplemented!() }
    #[verifier::external_body] pub fn has_bitfields(&self) -> (r: bool) ensures r == self.s_has_bitfields() { unimplemented!() }
}
#[verifier::external_body]
#[verifier::reject_recursive_types(T)]
pub struct SliceCursor<'a, T> { _p: core::marker::PhantomData<&'a T> }
impl<'a, T> SliceCursor<'a, T> {
    pub uninterp spec fn all(&self) -> Seq<T>;
    pub uninterp spec fn pos(&self) -> int;
    #[verifier::external_body]
    pub fn new(v: &'a [T]) -> (r: SliceCursor<'a, T>) ensures r.all() == v@, r.pos() == 0 { unimplemented!() }
    #[verifier::external_body]
    pub fn has_next(&self) -> (r: bool) ensures r == (self.pos() < self.all().len()), 0 <= self.pos() <= self.all().len() { unimplemented!() }
    #[verifier::external_body]
    pub fn next_item(&mut self) -> (r: &'a T)
        requires old(self).pos() < old(self).all().len(),
        ensures *r == old(self).all()[old(self).pos()], final(self).pos() == old(self).pos() + 1, final(self).all() == old(self).all(),
    { unimplemented!() }
}

} // verus!
