// Stub environment for unit `edges` (C07 subscriptions, C09 edge predicates).
verus! {

global size_of usize == 8;

#[derive(Clone, Copy, PartialEq, Eq, Structural)]
pub struct ItemId(pub usize);

#[verifier::external_body]
pub struct CodegenConfig { _p: core::marker::PhantomData<()> }
impl CodegenConfig {
    pub uninterp spec fn s_functions(&self) -> bool;
    pub uninterp spec fn s_types(&self) -> bool;
    pub uninterp spec fn s_vars(&self) -> bool;
    pub uninterp spec fn s_methods(&self) -> bool;
    pub uninterp spec fn s_constructors(&self) -> bool;
    pub uninterp spec fn s_destructors(&self) -> bool;
    #[verifier::external_body] pub fn functions(&self) -> (r: bool) ensures r == self.s_functions() { unimplemented!() }
    #[verifier::external_body] pub fn types(&self) -> (r: bool) ensures r == self.s_types() { unimplemented!() }
    #[verifier::external_body] pub fn vars(&self) -> (r: bool) ensures r == self.s_vars() { unimplemented!() }
    #[verifier::external_body] pub fn methods(&self) -> (r: bool) ensures r == self.s_methods() { unimplemented!() }
    #[verifier::external_body] pub fn constructors(&self) -> (r: bool) ensures r == self.s_constructors() { unimplemented!() }
    #[verifier::external_body] pub fn destructors(&self) -> (r: bool) ensures r == self.s_destructors() { unimplemented!() }
}

pub struct BindgenOptions { pub codegen_config: CodegenConfig }

#[verifier::external_body]
pub struct Item { _p: core::marker::PhantomData<()> }
impl Item {
    pub uninterp spec fn s_enabled(&self, ctx: &BindgenContext) -> bool;
    #[verifier::external_body]
    pub fn is_enabled_for_codegen(&self, ctx: &BindgenContext) -> (r: bool) ensures r == self.s_enabled(ctx) { unimplemented!() }
}

#[verifier::external_body]
pub struct BindgenContext { _p: core::marker::PhantomData<()> }
impl BindgenContext {
    pub uninterp spec fn spec_options(&self) -> BindgenOptions;
    pub uninterp spec fn spec_item(&self, id: ItemId) -> Item;
    #[verifier::external_body]
    pub fn options(&self) -> (r: &BindgenOptions) ensures *r == self.spec_options() { unimplemented!() }
    #[verifier::external_body]
    pub fn resolve_item(&self, id: ItemId) -> (r: &Item) ensures *r == self.spec_item(id) { unimplemented!() }
}

} // verus!
