// Stub environment for unit `var_string` (C14): the VarType::String arm of
// <Var as CodeGenerator>::codegen, extracted as a block (rule R18/R19).
// Each token template the arm can emit is an env constructor that records which
// gated language/library feature the emitted text USES (Rust release notes):
//   c"..." literals                      -> literal_cstr (1.77)
//   const CStr::from_bytes_with_nul_unchecked -> const_cstr (1.59)
//   ::core::ffi::CStr                    -> core_ffi_c's release (1.64; core::ffi::CStr and
//                                           core::ffi::c_* were stabilised together)
//   ::std::ffi::CStr, &[u8; N] byte strings -> nothing gated
verus! {

global size_of usize == 8;

#[derive(Clone, Copy)]
pub struct RustFeatures { pub const_cstr: bool, pub literal_cstr: bool, pub core_ffi_c: bool }
pub struct BindgenOptions { pub use_core: bool, pub generate_cstr: bool, pub rust_features: RustFeatures }

#[verifier::external_body] pub struct Tok { _p: core::marker::PhantomData<()> }
pub uninterp spec fn ident_name(t: Tok) -> Seq<char>;
// features the text of a token needs
pub uninterp spec fn needs_const_cstr(t: Tok) -> bool;
pub uninterp spec fn needs_literal_cstr(t: Tok) -> bool;
pub uninterp spec fn needs_core_cstr(t: Tok) -> bool;
pub open spec fn allowed(t: Tok, f: RustFeatures) -> bool {
    (needs_const_cstr(t) ==> f.const_cstr) && (needs_literal_cstr(t) ==> f.literal_cstr) && (needs_core_cstr(t) ==> f.core_ffi_c)
}

#[verifier::external_body] pub struct BindgenContext { _p: core::marker::PhantomData<()> }
impl BindgenContext {
    pub uninterp spec fn spec_options(&self) -> BindgenOptions;
    #[verifier::external_body] pub fn options(&self) -> (r: &BindgenOptions) ensures *r == self.spec_options() { unimplemented!() }
    #[verifier::external_body] pub fn rust_ident_raw(&self, name: &str) -> (r: Tok) ensures ident_name(r) == name@ { unimplemented!() }
}
pub type Ident = Tok;

#[verifier::external_body] pub struct CStrRef { _p: core::marker::PhantomData<()> }
// CStr::from_bytes_with_nul(&cstr_bytes).ok()
#[verifier::external_body] pub fn cstr_from_bytes_with_nul(b: &Vec<u8>) -> (r: Option<CStrRef>) { unimplemented!() }

// proc_macro2::Literal::usize_unsuffixed / byte_string / c_string
#[verifier::external_body] pub fn lit_usize(n: usize) -> (r: Tok) ensures !needs_const_cstr(r) && !needs_literal_cstr(r) && !needs_core_cstr(r) { unimplemented!() }
#[verifier::external_body] pub fn lit_byte_string(b: &Vec<u8>) -> (r: Tok) ensures !needs_const_cstr(r) && !needs_literal_cstr(r) && !needs_core_cstr(r) { unimplemented!() }
#[verifier::external_body] pub fn lit_c_string(c: CStrRef) -> (r: Tok) ensures needs_literal_cstr(r) && !needs_const_cstr(r) && !needs_core_cstr(r) { unimplemented!() }

// quote! { ::#prefix::ffi::CStr }
#[verifier::external_body] pub fn q_cstr_ty(prefix: &Tok) -> (r: Tok)
    ensures needs_core_cstr(r) == (ident_name(*prefix) == "core"@), !needs_const_cstr(r), !needs_literal_cstr(r) { unimplemented!() }
// quote! { #(#attrs)* pub const #canonical_ident: &#cstr_ty = #cstr; }
#[verifier::external_body] pub fn q_const_cstr_literal(attrs: &Vec<Tok>, name: &Tok, cstr_ty: &Tok, lit: &Tok) -> (r: Tok)
    ensures needs_core_cstr(r) == needs_core_cstr(*cstr_ty), needs_literal_cstr(r) == (needs_literal_cstr(*lit) || needs_literal_cstr(*cstr_ty)), needs_const_cstr(r) == needs_const_cstr(*cstr_ty) { unimplemented!() }
// quote! { #(#attrs)* #[allow(unsafe_code)] pub const #canonical_ident: &#cstr_ty = unsafe { #cstr_ty::from_bytes_with_nul_unchecked(#bytes) }; }
#[verifier::external_body] pub fn q_const_cstr_unchecked(attrs: &Vec<Tok>, name: &Tok, cstr_ty: &Tok, bytes: &Tok) -> (r: Tok)
    ensures needs_core_cstr(r) == needs_core_cstr(*cstr_ty), needs_const_cstr(r), needs_literal_cstr(r) == needs_literal_cstr(*cstr_ty) { unimplemented!() }
// quote! { [u8; #len] } and quote! { #(#attrs)* pub const #canonical_ident: &#(#lifetime )*#array_ty = #bytes ; }
#[verifier::external_body] pub fn q_u8_array(len: &Tok) -> (r: Tok) ensures !needs_const_cstr(r) && !needs_literal_cstr(r) && !needs_core_cstr(r) { unimplemented!() }
#[verifier::external_body] pub fn q_const_bytes(attrs: &Vec<Tok>, name: &Tok, array_ty: &Tok, bytes: &Tok) -> (r: Tok)
    ensures !needs_const_cstr(r) && !needs_literal_cstr(r) && !needs_core_cstr(r) { unimplemented!() }

// CodegenResult: the items emitted so far
pub struct CodegenResult { pub items: Vec<Tok> }
impl CodegenResult {
    #[verifier::external_body]
    pub fn push(&mut self, t: Tok) ensures final(self).items@ == old(self).items@.push(t) { unimplemented!() }
}

} // verus!
