// Stub environment for unit `base_fields` (C02 / C03): the body of the base-class loop of <CompInfo as CodeGenerator>::codegen.
// The layout tracker is reduced to the one thing the loop does to it: the sequence of base types it was told about
// (what saw_base then computes is unit `layout`); tokens are uninterpreted.
verus! {

global size_of usize == 8;

#[derive(Clone, Copy, PartialEq, Eq, Structural)]
pub struct ItemId(pub usize);
#[derive(Clone, Copy, PartialEq, Eq, Structural)]
pub struct TypeId(pub ItemId);
#[verifier::external_body] pub struct Tok { _p: core::marker::PhantomData<()> }
#[verifier::external_body] pub struct Ident { _p: core::marker::PhantomData<()> }
#[verifier::external_body] pub struct Type { _p: core::marker::PhantomData<()> }
#[verifier::external_body] pub struct Item { _p: core::marker::PhantomData<()> }
impl Item {
    pub uninterp spec fn s_type(&self) -> Type;
    #[verifier::external_body] pub fn expect_type(&self) -> (r: &Type) ensures *r == self.s_type() { unimplemented!() }
    #[verifier::external_body] pub fn to_rust_ty_or_opaque(&self, ctx: &BindgenContext, _e: &()) -> (r: Tok) { unimplemented!() }
}
impl Tok { #[verifier::external_body] pub fn with_implicit_template_params(self, ctx: &BindgenContext, item: &Item) -> (r: Tok) { unimplemented!() } }
#[verifier::external_body] pub struct BindgenContext { _p: core::marker::PhantomData<()> }
impl BindgenContext {
    pub uninterp spec fn spec_options(&self) -> BindgenOptions;
    pub uninterp spec fn s_item(&self, id: ItemId) -> Item;
    #[verifier::external_body] pub fn options(&self) -> (r: &BindgenOptions) ensures *r == self.spec_options() { unimplemented!() }
    #[verifier::external_body] pub fn resolve_item(&self, id: TypeId) -> (r: &Item) ensures *r == self.s_item(id.0) { unimplemented!() }
    #[verifier::external_body] pub fn rust_ident(&self, name: &String) -> (r: Ident) { unimplemented!() }
}
pub struct Base { pub ty: TypeId, pub field_name: String, pub is_pub: bool }
impl Base {
    // Base::requires_storage: under contract in unit base_storage
    pub uninterp spec fn s_requires_storage(&self, ctx: &BindgenContext) -> bool;
    #[verifier::external_body] pub fn requires_storage(&self, ctx: &BindgenContext) -> (r: bool) ensures r == self.s_requires_storage(ctx) { unimplemented!() }
    pub fn is_public(&self) -> (r: bool) ensures r == self.is_pub { self.is_pub }
}
#[verifier::external_body] pub struct StructLayoutTracker { _p: core::marker::PhantomData<()> }
impl StructLayoutTracker {
    // the base types the tracker was told about, in order
    pub uninterp spec fn s_bases(&self) -> Seq<Type>;
    #[verifier::external_body] pub fn saw_base(&mut self, base_ty: &Type) ensures final(self).s_bases() == old(self).s_bases().push(*base_ty) { unimplemented!() }
}
#[verifier::external_body] pub fn access_specifier(v: FieldVisibilityKind) -> (r: Tok) { unimplemented!() }
// quote! { #access_spec #field_name: #inner, }
#[verifier::external_body] pub fn q_base_field(access_spec: &Tok, field_name: &Ident, inner: &Tok) -> (r: Tok) { unimplemented!() }

} // verus!
