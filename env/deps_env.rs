// Stub environment for unit `deps` (C07 ii): how the reverse-dependency maps of the
// analyses are filled -- the callback bodies of analysis::generate_dependencies (used by
// has_vtable, has_destructor, has_float, has_type_param_in_array, sizedness, derive) and
// of UsedTemplateParameters::new.  HashMap is an opaque type with a Map view; the chain
// `m.entry(k).or_insert_with(Vec::new).push(v)` is one env operation (rule R17); the
// generic `consider_edge: F` is an object with an uninterpreted result.
verus! {

global size_of usize == 8;

#[derive(Clone, Copy, PartialEq, Eq, Structural)]
pub struct ItemId(pub usize);

#[verifier::external_body]
#[verifier::reject_recursive_types(K)]
#[verifier::reject_recursive_types(V)]
pub struct HashMap<K, V> { _p: core::marker::PhantomData<(K, V)> }
impl<K, V> HashMap<K, V> { pub uninterp spec fn view(&self) -> Map<K, V>; }
pub open spec fn deps_at(m: Map<ItemId, Vec<ItemId>>, k: ItemId) -> Seq<ItemId> { if m.contains_key(k) { m[k]@ } else { Seq::empty() } }
// m.entry(k).or_insert_with(Vec::new).push(v)
#[verifier::external_body]
pub fn map_push(m: &mut HashMap<ItemId, Vec<ItemId>>, k: ItemId, v: ItemId)
    ensures final(m).view().contains_key(k), deps_at(final(m).view(), k) == deps_at(old(m).view(), k).push(v),
            forall|j: ItemId| j != k ==> final(m).view().contains_key(j) == old(m).view().contains_key(j) && deps_at(final(m).view(), j) == deps_at(old(m).view(), j),
{ unimplemented!() }
#[verifier::external_body] pub struct ItemSet { _p: core::marker::PhantomData<()> }
// used.entry(k).or_insert_with(|| Some(ItemSet::new()))
#[verifier::external_body]
pub fn map_ensure(m: &mut HashMap<ItemId, Option<ItemSet>>, k: ItemId)
    ensures final(m).view().contains_key(k), forall|j: ItemId| old(m).view().contains_key(j) ==> final(m).view().contains_key(j) && final(m).view()[j] == old(m).view()[j],
{ unimplemented!() }

#[verifier::external_body] pub struct AllowSet { _p: core::marker::PhantomData<()> }
impl AllowSet {
    pub uninterp spec fn s_contains(&self, id: ItemId) -> bool;
    #[verifier::external_body] pub fn contains(&self, id: &ItemId) -> (r: bool) ensures r == self.s_contains(*id) { unimplemented!() }
}
#[verifier::external_body] pub struct BindgenContext { _p: core::marker::PhantomData<()> }
impl BindgenContext {
    pub uninterp spec fn s_allowlisted(&self) -> AllowSet;
    #[verifier::external_body] pub fn allowlisted_items(&self) -> (r: &AllowSet) ensures *r == self.s_allowlisted() { unimplemented!() }
}
// the `consider_edge: F where F: Fn(EdgeKind) -> bool` argument of generate_dependencies
#[verifier::external_body] pub struct EdgeFilter { _p: core::marker::PhantomData<()> }
impl EdgeFilter {
    pub uninterp spec fn s(&self, k: EdgeKind) -> bool;
    #[verifier::external_body] pub fn call(&self, k: EdgeKind) -> (r: bool) ensures r == self.s(k) { unimplemented!() }
}
pub struct UsedTemplateParameters { pub _p: usize }

} // verus!
