// Stub environment for unit `lattice_constrain` (C07): insert / forward / constrain of the
// two lattice-valued analyses HasVtableAnalysis and SizednessAnalysis.  As in unit
// `lattice_insert`: HashMap is an opaque type with a Map view, the Entry API is desugared
// (R17), `<` on the result enums is the rank comparison.  As in units has_float & co: the IR
// is read through uninterpreted accessors, and the two iterator chains over the bases
// ("any base has an entry", "join of the bases' entries") are uninterpreted functions of
// (current table, node) -- rule R5.  `|=` on HasVtableResult is the join (BitOrAssign =
// join = max in the declared order: proved by the Kani lattice harnesses).
use vstd::std_specs::ops::*;
verus! {

global size_of usize == 8;

#[derive(Clone, Copy, PartialEq, Eq, Structural)]
pub struct ItemId(pub usize);
#[derive(Clone, Copy, PartialEq, Eq, Structural)]
pub struct TypeId(pub ItemId);
impl TypeId {
    // stands for `.into()` (TypeId -> ItemId)
    pub fn item(self) -> (r: ItemId) ensures r == self.0 { self.0 }
    // has_vtable_ptr / is_opaque lookups (results of EARLIER analyses / IR reads)
    pub uninterp spec fn s_has_vtable_ptr(&self, ctx: &BindgenContext) -> bool;
    pub uninterp spec fn s_opaque(&self, ctx: &BindgenContext) -> bool;
    #[verifier::external_body] pub fn has_vtable_ptr(&self, ctx: &BindgenContext) -> (r: bool) ensures r == self.s_has_vtable_ptr(ctx) { unimplemented!() }
    // IR invariant used by the unreachable!() of SizednessAnalysis::constrain: TypeKind::Opaque types are opaque
    #[verifier::external_body] pub fn is_opaque(&self, ctx: &BindgenContext, _e: &()) -> (r: bool)
        ensures r == self.s_opaque(ctx), (ctx.s_type(*self).s_kind() is Opaque) ==> r { unimplemented!() }
}

#[verifier::external_body] pub struct Enum { _p: core::marker::PhantomData<()> }
#[verifier::external_body] pub struct ObjCInterface { _p: core::marker::PhantomData<()> }
#[verifier::external_body] pub struct Cursor { _p: core::marker::PhantomData<()> }
#[verifier::external_body] pub struct FunctionSig { _p: core::marker::PhantomData<()> }
pub mod clang { #[verifier::external_body] pub struct Type { _p: core::marker::PhantomData<()> } }
pub enum IntKind { Int, Other }
pub enum FloatKind { Float16, Float, Double, LongDouble, Float128 }
pub struct Layout { pub size: usize, pub align: usize, pub packed: bool }

#[verifier::external_body] pub struct CompInfo { _p: core::marker::PhantomData<()> }
impl CompInfo {
    pub uninterp spec fn s_own_virtual(&self) -> bool;
    pub uninterp spec fn s_no_fields(&self) -> bool;
    #[verifier::external_body] pub fn has_own_virtual_method(&self) -> (r: bool) ensures r == self.s_own_virtual() { unimplemented!() }
    // the base classes, in declaration order
    pub uninterp spec fn s_bases(&self) -> Seq<Base>;
    #[verifier::external_body] pub fn base_members(&self) -> (r: &[Base]) ensures r@ == self.s_bases() { unimplemented!() }
    // stands for `info.fields().is_empty()`
    #[verifier::external_body] pub fn has_no_fields(&self) -> (r: bool) ensures r == self.s_no_fields() { unimplemented!() }
}
#[verifier::external_body] pub struct TemplateInstantiation { _p: core::marker::PhantomData<()> }
impl TemplateInstantiation {
    pub uninterp spec fn s_definition(&self) -> TypeId;
    #[verifier::external_body] pub fn template_definition(&self) -> (r: TypeId) ensures r == self.s_definition() { unimplemented!() }
}
#[verifier::external_body] pub struct Type { _p: core::marker::PhantomData<()> }
impl Type {
    pub uninterp spec fn s_kind(&self) -> TypeKind;
    pub uninterp spec fn s_layout(&self, ctx: &BindgenContext) -> Option<Layout>;
    #[verifier::external_body] pub fn kind(&self) -> (r: &TypeKind) ensures *r == self.s_kind() { unimplemented!() }
    #[verifier::external_body] pub fn layout(&self, ctx: &BindgenContext) -> (r: Option<Layout>) ensures r == self.s_layout(ctx) { unimplemented!() }
}
#[verifier::external_body] pub struct Item { _p: core::marker::PhantomData<()> }
impl Item {
    pub uninterp spec fn s_item_opaque(&self, ctx: &BindgenContext) -> bool;
    #[verifier::external_body] pub fn is_opaque(&self, ctx: &BindgenContext, _e: &()) -> (r: bool) ensures r == self.s_item_opaque(ctx) { unimplemented!() }
    pub uninterp spec fn s_as_type(&self) -> Option<Type>;
    #[verifier::external_body] pub fn as_type(&self) -> (r: Option<&Type>)
        ensures r.is_some() == self.s_as_type().is_some(), r.is_some() ==> *r.unwrap() == self.s_as_type().unwrap() { unimplemented!() }
}
#[verifier::external_body] pub struct BindgenContext { _p: core::marker::PhantomData<()> }
impl BindgenContext {
    pub uninterp spec fn s_item(&self, id: ItemId) -> Item;
    pub uninterp spec fn s_type(&self, id: TypeId) -> Type;
    #[verifier::external_body] pub fn resolve_item(&self, id: ItemId) -> (r: &Item) ensures *r == self.s_item(id) { unimplemented!() }
    #[verifier::external_body] pub fn resolve_type(&self, id: TypeId) -> (r: &Type) ensures *r == self.s_type(id) { unimplemented!() }
}

#[verifier::external_body]
#[verifier::reject_recursive_types(K)]
#[verifier::reject_recursive_types(V)]
pub struct HashMap<K, V> { _p: core::marker::PhantomData<(K, V)> }
impl<K, V> HashMap<K, V> {
    pub uninterp spec fn view(&self) -> Map<K, V>;
    #[verifier::external_body]
    pub fn contains_key(&self, k: &K) -> (r: bool)
        ensures r == self.view().contains_key(*k),
    { unimplemented!() }
    #[verifier::external_body]
    pub fn get(&self, k: &K) -> (r: Option<&V>)
        ensures r.is_some() == self.view().contains_key(*k), r.is_some() ==> *r.unwrap() == self.view()[*k],
    { unimplemented!() }
}
pub enum EntryKind { Occupied, Vacant }
// R17: `match m.entry(k) { Entry::Occupied(mut e) => .. *e.get() .. e.insert(v) .., Entry::Vacant(e) => .. e.insert(v) .. }`
#[verifier::external_body]
pub fn map_entry<K, V>(m: &HashMap<K, V>, k: &K) -> (r: EntryKind)
    ensures (r is Occupied) == m.view().contains_key(*k),
{ unimplemented!() }
#[verifier::external_body]
pub fn map_get<K, V: Copy>(m: &HashMap<K, V>, k: &K) -> (r: V)
    requires m.view().contains_key(*k),
    ensures r == m.view()[*k],
{ unimplemented!() }
#[verifier::external_body]
pub fn map_insert<K, V>(m: &mut HashMap<K, V>, k: K, v: V)
    ensures final(m).view() == old(m).view().insert(k, v),
{ unimplemented!() }

// "some base class has an entry" (C++: a class with a polymorphic base is polymorphic)
pub open spec fn s_any_base_key(dom: Set<ItemId>, info: &CompInfo) -> bool {
    exists|j: int| 0 <= j < info.s_bases().len() && #[trigger] dom.contains(info.s_bases()[j].ty.0)
}
pub struct Base { pub ty: TypeId }
// `TypeId -> ItemId` (`base.ty.into()`): the id of the type item
impl vstd::std_specs::convert::FromSpecImpl<TypeId> for ItemId {
    open spec fn obeys_from_spec() -> bool { true }
    open spec fn from_spec(t: TypeId) -> ItemId { t.0 }
}
impl core::convert::From<TypeId> for ItemId {
    fn from(t: TypeId) -> (r: ItemId) { t.0 }
}
// `xs.iter().any(|x| ..)` over the base classes: a cursor (rule R25)
#[verifier::external_body] pub struct BaseCursor<'a> { _p: core::marker::PhantomData<&'a ()> }
impl<'a> BaseCursor<'a> {
    pub uninterp spec fn all(&self) -> Seq<Base>;
    pub uninterp spec fn pos(&self) -> int;
    #[verifier::external_body] pub fn new(v: &'a [Base]) -> (r: BaseCursor<'a>) ensures r.all() == v@, r.pos() == 0 { unimplemented!() }
    #[verifier::external_body] pub fn has_next(&self) -> (r: bool) ensures r == (self.pos() < self.all().len()), 0 <= self.pos() <= self.all().len() { unimplemented!() }
    #[verifier::external_body] pub fn next_item(&mut self) -> (r: &'a Base)
        requires old(self).pos() < old(self).all().len(),
        ensures *r == old(self).all()[old(self).pos()], final(self).pos() == old(self).pos() + 1, final(self).all() == old(self).all() { unimplemented!() }
}

pub fn runtime_assert(b: bool) requires b {}

} // verus!
