// Stub environment for unit `codegen_guards` (C12): places where an input clang accepts used to abort generation.
verus! {

global size_of usize == 8;

#[derive(Clone, Copy, PartialEq, Eq, Structural)]
pub struct ItemId(pub usize);
#[derive(Clone, Copy, PartialEq, Eq, Structural)]
pub struct TypeId(pub ItemId);
#[verifier::external_body] pub struct FunctionSig { _p: core::marker::PhantomData<()> }
pub enum TypeKind { Function(FunctionSig), Array(TypeId, usize), Pointer(TypeId), Comp(CompStub), TemplateAlias(TypeId, Vec<TypeId>), Enum(EnumStub), Alias(TypeId), Other }
#[verifier::external_body] pub struct CompStub { _p: core::marker::PhantomData<()> }
#[verifier::external_body] pub struct EnumStub { _p: core::marker::PhantomData<()> }
#[verifier::external_body] pub struct Type { _p: core::marker::PhantomData<()> }
impl Type {
    pub uninterp spec fn s_kind(&self) -> TypeKind;
    #[verifier::external_body] pub fn kind(&self) -> (r: &TypeKind) ensures *r == self.s_kind() { unimplemented!() }
}
#[verifier::external_body] pub struct Item { _p: core::marker::PhantomData<()> }
impl Item {
    // the type of a type item (ItemKind::Type)
    pub open spec fn s_type(&self) -> Type { self.s_kind().s_as_type().unwrap() }
    // expect_type(): the item is a type item (the signature of a function always is)
    #[verifier::external_body] pub fn expect_type(&self) -> (r: &Type) ensures *r == self.s_type() { unimplemented!() }
}
#[verifier::external_body] pub struct Function { _p: core::marker::PhantomData<()> }
impl Function { #[verifier::external_body] pub fn name(&self) -> (r: &str) { unimplemented!() } }

// ---- Type::from_clang_ty, constant-array arm
#[derive(Debug)]
pub enum ParseError { Recurse, Continue }
#[verifier::external_body] pub struct BindgenContext { _p: core::marker::PhantomData<()> }
impl BindgenContext { #[verifier::external_body] pub fn next_item_id(&mut self) -> (r: ItemId) { unimplemented!() } }
pub mod clang {
    #[derive(Clone, Copy)] pub struct Type { pub h: usize }
    #[derive(Clone, Copy)] pub struct Cursor { pub h: usize }
    pub uninterp spec fn s_elem(t: Type) -> Option<Type>;
    pub uninterp spec fn s_num_elements(t: Type) -> Option<usize>;
    impl Type {
        #[verifier::external_body] pub fn elem_type(&self) -> (r: Option<Type>) ensures r == s_elem(*self) { unimplemented!() }
        #[verifier::external_body] pub fn num_elements(&self) -> (r: Option<usize>) ensures r == s_num_elements(*self) { unimplemented!() }
    }
}
impl Item {
    // may fail: not every type clang accepts can be expressed
    #[verifier::external_body] pub fn from_ty(ty: &clang::Type, location: clang::Cursor, parent: Option<ItemId>, ctx: &mut BindgenContext) -> (r: Result<TypeId, ParseError>) { unimplemented!() }
    #[verifier::external_body] pub fn new_opaque_type(with_id: ItemId, ty: &clang::Type, ctx: &mut BindgenContext) -> (r: TypeId) { unimplemented!() }
}

// `v.drain(from..).collect::<Vec<_>>()`: the tail of the vector, removed from it (Vec::drain panics when from > len)
#[verifier::external_body] pub fn vec_drain_from(v: &mut Vec<TypeId>, from: usize) -> (r: Vec<TypeId>)
    requires from <= old(v)@.len(),
    ensures r@ == old(v)@.subrange(from as int, old(v)@.len() as int), final(v)@ == old(v)@.subrange(0, from as int) { unimplemented!() }

// ---- BindgenContext::process_replacements: which (item, replacement) pairs are recorded
impl BindgenContext {
    // the id names an item of the table / that item is a type
    pub uninterp spec fn s_exists(&self, id: ItemId) -> bool;
    pub open spec fn s_is_type(&self, id: ItemId) -> bool { self.s_item(id).s_kind().s_as_type().is_some() }
    pub uninterp spec fn s_item(&self, id: ItemId) -> Item;
    #[verifier::external_body] pub fn resolve_item_fallible(&self, id: ItemId) -> (r: Option<&Item>)
        ensures r.is_some() == self.s_exists(id), r.is_some() ==> *r.unwrap() == self.s_item(id) { unimplemented!() }
    // the IR kind of the type item `id` (if it is one)
    pub open spec fn s_declared_type(&self, id: ItemId) -> bool {
        self.s_is_type(id) && (self.s_item(id).s_type().s_kind() is Comp || self.s_item(id).s_type().s_kind() is TemplateAlias
            || self.s_item(id).s_type().s_kind() is Enum || self.s_item(id).s_type().s_kind() is Alias)
    }
}
#[verifier::external_body] pub struct ItemKind { _p: core::marker::PhantomData<()> }
impl ItemKind {
    pub uninterp spec fn s_as_type(&self) -> Option<Type>;
    #[verifier::external_body] pub fn as_type(&self) -> (r: Option<&Type>)
        ensures r.is_some() == self.s_as_type().is_some(), r.is_some() ==> *r.unwrap() == self.s_as_type().unwrap() { unimplemented!() }
}
impl Item {
    pub uninterp spec fn s_kind(&self) -> ItemKind;
    #[verifier::external_body] pub fn kind(&self) -> (r: &ItemKind) ensures *r == self.s_kind() { unimplemented!() }
}

impl ItemId {
    // ItemId::expect_type_id: resolve_item panics on an id without item ("Not an item"), the debug_assert on one that is no type
    #[verifier::external_body] pub fn expect_type_id(&self, ctx: &BindgenContext) -> (r: TypeId)
        requires ctx.s_exists(*self), ctx.s_is_type(*self),
        ensures r.0 == *self { unimplemented!() }
}

} // verus!
