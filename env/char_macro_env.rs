// Stub environment for unit `char_macro` (C05, C12): the character-literal arm of
// Var::parse (macro constants).  cexpr's CChar is `Char(char)` for a plain character and
// `Raw(u64)` for a numeric escape; u8::try_from and the two char operations are the
// std operations with their documented meaning (rule R21).
verus! {

global size_of usize == 8;

pub enum CChar { Char(char), Raw(u64) }
pub enum IntKind { U8, Other }
pub enum TypeKind { Int(IntKind), Other }
pub enum ParseError { Recurse, Continue }

// u8::try_from(u64): Ok exactly for values that fit
#[verifier::external_body] pub fn u8_try_from(v: u64) -> (r: Result<u8, ()>)
    ensures v <= 255 ==> r == Ok::<u8, ()>(v as u8), v > 255 ==> r is Err { unimplemented!() }
pub uninterp spec fn s_len_utf8(c: char) -> usize;
pub uninterp spec fn s_char_as_u8(c: char) -> u8;
#[verifier::external_body] pub fn char_len_utf8(c: char) -> (r: usize) ensures r == s_len_utf8(c) { unimplemented!() }
#[verifier::external_body] pub fn char_as_u8(c: char) -> (r: u8) ensures r == s_char_as_u8(c) { unimplemented!() }
pub fn runtime_assert(b: bool) requires b {}

} // verus!
