// Stub environment for unit `char_macro` (C05, C12): the character-literal arm of
// Var::parse (macro constants).  cexpr's CChar is `Char(char)` for a plain character and
// `Raw(u64)` for a numeric escape; u8::try_from and the two char operations are the
// std operations with their documented meaning (rule R21).
verus! {

global size_of usize == 8;

pub enum CChar { Char(char), Raw(u64) }
#[derive(Clone, Copy, PartialEq, Eq, Structural)]
pub enum IntKind { Bool, U8, Other }
pub enum FloatKind { Float16, Float, Double, LongDouble, Float128 }
pub enum TypeKind { Int(IntKind), Float(FloatKind), Other }
pub enum ParseError { Recurse, Continue }

// u8::try_from(u64): Ok exactly for values that fit
#[verifier::external_body] pub fn u8_try_from(v: u64) -> (r: Result<u8, ()>)
    ensures v <= 255 ==> r == Ok::<u8, ()>(v as u8), v > 255 ==> r is Err { unimplemented!() }
pub uninterp spec fn s_len_utf8(c: char) -> usize;
pub uninterp spec fn s_char_as_u8(c: char) -> u8;
#[verifier::external_body] pub fn char_len_utf8(c: char) -> (r: usize) ensures r == s_len_utf8(c) { unimplemented!() }
#[verifier::external_body] pub fn char_as_u8(c: char) -> (r: u8) ensures r == s_char_as_u8(c) { unimplemented!() }
pub fn runtime_assert(b: bool) requires b {}

// ---- Var::parse, macro arm: function-like macros never reach the constant evaluator
#[verifier::external_body] pub struct BindgenContext { _p: core::marker::PhantomData<()> }
#[verifier::external_body] pub struct MacroVal { _p: core::marker::PhantomData<()> }     // (Vec<u8>, cexpr::expr::EvalResult)
pub mod clang {
    #[derive(Clone, Copy)] pub struct Cursor { pub h: usize }
    pub uninterp spec fn s_fn_like(c: Cursor) -> bool;      // clang_Cursor_isMacroFunctionLike
    impl Cursor {
        #[verifier::external_body] pub fn is_macro_function_like(&self) -> (r: bool) ensures r == s_fn_like(*self) { unimplemented!() }
    }
}
// cexpr (plus the clang fallback) on the macro's tokens: cannot tell `#define F(x) -1` from `#define F (x)-1`
#[verifier::external_body] pub fn parse_macro(ctx: &mut BindgenContext, cursor: &clang::Cursor) -> (r: Option<MacroVal>) { unimplemented!() }

// ---- Var::parse: which variables get their initialiser evaluated as a floating-point constant
#[verifier::external_body] pub struct Type { _p: core::marker::PhantomData<()> }
impl Type {
    pub uninterp spec fn s_kind(&self) -> TypeKind;
    #[verifier::external_body] pub fn kind(&self) -> (r: &TypeKind) ensures *r == self.s_kind() { unimplemented!() }
    // Type::is_float(): any floating kind
    #[verifier::external_body] pub fn is_float(&self) -> (r: bool) ensures r == (self.s_kind() is Float) { unimplemented!() }
    #[verifier::external_body] pub fn is_integer(&self) -> (r: bool) ensures r == (self.s_kind() is Int) { unimplemented!() }
}

// the registered parse callbacks (possibly none) and what Var::parse asks them about a macro
pub enum MacroParsingBehavior { Ignore, Default }
#[verifier::external_body] pub struct Callback { _p: core::marker::PhantomData<()> }
impl Callback {
    #[verifier::external_body] pub fn will_parse_macro(&self, name: &String) -> (r: MacroParsingBehavior) { unimplemented!() }
    #[verifier::external_body] pub fn as_ref(&self) -> (r: &Callback) { unimplemented!() }
}
impl clang::Cursor { #[verifier::external_body] pub fn spelling(&self) -> (r: String) { unimplemented!() } }
#[verifier::external_body] pub fn handle_function_macro(cursor: &clang::Cursor, callbacks: &Callback) { unimplemented!() }
// `for callbacks in &ctx.options().parse_callbacks` (rule R13): any number of callbacks, including none
#[verifier::external_body] pub struct CallbackCursor { _p: core::marker::PhantomData<()> }
impl CallbackCursor {
    pub uninterp spec fn remaining(&self) -> nat;
    #[verifier::external_body] pub fn new(ctx: &BindgenContext) -> (r: CallbackCursor) { unimplemented!() }
    #[verifier::external_body] pub fn has_next(&self) -> (r: bool) ensures r == (self.remaining() > 0) { unimplemented!() }
    #[verifier::external_body] pub fn next_item(&mut self) -> (r: &'static Callback) requires old(self).remaining() > 0, ensures final(self).remaining() == old(self).remaining() - 1 { unimplemented!() }
}

// ---- Var::parse: the value a variable's initialiser is evaluated to (libclang's evaluator; results uninterpreted)
#[verifier::external_body] pub struct EvalResult { _p: core::marker::PhantomData<()> }
impl EvalResult {
    #[verifier::external_body] pub fn as_int(&self) -> (r: Option<i64>) { unimplemented!() }
    #[verifier::external_body] pub fn as_double(&self) -> (r: Option<f64>) { unimplemented!() }
    #[verifier::external_body] pub fn as_literal_string(&self) -> (r: Option<Vec<u8>>) { unimplemented!() }
}
impl clang::Cursor { #[verifier::external_body] pub fn evaluate(&self) -> (r: Option<EvalResult>) { unimplemented!() } }
#[verifier::external_body] pub fn get_integer_literal_from_cursor(cursor: &clang::Cursor) -> (r: Option<i64>) { unimplemented!() }

} // verus!
