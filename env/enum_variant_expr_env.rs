// Stub environment for unit `enum_variant_expr` (C05): the value expression EnumBuilder::with_variant writes for an
// enumerator.  Literal tokens are uninterpreted functions of the value they denote.
verus! {

#[verifier::external_body] pub struct Tok { _p: core::marker::PhantomData<()> }
#[verifier::external_body] pub struct Ident { _p: core::marker::PhantomData<()> }
pub uninterp spec fn lit_u(v: u64) -> Tok;
pub uninterp spec fn lit_i(v: i64) -> Tok;
pub uninterp spec fn lit_bool(v: bool) -> Tok;
pub mod helpers { pub mod ast_ty {
    #[verifier::external_body] pub fn uint_expr(v: u64) -> (r: super::super::Tok) ensures r == super::super::lit_u(v) { unimplemented!() }
    #[verifier::external_body] pub fn int_expr(v: i64) -> (r: super::super::Tok) ensures r == super::super::lit_i(v) { unimplemented!() }
} }
// quote!(#v) for a bool: the literal `true` / `false`
#[verifier::external_body] pub fn q_bool(v: bool) -> (r: Tok) ensures r == lit_bool(v) { unimplemented!() }
// u64::from(bool)
pub fn bool_to_u64(v: bool) -> (r: u64) ensures r == (if v { 1u64 } else { 0u64 }) { if v { 1 } else { 0 } }
#[verifier::external_body] pub struct BindgenContext { _p: core::marker::PhantomData<()> }
impl BindgenContext { #[verifier::external_body] pub fn rust_mangle(&self, name: &str) -> (r: String) { unimplemented!() } }
#[verifier::external_body] pub struct EnumVariant { _p: core::marker::PhantomData<()> }
impl EnumVariant {
    pub uninterp spec fn s_val(&self) -> EnumVariantValue;
    #[verifier::external_body] pub fn val(&self) -> (r: EnumVariantValue) ensures r == self.s_val() { unimplemented!() }
    #[verifier::external_body] pub fn name(&self) -> (r: &str) { unimplemented!() }
}
#[verifier::external_body] pub struct BuilderRest { _p: core::marker::PhantomData<()> }
pub struct EnumBuilder { pub kind: EnumBuilderKind, pub rest: BuilderRest }

} // verus!
