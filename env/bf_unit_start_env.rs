// Stub environment for unit `bf_unit_start` (C03/C02): where a bit-field
// allocation unit starts inside its struct, as computed in
// <BitfieldUnit as FieldCodegen>::codegen and handed to
// StructLayoutTracker::pad_to_bitfield_unit (unit `layout`, placement theorem).
verus! {

global size_of usize == 8;

#[verifier::external_body] pub struct Bitfield { _p: core::marker::PhantomData<()> }
impl Bitfield {
    pub uninterp spec fn s_offset(&self) -> Option<usize>;          // clang's bit offset of the field in the struct
    pub uninterp spec fn s_offset_into_unit(&self) -> usize;        // its bit offset inside the allocation unit
    #[verifier::external_body] pub fn offset(&self) -> (r: Option<usize>) ensures r == self.s_offset() { unimplemented!() }
    #[verifier::external_body] pub fn offset_into_unit(&self) -> (r: usize) ensures r == self.s_offset_into_unit() { unimplemented!() }
}

} // verus!
