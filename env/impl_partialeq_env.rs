// Stub environment for unit `impl_partialeq` (C08): the bit-field arm of codegen::impl_partialeq::gen_partialeq_impl, i.e.
// which comparisons the hand-written `eq` of a struct makes for one bit-field allocation unit.  Tokens are uninterpreted
// values; `self.#g () == other.#g ()` is the env constructor q_getters_equal (its result is a function of the getter name).
verus! {

global size_of usize == 8;

#[verifier::external_body] pub struct Tok { _p: core::marker::PhantomData<()> }
#[verifier::external_body] pub struct Ident { _p: core::marker::PhantomData<()> }
impl Ident { pub uninterp spec fn s_name(&self) -> Seq<char>; }
pub uninterp spec fn eq_term(getter: Seq<char>) -> Tok;
#[verifier::external_body] pub fn q_getters_equal(name_ident: &Ident) -> (r: Tok) ensures r == eq_term(name_ident.s_name()) { unimplemented!() }
#[verifier::external_body] pub struct BindgenContext { _p: core::marker::PhantomData<()> }
impl BindgenContext {
    #[verifier::external_body] pub fn rust_ident_raw(&self, name: &str) -> (r: Ident) ensures r.s_name() == name@ { unimplemented!() }
    #[verifier::external_body] pub fn rust_ident(&self, name: &str) -> (r: Ident) { unimplemented!() }
}
#[verifier::external_body] pub struct Bitfield { _p: core::marker::PhantomData<()> }
impl Bitfield {
    pub uninterp spec fn s_named(&self) -> bool;
    pub uninterp spec fn s_getter(&self) -> Seq<char>;
    #[verifier::external_body] pub fn name(&self) -> (r: Option<&str>) ensures r.is_some() == self.s_named() { unimplemented!() }
    // panics for an unnamed bit-field ("`Bitfield::getter_name` called on anonymous field")
    #[verifier::external_body] pub fn getter_name(&self) -> (r: &str) requires self.s_named(), ensures r@ == self.s_getter() { unimplemented!() }
    #[verifier::external_body] pub fn setter_name(&self) -> (r: &str) requires self.s_named() { unimplemented!() }
}
#[verifier::external_body] pub struct BitfieldUnit { _p: core::marker::PhantomData<()> }
impl BitfieldUnit {
    pub uninterp spec fn s_bitfields(&self) -> Seq<Bitfield>;
    #[verifier::external_body] pub fn bitfields(&self) -> (r: &[Bitfield]) ensures r@ == self.s_bitfields() { unimplemented!() }
}
#[verifier::external_body]
#[verifier::reject_recursive_types(T)]
pub struct SliceCursor<'a, T> { _p: core::marker::PhantomData<&'a T> }
impl<'a, T> SliceCursor<'a, T> {
    pub uninterp spec fn all(&self) -> Seq<T>;
    pub uninterp spec fn pos(&self) -> int;
    #[verifier::external_body]
    pub fn new(v: &'a [T]) -> (r: SliceCursor<'a, T>) ensures r.all() == v@, r.pos() == 0 { unimplemented!() }
    #[verifier::external_body]
    pub fn has_next(&self) -> (r: bool) ensures r == (self.pos() < self.all().len()), 0 <= self.pos() <= self.all().len() { unimplemented!() }
    #[verifier::external_body]
    pub fn next_item(&mut self) -> (r: &'a T)
        requires old(self).pos() < old(self).all().len(),
        ensures *r == old(self).all()[old(self).pos()], final(self).pos() == old(self).pos() + 1, final(self).all() == old(self).all(),
    { unimplemented!() }
}

// the comparisons owed for a run of bit-fields: one per NAMED bit-field, in order (unnamed ones are padding: no getter)
pub open spec fn terms(s: Seq<Bitfield>) -> Seq<Tok>
    decreases s.len()
{
    if s.len() == 0 { Seq::<Tok>::empty() } else {
        let p = terms(s.drop_last());
        if s.last().s_named() { p.push(eq_term(s.last().s_getter())) } else { p }
    }
}

} // verus!
