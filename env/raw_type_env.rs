// Stub environment for unit `raw_type` (C14): helpers::ast_ty::raw_type, the site
// that chooses between ::std::os::raw::X, ::core::ffi::X (needs 1.64) and a user prefix.
verus! {

global size_of usize == 8;

pub struct RustFeatures { pub core_ffi_c: bool }
#[verifier::external_body] pub struct BindgenOptions { _p: core::marker::PhantomData<()> }
impl BindgenOptions {
    pub uninterp spec fn s_features(&self) -> RustFeatures;
    #[verifier::external_body] pub fn rust_features(&self) -> (r: RustFeatures) ensures r == self.s_features() { unimplemented!() }
}
#[verifier::external_body] pub struct Tok { _p: core::marker::PhantomData<()> }
pub uninterp spec fn uses_core_ffi(t: Tok) -> bool;      // the path starts with ::core::ffi::
pub uninterp spec fn uses_user_prefix(t: Tok) -> bool;
#[verifier::external_body] pub struct BindgenContext { _p: core::marker::PhantomData<()> }
impl BindgenContext {
    pub uninterp spec fn spec_options(&self) -> BindgenOptions;
    pub uninterp spec fn s_prefix(&self) -> Option<String>;
    pub uninterp spec fn s_use_core(&self) -> bool;
    #[verifier::external_body] pub fn options(&self) -> (r: &BindgenOptions) ensures *r == self.spec_options() { unimplemented!() }
    #[verifier::external_body] pub fn rust_ident_raw(&self, name: &str) -> (r: Tok) { unimplemented!() }
    // ctx.options().ctypes_prefix / ctx.options().use_core (plain field reads in the real code)
    #[verifier::external_body] pub fn ctypes_prefix(&self) -> (r: &Option<String>) ensures *r == self.s_prefix() { unimplemented!() }
    #[verifier::external_body] pub fn use_core(&self) -> (r: bool) ensures r == self.s_use_core() { unimplemented!() }
}
#[verifier::external_body] pub fn prefix_tokens(p: &str) -> (r: Tok) { unimplemented!() }
#[verifier::external_body] pub fn q_prefixed(prefix: &Tok, ident: &Tok) -> (r: Tok) ensures uses_user_prefix(r), !uses_core_ffi(r) { unimplemented!() }
#[verifier::external_body] pub fn q_core_ffi(ident: &Tok) -> (r: Tok) ensures uses_core_ffi(r), !uses_user_prefix(r) { unimplemented!() }
#[verifier::external_body] pub fn q_std_os_raw(ident: &Tok) -> (r: Tok) ensures !uses_core_ffi(r), !uses_user_prefix(r) { unimplemented!() }

} // verus!
