// Stub environment for unit `fnsig` (C04: argument / return lowering).
// Type tokens are opaque; `to_rust_ty_or_opaque` is an uninterpreted function
// of the item/type id, `to_ptr(is_const)` builds `*const T` / `*mut T`.
verus! {

global size_of usize == 8;

#[derive(Clone, Copy, PartialEq, Eq, Structural)]
pub struct ItemId(pub usize);
#[derive(Clone, Copy, PartialEq, Eq, Structural)]
pub struct TypeId(pub ItemId);

#[verifier::external_body] pub struct Enum { _p: core::marker::PhantomData<()> }
#[verifier::external_body] pub struct Cursor { _p: core::marker::PhantomData<()> }
#[verifier::external_body] pub struct CompInfo { _p: core::marker::PhantomData<()> }
#[verifier::external_body] pub struct TemplateInstantiation { _p: core::marker::PhantomData<()> }
pub mod clang { #[verifier::external_body] pub struct Type { _p: core::marker::PhantomData<()> } }
pub enum IntKind { Int, Other }
pub enum FloatKind { Float16, Float, Double, LongDouble, Float128 }

#[verifier::external_body] pub struct ObjCInterface { _p: core::marker::PhantomData<()> }
impl ObjCInterface {
    pub uninterp spec fn s_name(&self) -> Seq<char>;
    #[verifier::external_body] pub fn name(&self) -> (r: &str) ensures r@ == self.s_name() { unimplemented!() }
}

#[verifier::external_body] pub struct Tok { _p: core::marker::PhantomData<()> }
pub uninterp spec fn tok_never() -> Tok;                       // `!`
pub uninterp spec fn tok_unit() -> Tok;                        // `()`
pub uninterp spec fn tok_ptr(inner: Tok, is_const: bool) -> Tok; // `*const T` / `*mut T`
pub uninterp spec fn tok_ident(name: Seq<char>) -> Tok;
pub uninterp spec fn tok_of_type(ctx: &BindgenContext, t: TypeId) -> Tok;      // TypeId::to_rust_ty_or_opaque
pub uninterp spec fn tok_of_item(ctx: &BindgenContext, it: &Item) -> Tok;      // Item::to_rust_ty_or_opaque
pub uninterp spec fn tok_of_ty_item(ctx: &BindgenContext, ty: &Type, it: &Item) -> Tok; // Type::to_rust_ty_or_opaque(ctx, item)
impl Tok {
    #[verifier::external_body] pub fn to_ptr(self, is_const: bool) -> (r: Tok) ensures r == tok_ptr(self, is_const) { unimplemented!() }
}
#[verifier::external_body] pub fn mk_never() -> (r: Tok) ensures r == tok_never() { unimplemented!() }
#[verifier::external_body] pub fn mk_unit() -> (r: Tok) ensures r == tok_unit() { unimplemented!() }
#[verifier::external_body] pub fn mk_ident_ty(name: &Tok) -> (r: Tok) ensures r == *name { unimplemented!() }

#[verifier::external_body] pub struct FunctionSig { _p: core::marker::PhantomData<()> }
impl FunctionSig {
    pub uninterp spec fn s_divergent(&self) -> bool;
    pub uninterp spec fn s_return(&self) -> TypeId;
    #[verifier::external_body] pub fn is_divergent(&self) -> (r: bool) ensures r == self.s_divergent() { unimplemented!() }
    #[verifier::external_body] pub fn return_type(&self) -> (r: TypeId) ensures r == self.s_return() { unimplemented!() }
}

#[verifier::external_body] pub struct Type { _p: core::marker::PhantomData<()> }
impl Type {
    pub uninterp spec fn s_kind(&self) -> TypeKind;
    pub uninterp spec fn s_canonical(&self, ctx: &BindgenContext) -> Type;
    pub uninterp spec fn s_const(&self) -> bool;
    #[verifier::external_body] pub fn kind(&self) -> (r: &TypeKind) ensures *r == self.s_kind() { unimplemented!() }
    #[verifier::external_body] pub fn canonical_type(&self, ctx: &BindgenContext) -> (r: &Type) ensures *r == self.s_canonical(ctx) { unimplemented!() }
    #[verifier::external_body] pub fn is_const(&self) -> (r: bool) ensures r == self.s_const() { unimplemented!() }
    #[verifier::external_body] pub fn to_rust_ty_or_opaque(&self, ctx: &BindgenContext, it: &Item) -> (r: Tok) ensures r == tok_of_ty_item(ctx, self, it) { unimplemented!() }
}
impl TypeId {
    #[verifier::external_body] pub fn to_rust_ty_or_opaque(&self, ctx: &BindgenContext, _e: &()) -> (r: Tok) ensures r == tok_of_type(ctx, *self) { unimplemented!() }
}

#[verifier::external_body] pub struct ItemKind { _p: core::marker::PhantomData<()> }
impl ItemKind {
    pub uninterp spec fn s_type(&self) -> Type;
    #[verifier::external_body] pub fn expect_type(&self) -> (r: &Type) ensures *r == self.s_type() { unimplemented!() }
}
#[verifier::external_body] pub struct Item { _p: core::marker::PhantomData<()> }
impl Item {
    pub uninterp spec fn s_kind(&self) -> ItemKind;
    #[verifier::external_body] pub fn kind(&self) -> (r: &ItemKind) ensures *r == self.s_kind() { unimplemented!() }
    #[verifier::external_body] pub fn expect_type(&self) -> (r: &Type) ensures *r == self.s_kind().s_type() { unimplemented!() }
    #[verifier::external_body] pub fn to_rust_ty_or_opaque(&self, ctx: &BindgenContext, _e: &()) -> (r: Tok) ensures r == tok_of_item(ctx, self) { unimplemented!() }
}

pub struct BindgenOptions { pub array_pointers_in_arguments: bool }
#[verifier::external_body] pub struct BindgenContext { _p: core::marker::PhantomData<()> }
impl BindgenContext {
    pub uninterp spec fn spec_options(&self) -> BindgenOptions;
    pub uninterp spec fn s_item(&self, id: ItemId) -> Item;
    pub uninterp spec fn s_type(&self, id: TypeId) -> Type;
    // kind of the return type after looking through type references and aliases
    pub uninterp spec fn s_resolved_kind(&self, t: TypeId) -> TypeKind;
    #[verifier::external_body] pub fn options(&self) -> (r: &BindgenOptions) ensures *r == self.spec_options() { unimplemented!() }
    #[verifier::external_body] pub fn resolve_item(&self, id: TypeId) -> (r: &Item) ensures *r == self.s_item(id.0) { unimplemented!() }
    #[verifier::external_body] pub fn resolve_type(&self, id: TypeId) -> (r: &Type) ensures *r == self.s_type(id) { unimplemented!() }
    #[verifier::external_body] pub fn rust_ident(&self, name: &str) -> (r: Tok) ensures r == tok_ident(name@) { unimplemented!() }
    // stands for: t.into_resolver().through_type_refs().through_type_aliases().resolve(ctx).kind().expect_type().kind()
    #[verifier::external_body] pub fn resolved_kind_of(&self, t: TypeId) -> (r: &TypeKind) ensures *r == self.s_resolved_kind(t) { unimplemented!() }
}

} // verus!
