// Stub environment for unit `bf_alloc` (C03: allocation of bit-fields to units,
// ir/comp.rs bitfields_to_allocation_units).  The two generic parameters of the
// function are instantiated: I = Vec<RawField>, E = FieldSink (a Vec<Field>
// with `extend(Option<Field>)` = what `Extend<Field>` does for an Option).
// RawField/Bitfield/BitfieldUnit/Field carry only the data this function reads
// or writes (width, type, clang offset, named?; offset_into_unit).
verus! {

global size_of usize == 8;

#[derive(Clone, Copy, PartialEq, Eq, Structural)]
pub struct ItemId(pub usize);
#[derive(Clone, Copy, PartialEq, Eq, Structural)]
pub struct TypeId(pub ItemId);

#[verifier::external_body]
pub struct Type { _p: core::marker::PhantomData<()> }
impl Type {
    pub uninterp spec fn spec_layout(&self, ctx: &BindgenContext) -> Option<Layout>;
    #[verifier::external_body]
    pub fn layout(&self, ctx: &BindgenContext) -> (r: Option<Layout>) ensures r == self.spec_layout(ctx) { unimplemented!() }
}

#[verifier::external_body]
pub struct BindgenContext { _p: core::marker::PhantomData<()> }
impl BindgenContext {
    pub uninterp spec fn s_type(&self, id: TypeId) -> Type;
    pub uninterp spec fn s_collected(&self) -> bool;
    #[verifier::external_body]
    pub fn resolve_type(&self, id: TypeId) -> (r: &Type) ensures *r == self.s_type(id) { unimplemented!() }
    #[verifier::external_body]
    pub fn collected_typerefs(&self) -> (r: bool) ensures r == self.s_collected() { unimplemented!() }
}

pub struct RawField { pub width: Option<u32>, pub ty: TypeId, pub offset: Option<usize>, pub named: bool }
impl RawField {
    pub fn bitfield_width(&self) -> (r: Option<u32>) ensures r == self.width { self.width }
    pub fn ty(&self) -> (r: TypeId) ensures r == self.ty { self.ty }
    pub fn offset(&self) -> (r: Option<usize>) ensures r == self.offset { self.offset }
    #[verifier::external_body]
    pub fn name(&self) -> (r: Option<&str>) ensures r.is_some() == self.named { unimplemented!() }
}

pub struct Bitfield { pub offset_into_unit: usize, pub raw: RawField }
impl Bitfield {
    // ir/comp.rs Bitfield::new: `assert!(raw.bitfield_width().is_some())`, then stores both
    pub fn new(offset_into_unit: usize, raw: RawField) -> (r: Bitfield)
        requires raw.width.is_some(),
        ensures r.offset_into_unit == offset_into_unit, r.raw == raw,
    { Bitfield { offset_into_unit, raw } }
}

pub struct BitfieldUnit { pub nth: usize, pub layout: Layout, pub bitfields: Vec<Bitfield> }
pub enum Field { DataMember, Bitfields(BitfieldUnit) }

pub struct FieldSink { pub out: Vec<Field> }
impl FieldSink {
    pub fn extend(&mut self, o: Option<Field>)
        ensures
            o.is_some() ==> final(self).out@ == old(self).out@.push(o.unwrap()),
            o.is_none() ==> final(self).out@ == old(self).out@,
    {
        match o { Some(f) => { self.out.push(f); } None => {} }
    }
}

// `for x in v` over a by-value Vec (rule R13): yields the elements in order.
// vstd of this Verus has no spec for vec::IntoIter.
#[verifier::external_body]
#[verifier::reject_recursive_types(T)]
pub struct VecCursor<T> { _p: core::marker::PhantomData<T> }
impl<T> VecCursor<T> {
    pub uninterp spec fn all(&self) -> Seq<T>;
    pub uninterp spec fn pos(&self) -> int;
    #[verifier::external_body]
    pub fn new(v: Vec<T>) -> (r: VecCursor<T>) ensures r.all() == v@, r.pos() == 0 { unimplemented!() }
    #[verifier::external_body]
    pub fn has_next(&self) -> (r: bool) ensures r == (self.pos() < self.all().len()), 0 <= self.pos() <= self.all().len() { unimplemented!() }
    #[verifier::external_body]
    pub fn next_item(&mut self) -> (r: T)
        requires old(self).pos() < old(self).all().len(),
        ensures r == old(self).all()[old(self).pos()], final(self).pos() == old(self).pos() + 1, final(self).all() == old(self).all(),
    { unimplemented!() }
}

pub mod cmp {
    use super::*;
    pub fn max(a: usize, b: usize) -> (r: usize)
        ensures r == if a >= b { a } else { b },
    { if a >= b { a } else { b } }
}

pub open spec fn align_up(x: int, a: int) -> int
    recommends a > 0,
{
    if x % a == 0 { x } else { x + a - x % a }
}

pub proof fn lemma_align_up(size: int, align: int)
    requires align > 0, size >= 0,
    ensures
        align_up(size, align) % align == 0,
        align_up(size, align) >= size,
        align_up(size, align) - size < align,
{
    vstd::arithmetic::div_mod::lemma_fundamental_div_mod(size, align);
    let q = size / align;
    if size % align != 0 {
        assert(size + align - size % align == (q + 1) * align) by (nonlinear_arith)
            requires size == align * q + size % align;
        vstd::arithmetic::div_mod::lemma_mod_multiples_basic(q + 1, align);
    }
}

// x & (m-1) == x % m for the container sizes of C bit-field base types (bits)
pub proof fn lemma_mask_is_mod(x: usize, a: usize)
    requires a == 1 || a == 2 || a == 4 || a == 8 || a == 16,
    ensures (x & ((a * 8 - 1) as usize)) == x % ((a * 8) as usize),
{
    if a == 1 { assert(x & 7usize == x % 8usize) by (bit_vector); }
    else if a == 2 { assert(x & 15usize == x % 16usize) by (bit_vector); }
    else if a == 4 { assert(x & 31usize == x % 32usize) by (bit_vector); }
    else if a == 8 { assert(x & 63usize == x % 64usize) by (bit_vector); }
    else { assert(x & 127usize == x % 128usize) by (bit_vector); }
}

} // verus!
