#!/bin/sh
# Offline setup: nothing to install; warm the Kani path-mode build and Verus.
set -e
cd "$(dirname "$0")"
mkdir -p .work/gen evidence replay
python3 engine/lift.py /repo/bindgen/codegen/bitfield_unit.rs .work/gen/bitfield_unit_lifted.rs >/dev/null
(cd kani_path && CARGO_NET_OFFLINE=true cargo kani --target-dir ../.work/kani_path_target -Z function-contracts -Z stubbing --only-codegen >/dev/null 2>&1) || true
echo setup ok
